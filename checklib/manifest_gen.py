"""Regenerate MANIFEST.json from props/*.py (keeps it valid and in sync)."""
import importlib
import json
import os
import sys
ROOT = os.path.dirname(os.path.dirname(os.path.abspath(__file__)))
sys.path.insert(0, ROOT)

NOT_APPLICABLE = {
    "C20": "no contract on a function of /repo can state that the Cython-compiled extension behaves like the .py "
           "source under every hash seed: the subject is the compiler and two process configurations; deciding it is "
           "differential testing, a different technique family (DESIGN.md section 4, C20). Hash-seed independence of the "
           "contracted results is part of C02/C08 (set iteration = arbitrary enumeration).",
}


def main():
    props = [json.loads(l) for l in open(os.path.join(ROOT, "properties.jsonl"))]
    checks, na = [], []
    for p in props:
        pid = p["id"]
        if os.path.exists(os.path.join(ROOT, "props", pid + ".py")):
            cfg = importlib.import_module("props." + pid)
            checks.append({
                "property_id": pid,
                "quick_cmd": f"./check {pid} --tier quick",
                "thorough_cmd": f"./check {pid} --tier thorough",
                "evidence_file": f"evidence/{pid}.json",
                "replay_cmd_template": "./check --replay {path}",
                "engine": "pyvc",
                "level_claimed": {"category": cfg.LEVEL, "text": cfg.LEVEL_TEXT, "design_ref": cfg.DESIGN_REF},
                "level_note": cfg.LEVEL_NOTE,
                "technique": cfg.TECHNIQUE,
            })
        else:
            na.append({"property_id": pid, "reason": NOT_APPLICABLE.get(
                pid, "check not built yet (construction in progress, see DESIGN.md section 7)")})
    m = {
        "version": 1,
        "setup_cmd": "./setup.sh",
        "hooks": {
            "guard": "XDEPS_VERIF",
            "enable": "no hooks: contracts are sidecar files under /verif/contracts and run-time contract checks wrap "
                      "the functions from outside; nothing in /repo is instrumented (the guard name is reserved, unused)",
            "baseline_off_cmd": "cd /repo && /venv/bin/python -m pytest -ra -q -p no:cacheprovider --timeout=900 "
                                "--continue-on-collection-errors",
            "source_commits": [],
            "add_only": True,
        },
        "engines": [{
            "name": "pyvc", "path": "pyvc/",
            "serves_properties": [c["property_id"] for c in checks],
            "kind_free_text": "verification-condition generator over the AST of the real /repo functions with sidecar "
                              "contracts (pre/post/raises/frame/loop invariants/ghost state), z3 then cvc5 as back ends; "
                              "the same contracts evaluated at run time on a fresh compiled build as bounded stand-in and "
                              "replay engine (rac/)",
        }],
        "checks": checks,
        "notes": "contract-based deductive verification; see DESIGN.md. known_findings.json lists repaired defects "
                 "(fix: commits in /repo) and recorded findings.",
        "not_applicable": na,
    }
    with open(os.path.join(ROOT, "MANIFEST.json"), "w") as fh:
        json.dump(m, fh, indent=1)
    import jsonschema
    jsonschema.validate(m, json.load(open("/root/.vp/MANIFEST.schema.json")))
    print(f"MANIFEST.json: {len(checks)} checks, {len(na)} not_applicable")


if __name__ == "__main__":
    main()
