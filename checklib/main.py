"""/verif/check -- one property per invocation.

  ./check Cxx [--tier quick|thorough]        decide property Cxx on /repo's working tree
  ./check --replay FILE                      re-run a recorded counterexample on /repo's working tree

Exit codes: 0 held on everything explored (KNOWN-FINDING / PROOF-INCOMPLETE lines possible),
            1 with `VIOLATION property=<id> replay=<path>`, 3 checker broken.
"""
import argparse
import importlib
import json
import os
import subprocess
import sys
import time
import traceback

ROOT = os.path.dirname(os.path.dirname(os.path.abspath(__file__)))
sys.path.insert(0, ROOT)
os.chdir(ROOT)

from pyvc import run as pyrun          # noqa: E402
from rac import build as racbuild      # noqa: E402

EVID = os.environ.get("VERIF_EVIDENCE_DIR") or os.path.join(ROOT, "evidence")
REPLAYS = os.path.join(EVID, "replays")
FUNCTION_LEVEL = ("post", "raises", "frame", "pre@call")


def load_known():
    p = os.path.join(ROOT, "known_findings.json")
    if not os.path.exists(p):
        return dict(findings=[], fixed=[])
    with open(p) as fh:
        return json.load(fh)


def load_baseline():
    p = os.path.join(ROOT, "baseline.json")
    if not os.path.exists(p):
        return dict(functions={}, files={})
    with open(p) as fh:
        return json.load(fh)


def text_changed(r, baseline):
    """has the text the obligation was generated from changed w.r.t. the recorded baseline (the tree on which
    every obligation was discharged)?  Function text; for refs.py (class table read from the whole file) the file."""
    key = f"{r.contract.module}:{r.contract.qualname}" + (("@" + r.contract.extra["variant"]) if r.contract.extra.get("variant") else "")
    if baseline["functions"].get(key, baseline["functions"].get(f"{r.contract.module}:{r.contract.qualname}")) != r.sha:
        return True
    if r.contract.module == "xdeps/refs.py":
        import hashlib
        try:
            with open(os.path.join(os.environ.get("XDEPS_REPO", "/repo"), r.contract.module), "rb") as fh:
                return hashlib.sha256(fh.read()).hexdigest()[:16] != baseline["files"].get(r.contract.module)
        except OSError:
            return True
    return False


def replay_cmd(argv):
    path = argv[0]
    with open(path) as fh:
        rp = json.load(fh)
    print(f"replay of {rp.get('property')} :: {rp.get('obligation') or rp.get('key')}")
    if not rp.get("script"):
        print("no executable counterexample recorded (no-failing-input-found); solver output follows")
        print(json.dumps(rp.get("solver"), indent=1)[:4000])
        return 0
    bdir = racbuild.get_build()
    env = dict(os.environ, PYTHONPATH=bdir, XDEPS_BUILD_DIR=bdir)
    p = subprocess.run([sys.executable, "-c", rp["script"]], env=env, capture_output=True, text=True, timeout=600)
    print(p.stdout[-4000:])
    print(p.stderr[-4000:])
    if p.returncode != 0:
        print(f"VIOLATION property={rp.get('property')} replay={path}")
        return 1
    print("counterexample no longer fails on the current tree")
    return 0


def write_replay(prop, n, payload):
    os.makedirs(REPLAYS, exist_ok=True)
    path = os.path.join(REPLAYS, f"{prop}-{n}.json")
    with open(path, "w") as fh:
        json.dump(payload, fh, indent=1, default=str)
    return path


def check_lemmas(cfg):
    """Code-independent mathematical lemmas the SMT contracts lean on (cfg.LEMMAS: Lean 4 + Mathlib files under /verif/lemmas) are
    re-checked by `lean`; the verdict is cached under .work keyed by the hash of the file and the Lean version (a lemma does not depend
    on /repo).  -> (list of evidence records, list of problems)"""
    import hashlib
    import shutil
    recs, problems = [], []
    files = getattr(cfg, "LEMMAS", [])
    if not files:
        return recs, problems
    lean = shutil.which("lean")
    if lean is None:
        return recs, ["lean is not installed: lemma files cannot be checked"]
    ver = subprocess.run([lean, "--version"], capture_output=True, text=True).stdout.strip()
    os.makedirs(os.path.join(ROOT, ".work", "lemmas"), exist_ok=True)
    for rel in files:
        path = os.path.join(ROOT, rel)
        src = open(path).read()
        sha = hashlib.sha256((ver + "\n" + src).encode()).hexdigest()[:16]
        # mechanical scan: nothing assumed inside the lemma file
        import re as _re
        code = _re.sub(r"/-.*?-/", "", src, flags=_re.S)
        code = "\n".join(ln.split("--")[0] for ln in code.splitlines())
        banned = [w for w in ("sorry", "admit", "axiom", "native_decide", "unsafe") if _re.search(r"\b" + w + r"\b", code)]
        if banned:
            problems.append(f"{rel}: contains {banned}")
            continue
        stamp = os.path.join(ROOT, ".work", "lemmas", os.path.basename(rel) + "." + sha + ".ok")
        t0 = time.time()
        cached = os.path.exists(stamp)
        if not cached:
            p = subprocess.run([lean, path], capture_output=True, text=True, timeout=1500)
            out = (p.stdout + p.stderr).strip()
            if p.returncode != 0 or "error" in out:
                problems.append(f"{rel}: rejected by lean: {out[:400]}")
                continue
            open(stamp, "w").write(out)
        theorems = _re.findall(r"^theorem\s+([A-Za-z0-9_']+)", src, flags=_re.M)
        recs.append(dict(file=rel, sha256_16=sha, checker=ver, theorems=theorems, seconds=round(time.time() - t0, 2), cached=cached))
    return recs, problems


def run_rac(cfg, tier, seed, budget):
    """-> (result dict | None, error text)"""
    script = getattr(cfg, "RAC", None)
    if not script:
        return None, ""
    try:
        bdir = racbuild.get_build()
    except Exception as ex:
        return None, f"build failed: {ex}"
    os.makedirs(os.path.join(ROOT, ".work", "tmp"), exist_ok=True)
    out = os.path.join(ROOT, ".work", "tmp", f"rac-{cfg.ID}-{os.getpid()}.json")
    env = dict(os.environ, PYTHONPATH=bdir, XDEPS_BUILD_DIR=bdir, PYTHONHASHSEED=str(seed % 1000))
    cmd = [sys.executable, os.path.join(ROOT, script), "--tier", tier, "--seed", str(seed), "--out", out]
    if budget:
        cmd += ["--budget", str(budget)]
    def partial(reason):
        # the harness did not finish: the failing inputs it had recorded up to then are kept (they are replayed like any other), the run is
        # still flagged as incomplete
        pp = out + ".partial"
        if os.path.exists(pp):
            try:
                with open(pp) as fh:
                    res = json.load(fh)
                os.unlink(pp)
                res["partial_reason"] = reason
                return res, ""
            except Exception:      # noqa
                pass
        return None, reason
    for stale_file in (out, out + ".partial"):
        if os.path.exists(stale_file):
            os.unlink(stale_file)
    try:
        p = subprocess.run(cmd, env=env, capture_output=True, text=True, timeout=max(600, (budget or 0) * 3))
    except subprocess.TimeoutExpired:
        return partial("RAC timed out")
    if p.returncode != 0 or not os.path.exists(out):
        return partial(f"RAC harness crashed (exit {p.returncode}):\n{p.stdout[-1500:]}\n{p.stderr[-3000:]}")
    with open(out) as fh:
        res = json.load(fh)
    os.unlink(out)
    return res, ""


def main(argv=None):
    argv = sys.argv[1:] if argv is None else argv
    if argv and argv[0] == "--replay":
        return replay_cmd(argv[1:])
    ap = argparse.ArgumentParser()
    ap.add_argument("prop")
    ap.add_argument("--tier", default=os.environ.get("VERIF_TIER", "quick"))
    ap.add_argument("--no-rac", action="store_true")
    ap.add_argument("--no-proof", action="store_true")
    a = ap.parse_args(argv)
    tier = a.tier if a.tier in ("quick", "thorough") else "quick"
    seed = int(os.environ.get("VERIF_SEED", "0") or 0)
    t0 = time.time()
    try:
        cfg = importlib.import_module(f"props.{a.prop}")
    except ImportError as ex:
        print(f"checker broken: no configuration for {a.prop}: {ex}")
        return 3
    prop = cfg.ID
    broken = []
    lines = []

    # ------------------------------------------------------------------ proof part
    reports = []
    if not a.no_proof and getattr(cfg, "CONTRACT_MODULES", None):
        try:
            reg, contracts = pyrun.load_registry(cfg.CONTRACT_MODULES)
            wanted = set(cfg.FUNCTIONS)
            fullname = lambda c: c.qualname + (("@" + c.extra["variant"]) if c.extra.get("variant") else "")
            sel = [c for c in contracts if fullname(c) in wanted]
            missing = wanted - {fullname(c) for c in sel}
            if missing:
                broken.append(f"functions without contract: {sorted(missing)}")
            timeout = 10000 if tier == "quick" else 120000
            dump = os.path.join(ROOT, ".work", "vc", prop)
            reports = pyrun.verify_all(reg, sel, timeout_ms=timeout, dump_dir=dump,
                                       engine_cls=getattr(cfg, "ENGINE", pyrun.Engine))
            # functions this property depends on whose contracts live in another property's configuration (its contract modules and
            # engine): verified here as well, under that configuration -- a change inside them is a failed obligation of THIS check too
            for other, funcs in getattr(cfg, "BORROW", []):
                ocfg = importlib.import_module(f"props.{other}")
                oreg, ocontracts = pyrun.load_registry(ocfg.CONTRACT_MODULES)
                owanted = set(funcs)
                osel = [c for c in ocontracts if fullname(c) in owanted]
                omissing = owanted - {fullname(c) for c in osel}
                if omissing:
                    broken.append(f"borrowed functions without contract in {other}: {sorted(omissing)}")
                oreps = pyrun.verify_all(oreg, osel, timeout_ms=timeout, dump_dir=dump, engine_cls=getattr(ocfg, "ENGINE", pyrun.Engine))
                for r_ in oreps:
                    r_.borrowed_from = other
                reports += oreps
        except Exception:
            broken.append("proof engine crashed:\n" + traceback.format_exc())
    lemma_recs = []
    if not a.no_proof:
        try:
            lemma_recs, lemma_problems = check_lemmas(cfg)
            broken += lemma_problems
        except Exception:
            broken.append("lemma check crashed:\n" + traceback.format_exc())
    n_obl = sum(len(r.real) for r in reports)
    n_dis = sum(len(r.real) - len(r.undischarged()) for r in reports)
    refuted, undecided, stale, failed = [], [], [], []
    baseline = load_baseline()
    for r in reports:
        if r.status != "ok":
            stale.append(r)
            continue
        if len(r.real) < r.contract.min_obligations and not r.synthetic:
            broken.append(f"{r.contract.qualname}: only {len(r.real)} obligations generated, "
                          f"contract expects >= {r.contract.min_obligations}")
        for o in r.vacuous_probes():
            broken.append(f"vacuity probe provable (contradictory hypotheses): {o.name}")
        for o in r.undischarged():
            v = r.results[o.name]
            if v["verdict"] == "sat":
                refuted.append((r, o, v))
            elif text_changed(r, baseline):
                # discharged on the baseline text, not dischargeable (after a retry with 6x budget, both solvers)
                # on the current text: reported as a failed obligation
                failed.append((r, o, v))
            else:
                undecided.append((r, o, v))
    if reports and n_obl == 0 and not stale:
        broken.append("zero obligations generated")

    # ------------------------------------------------------------------ run-time part
    rac, racerr = (None, "")
    if not a.no_rac:
        budget = getattr(cfg, "RAC_BUDGET", {}).get(tier)
        rac, racerr = run_rac(cfg, tier, seed, budget)
        if racerr:
            broken.append(racerr)
        elif rac is not None:
            if rac.get("partial_reason"):
                broken.append(rac["partial_reason"] + " -- failing inputs recorded before that are reported")
            need = getattr(cfg, "RAC_MIN", {}).get(tier, 1)
            if rac.get("empty_sections") and not rac["failures"]:
                broken.append(f"run-time contracts: section(s) {rac['empty_sections']} evaluated nothing although opened with time to spare")
            if rac["evaluations"] < need and not rac["failures"]:
                # vacuity guard of the run-time part: a harness that silently skipped its sections must not report "held"
                broken.append(f"run-time contracts evaluated {rac['evaluations']} times, fewer than the {need} this harness always reaches")

    # ------------------------------------------------------------------ verdict
    known = load_known()
    kf = [k for k in known.get("findings", []) if k["property"] == prop]
    violations = []
    nrep = 0
    if rac:
        for f in rac["failures"]:
            hit = next((k for k in kf if k["key"] in f["key"]), None)
            if hit:
                ln = f"KNOWN-FINDING: property={prop} {hit['what']}"
                if ln not in lines:
                    lines.append(ln)
                continue
            linked = [o.name for (r, o, v) in refuted + failed + undecided
                      if f.get("function") and r.contract.qualname.endswith(f["function"])]
            path = write_replay(prop, nrep, dict(property=prop, key=f["key"], what=f["what"],
                                                 obligation=linked[:8], script=f["script"],
                                                 solver=[dict(name=o.name, **v) for (r, o, v) in refuted[:8]]))
            nrep += 1
            violations.append((path, f["what"], ""))
    for k in kf:
        # listed findings are announced on every run (the failing input is part of the RAC corpus)
        ln = f"KNOWN-FINDING: property={prop} {k['what']}"
        if ln not in lines and k.get("always_print", True):
            lines.append(ln)
    if failed and not violations:
        for (r, o, v) in failed[:5]:
            path = write_replay(prop, nrep, dict(
                property=prop, obligation=o.name, script=None,
                solver=dict(verdict=v["verdict"], backend=v["backend"], time_s=v["time"], output=v.get("model"),
                            note="this obligation is discharged on the baseline text of the function (baseline.json); "
                                 "on the current text z3 and cvc5 both fail to discharge it within 6x the budget"),
                what=f"obligation {o.name} no longer discharged ({v['verdict']})"))
            nrep += 1
            violations.append((path, f"obligation {o.name} no longer discharged on the changed text of "
                               f"{r.contract.qualname}", " no-failing-input-found"))
    if refuted and not violations:
        # the prover refuted an obligation but the bounded search found no failing input on the real code
        for (r, o, v) in refuted[:5]:
            # a contract may turn the solver's counter-model into an input for the REAL function (extra["concretize"]): the candidate is run on the
            # scratch build, and only if it fails there is it recorded as the failing input; otherwise the obligation is reported without one
            conc = r.contract.extra.get("concretize")
            script = None
            if conc is not None:
                try:
                    cand = conc(o.name, v.get("model") or "")
                    if cand:
                        bdir = racbuild.get_build()
                        pr = subprocess.run([sys.executable, "-c", cand], env=dict(os.environ, PYTHONPATH=bdir, XDEPS_BUILD_DIR=bdir),
                                            capture_output=True, text=True, timeout=120)
                        if pr.returncode != 0:
                            script = cand
                            lines.append(f"# counter-model of {o.name} replayed on the real code: " + (pr.stderr.strip().splitlines() or ["fails"])[-1][:300])
                except Exception as ex:      # noqa  (a concretisation that cannot be built or run decides nothing)
                    script = None
            if script:
                path = write_replay(prop, nrep, dict(property=prop, obligation=o.name, script=script,
                                                     solver=dict(verdict=v["verdict"], backend=v["backend"], model=v["model"]),
                                                     what=f"obligation {o.name} refuted by {v['backend']}; the counter-model fails on the real code"))
                nrep += 1
                violations.append((path, f"obligation {o.name} refuted; counter-model replayed on the real code", ""))
                continue
            path = write_replay(prop, nrep, dict(property=prop, obligation=o.name, script=None,
                                                 solver=dict(verdict=v["verdict"], backend=v["backend"],
                                                             model=v["model"]),
                                                 what=f"obligation {o.name} refuted by {v['backend']}"))
            nrep += 1
            violations.append((path, f"obligation {o.name} refuted", " no-failing-input-found"))
    for (r, o, v) in undecided:
        lines.append(f"PROOF-INCOMPLETE obligation={o.name} ({v['verdict']} after {v['time']}s, {v['backend']})")
    for r in stale:
        lines.append(f"PROOF-STALE function={r.contract.qualname} status={r.status}: {r.detail.splitlines()[0] if r.detail else ''}")

    # ------------------------------------------------------------------ evidence
    all_discharged = bool(reports) and n_obl > 0 and n_dis == n_obl and not stale
    claimed = getattr(cfg, "LEVEL", "other")
    level = claimed if (claimed != "proof" or all_discharged) else "other"
    backends = {}
    solver_time = 0.0
    funcs = []
    for r in reports:
        for o in r.real:
            v = r.results.get(o.name, {})
            if v.get("verdict") == "unsat":
                backends[v["backend"]] = backends.get(v["backend"], 0) + 1
            solver_time += v.get("time", 0)
        funcs.append(dict(function=r.contract.qualname, file=r.contract.module, lines=r.span, sha256_16=r.sha,
                          status=r.status, detail=r.detail[:300], obligations=len(r.real),
                          discharged=len(r.real) - len(r.undischarged()), vacuity_probes=len(r.probes),
                          syntactic_frames=r.trivial_frames,
                          undischarged=[o.name for o in r.undischarged()][:20],
                          **({"contract_of": getattr(r, "borrowed_from")} if getattr(r, "borrowed_from", None) else {})))
    slow = sorted(((r.results[o.name].get("time", 0), o.name, r.results[o.name].get("backend")) for r in reports for o in r.real
                   if r.results.get(o.name, {}).get("time", 0) > 2.0 or r.results.get(o.name, {}).get("backend") != "z3"), reverse=True)[:12]
    samples = [o.name for r in reports for o in r.real][:6]
    cov = dict(
        obligations=n_obl, discharged=n_dis,
        checker_cmd=f"./check {prop} --tier {tier}",
        trusted_base=list(getattr(cfg, "TRUSTED", [])) + [
            f"trusted base of the contracts borrowed from {o}: " + "; ".join(getattr(importlib.import_module(f'props.{o}'), "TRUSTED", []))[:600]
            for o, _ in getattr(cfg, "BORROW", [])],
        backends=backends, solver_time_s=round(solver_time, 2), functions=funcs,
        bounded=list(getattr(cfg, "BOUNDED", [])),
        explanation=getattr(cfg, "EXPLANATION", ""),
        proof_incomplete=[o.name for (_, o, _) in undecided], proof_refuted=[o.name for (_, o, _) in refuted + failed],
        proof_stale=[r.contract.qualname for r in stale],
        slow_obligations=[dict(seconds=t, obligation=nm, backend=b) for t, nm, b in slow],
        lemmas_checked=lemma_recs,
    )
    if rac:
        cov.update(evaluations=rac["evaluations"], distinct_nontrivial=rac["distinct_nontrivial"],
                   rule=rac["rule"], samples=rac["samples"] + [dict(obligation=s) for s in samples],
                   exhaustive=rac["exhaustive"], rac_bounds=rac["bounds"], rac_sections=rac["sections"],
                   rac_imported_from=rac["imported_from"], rac_wall_s=rac["wall_s"])
    else:
        cov.update(samples=[dict(obligation=s) for s in samples] or [dict(note="no case explored")])
    ev = dict(property_id=prop, tier=tier, seed=seed, level=level, coverage=cov,
              assumptions=list(getattr(cfg, "ASSUMPTIONS", [])), wall_s=round(time.time() - t0, 2),
              violations=len(violations))
    os.makedirs(EVID, exist_ok=True)
    with open(os.path.join(EVID, f"{prop}.json"), "w") as fh:
        json.dump(ev, fh, indent=1, default=str)

    # ------------------------------------------------------------------ output
    print(f"[{prop}] tier={tier} proof: {n_dis}/{n_obl} obligations discharged over {len(reports)} functions "
          f"({', '.join(f'{k}:{v}' for k, v in backends.items())}; solver {solver_time:.1f}s)"
          + (f"; run-time contracts: {rac['evaluations']} evaluations, {rac['distinct_nontrivial']} distinct non-trivial, "
             f"{rac['n_failing_keys']} failing" if rac else ""))
    for ln in lines:
        print(ln)
    if broken:
        for b in broken:
            print("CHECKER-BROKEN:", b)
        if not violations:
            return 3
        # failed obligations, and failing inputs replayed on the real code, stand on their own even when the run could not be completed
    if violations:
        for path, what, suffix in violations[:3]:
            print(f"# {what[:400]}")
            print(f"VIOLATION property={prop} replay={path}{suffix}")
        if len(violations) > 3:
            print(f"# ... and {len(violations) - 3} more failing inputs (replay files next to the ones above)")
        return 1
    print(f"[{prop}] held ({level}) in {time.time() - t0:.1f}s")
    return 0


if __name__ == "__main__":
    sys.exit(main())
