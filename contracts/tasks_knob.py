"""C01: LinearKnob -- "each target of a linear-knob task holds what that task prescribes".

  LinearKnob(taskid, source, weights, targets)
      dependencies == {source};  knob_targets == targets (same locations, same order);  prev_value == the source's current value;
      targets == the union of locs(t) over the given targets (each target AND the containers holding it: a task reading such a container
      as a whole must be scheduled after the knob -- defect F28 was the missing closure)
  run()
      with v = value of the source:   for i = 0 .. n-1 in order:  target_i  <-  value(target_i) + weights_i * (v - prev_values_i)
      (each read on the data as left by the previous store) and prev_values_i <- v right after its store; then prev_value <- v; nothing else
      is stored.  Spec function  KH(k) = the data after the first k stores, by recursion on k.
      If a read or a store raises at target k, the data are KH(k) and exactly the first k records hold v: repeating run() adds
      w_i * (v - v) to those and the full change to the others (C18: recoverable; the single shared prev_value of the pinned tree was F29)

Arithmetic on the values is opaque (py_sub / py_add / py_mul: C04 decides what they compute); weights and targets have equal lengths
(zip would silently stop at the shorter one); user-level failures (UserError) leave whatever was stored so far.
"""
import z3
from pyvc.values import *          # noqa
from pyvc.contract import Contract, LoopSpec
from pyvc.knob_engine import KnobEngine, py_sub, py_add, py_mul
from contracts.tasks_proto import M, GET_VALUE, SET_VALUE, GET_DEPS, hstore, evalv, locs_of

x = z3.Const("x!k", V)
i, k = z3.Ints("i!k k!k")
A_IV = z3.ArraySort(IntS, V)
A_VB = z3.ArraySort(V, BoolS)
TSeqV = TSeq(TV)
TKnob = TRec("LinearKnob", dict(taskid=TV, source=TV, dependencies=TSet, knob_targets=TSeqV, targets=TSet, prev_value=TV, prev_values=TSeqV,
                                weights=TSeqV))

KH = z3.Function("knob_heap_after", V, V, A_IV, A_IV, A_IV, IntS, V)     # heap0, source value, weights, targets, per-target previous, stores done -> heap
UN = z3.Function("knob_targets_union", A_IV, IntS, A_VB)                 # targets, number of targets looked at -> set of locations


def kh_axioms(h0, v, w, t, pv):
    a, b = z3.Consts("a!kc b!kc", V)
    return z3.And(KH(h0, v, w, t, pv, 0) == h0,
                  # the knob's values are numbers (or arrays of numbers): addition and multiplication commute
                  z3.ForAll([a, b], py_add(a, b) == py_add(b, a), patterns=[py_add(a, b)]),
                  z3.ForAll([a, b], py_mul(a, b) == py_mul(b, a), patterns=[py_mul(a, b)]),
                  z3.ForAll([k], z3.Implies(k >= 0, KH(h0, v, w, t, pv, k + 1) == hstore(
                      KH(h0, v, w, t, pv, k), z3.Select(t, k),
                      py_add(evalv(z3.Select(t, k), KH(h0, v, w, t, pv, k)), py_mul(z3.Select(w, k), py_sub(v, z3.Select(pv, k)))))),
                      patterns=[KH(h0, v, w, t, pv, k + 1)]))


def un_axioms(t):
    return z3.And(z3.ForAll([x], z3.Not(z3.Select(UN(t, 0), x)), patterns=[z3.Select(UN(t, 0), x)]),
                  z3.ForAll([k, x], z3.Implies(k >= 0, z3.Select(UN(t, k + 1), x) == z3.Or(z3.Select(UN(t, k), x), z3.Select(locs_of(z3.Select(t, k)), x))),
                            patterns=[z3.Select(UN(t, k + 1), x)]))


def _v(p):
    return evalv(p.self.source.t, p.heap.t)


def _kh(p, kk):
    return KH(p.heap.t, _v(p), p.self.weights.arr, p.self.knob_targets.arr, p.self.prev_values.arr, kk)


def _applied(p, c, kk):
    """the first kk targets have received the change and remember the new source value; the others remember what they did before"""
    pv = c.self.prev_values
    return z3.And(c.heap.t == _kh(p, kk), pv.n == p.self.prev_values.n,
                  z3.ForAll([i], pv.at(i) == z3.If(z3.And(0 <= i, i < kk), _v(p), p.self.prev_values.at(i)), patterns=[pv.at(i)]))


KNOB_RUN = Contract(
    module=M, qualname="LinearKnob.run", params=dict(self=TKnob), ghost=dict(heap=TV, kfail=TInt),
    requires=[("as-many-weights-and-records-as-targets", lambda p: z3.And(p.self.weights.n == p.self.knob_targets.n,
                                                                        p.self.prev_values.n == p.self.knob_targets.n)),
              ("ghost: no target reached yet", lambda p: p.kfail.t == 0)],
    axioms=[lambda p: kh_axioms(p.heap.t, _v(p), p.self.weights.arr, p.self.knob_targets.arr, p.self.prev_values.arr),
            lambda p: p.self.knob_targets.n >= 0],
    ensures=[("every target, in order, receives its value plus weight * (source - the source value last applied to IT); nothing else is stored; "
              "every target remembers the new source value", lambda o, n, r: _applied(o, n, o.self.knob_targets.n)),
             ("the source value is remembered", lambda o, n, r: n.self.prev_value.t == _v(o))],
    raises={"UserError": dict(when=None, modifies=("heap", "self.prev_values", "kfail"), post=[
        ("a failing read / store leaves exactly the first k targets changed AND recorded as changed: repeating run() adds nothing to them and the "
         "full change to the others", lambda o, n: z3.And(0 <= n.kfail.t, n.kfail.t <= o.self.knob_targets.n, _applied(o, n, n.kfail.t)))])},
    modifies=("heap", "self.prev_value", "self.prev_values"),
    loops={0: LoopSpec(anchor="enumerate(zip(self.weights, self.knob_targets))",
                       invariants=[("the first k targets changed and recorded", lambda L: z3.And(
                           0 <= L.k, L.k <= L.n, L.n == L.old.self.knob_targets.n, _applied(L.old, L.cur, L.k),
                           L.cur.value.t == _v(L.old)))],
                       modifies=("heap",), on_raise=lambda L, st: st.env.__setitem__("kfail", PyInt(L.k)))},
    call_ghost={("BaseRef._get_value", None): lambda st, pre: dict(heap=st.heap),
                ("MutableRef._set_value", None): lambda st, pre: dict(heap=st.heap)},
    min_obligations=5,
    extra=dict(engine=KnobEngine, ghost_writeback={"heap": "heap"}, frame_ghosts=False))


def _init_inv(L):
    p, c = L.old, L.cur
    t = c.self.knob_targets
    return z3.And(0 <= L.k, L.k <= L.n, L.n == t.n, t.n == p.targets.n,
                  z3.ForAll([i], z3.Implies(z3.And(0 <= i, i < t.n), t.at(i) == p.targets.at(i)), patterns=[t.at(i)]),
                  c.self.targets.arr == UN(p.targets.arr, L.k))


KNOB_INIT = Contract(
    module=M, qualname="LinearKnob.__init__", params=dict(self=TKnob, taskid=TV, source=TV, weights=TSeqV, targets=TSeqV), ghost=dict(heap=TV),
    axioms=[lambda p: un_axioms(p.targets.arr)],
    ensures=[("taskid, source, weights stored as given", lambda o, n, r: z3.And(n.self.taskid.t == o.taskid.t, n.self.source.t == o.source.t,
                                                                             n.self.weights.same(o.weights))),
             ("dependencies == {source}", lambda o, n, r: z3.ForAll([x], n.self.dependencies.has(x) == (x == o.source.t))),
             ("knob_targets == the given targets, in order", lambda o, n, r: n.self.knob_targets.same(o.targets)),
             ("targets == every given target and every container holding one (union of locs)",
              lambda o, n, r: n.self.targets.arr == UN(o.targets.arr, o.targets.n)),
             ("prev_value == the source's current value", lambda o, n, r: n.self.prev_value.t == evalv(o.source.t, o.heap.t)),
             ("one record per target, each the source's current value", lambda o, n, r: z3.And(
                 n.self.prev_values.n == o.targets.n,
                 z3.ForAll([i], z3.Implies(z3.And(0 <= i, i < o.targets.n), n.self.prev_values.at(i) == evalv(o.source.t, o.heap.t)),
                           patterns=[n.self.prev_values.at(i)])))],
    raises={"UserError": dict(when=None, post=[], modifies=("self",))},
    modifies=("self",),
    loops={0: LoopSpec(anchor="self.knob_targets", invariants=[("targets == union over the first k", _init_inv)])},
    call_ghost={("BaseRef._get_value", None): lambda st, pre: dict(heap=st.heap)},
    min_obligations=7,
    extra=dict(engine=KnobEngine, frame_ghosts=False))

CONTRACTS = [KNOB_RUN, KNOB_INIT]
