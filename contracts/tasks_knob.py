"""C01: LinearKnob -- "each target of a linear-knob task holds what that task prescribes".

  LinearKnob(taskid, source, weights, targets)
      dependencies == {source};  knob_targets == targets (same locations, same order);  prev_value == the source's current value;
      targets == the union of locs(t) over the given targets (each target AND the containers holding it: a task reading such a container
      as a whole must be scheduled after the knob -- defect F28 was the missing closure)
  run()
      with v = value of the source, delta = v - prev_value:   for i = 0 .. n-1 in order:  target_i  <-  value(target_i) + weights_i * delta
      (each read on the data as left by the previous store), then prev_value <- v;   nothing else is stored.
      Spec function  KH(k) = the data after the first k stores, by recursion on k.

Arithmetic on the values is opaque (py_sub / py_add / py_mul: C04 decides what they compute); weights and targets have equal lengths
(zip would silently stop at the shorter one); user-level failures (UserError) leave whatever was stored so far.
"""
import z3
from pyvc.values import *          # noqa
from pyvc.contract import Contract, LoopSpec
from pyvc.knob_engine import KnobEngine, py_sub, py_add, py_mul
from contracts.tasks_proto import M, GET_VALUE, SET_VALUE, GET_DEPS, hstore, evalv, locs_of

x = z3.Const("x!k", V)
i, k = z3.Ints("i!k k!k")
A_IV = z3.ArraySort(IntS, V)
A_VB = z3.ArraySort(V, BoolS)
TSeqV = TSeq(TV)
TKnob = TRec("LinearKnob", dict(taskid=TV, source=TV, dependencies=TSet, knob_targets=TSeqV, targets=TSet, prev_value=TV, weights=TSeqV))

KH = z3.Function("knob_heap_after", V, V, A_IV, A_IV, IntS, V)           # heap0, delta, weights, targets, number of stores done -> heap
UN = z3.Function("knob_targets_union", A_IV, IntS, A_VB)                 # targets, number of targets looked at -> set of locations


def kh_axioms(h0, delta, w, t):
    a, b = z3.Consts("a!kc b!kc", V)
    return z3.And(KH(h0, delta, w, t, 0) == h0,
                  # the knob's values are numbers (or arrays of numbers): addition and multiplication commute
                  z3.ForAll([a, b], py_add(a, b) == py_add(b, a), patterns=[py_add(a, b)]),
                  z3.ForAll([a, b], py_mul(a, b) == py_mul(b, a), patterns=[py_mul(a, b)]),
                  z3.ForAll([k], z3.Implies(k >= 0, KH(h0, delta, w, t, k + 1) == hstore(
                      KH(h0, delta, w, t, k), z3.Select(t, k),
                      py_add(evalv(z3.Select(t, k), KH(h0, delta, w, t, k)), py_mul(z3.Select(w, k), delta)))),
                      patterns=[KH(h0, delta, w, t, k + 1)]))


def un_axioms(t):
    return z3.And(z3.ForAll([x], z3.Not(z3.Select(UN(t, 0), x)), patterns=[z3.Select(UN(t, 0), x)]),
                  z3.ForAll([k, x], z3.Implies(k >= 0, z3.Select(UN(t, k + 1), x) == z3.Or(z3.Select(UN(t, k), x), z3.Select(locs_of(z3.Select(t, k)), x))),
                            patterns=[z3.Select(UN(t, k + 1), x)]))


def _delta(p):
    return py_sub(evalv(p.self.source.t, p.heap.t), p.self.prev_value.t)


def _kh(p, kk):
    return KH(p.heap.t, _delta(p), p.self.weights.arr, p.self.knob_targets.arr, kk)


KNOB_RUN = Contract(
    module=M, qualname="LinearKnob.run", params=dict(self=TKnob), ghost=dict(heap=TV),
    requires=[("as-many-weights-as-targets", lambda p: p.self.weights.n == p.self.knob_targets.n)],
    axioms=[lambda p: kh_axioms(p.heap.t, _delta(p), p.self.weights.arr, p.self.knob_targets.arr)],
    ensures=[("every target, in order, receives its value plus weight * (source - previous source); nothing else is stored",
              lambda o, n, r: n.heap.t == _kh(o, o.self.knob_targets.n)),
             ("the source value is remembered for the next run", lambda o, n, r: n.self.prev_value.t == evalv(o.self.source.t, o.heap.t))],
    raises={"UserError": dict(when=None, post=[], modifies=("heap",))},
    modifies=("heap", "self.prev_value"),
    loops={0: LoopSpec(anchor="zip(self.weights, self.knob_targets)",
                       invariants=[("data == after-the-first-k-stores", lambda L: z3.And(
                           0 <= L.k, L.k <= L.n, L.n == L.old.self.knob_targets.n, L.cur.heap.t == _kh(L.old, L.k),
                           L.cur.delta.t == _delta(L.old), L.cur.value.t == evalv(L.old.self.source.t, L.old.heap.t)))],
                       modifies=("heap",))},
    call_ghost={("BaseRef._get_value", None): lambda st, pre: dict(heap=st.heap),
                ("MutableRef._set_value", None): lambda st, pre: dict(heap=st.heap)},
    min_obligations=4,
    extra=dict(engine=KnobEngine, ghost_writeback={"heap": "heap"}, frame_ghosts=False))


def _init_inv(L):
    p, c = L.old, L.cur
    t = c.self.knob_targets
    return z3.And(0 <= L.k, L.k <= L.n, L.n == t.n, t.n == p.targets.n,
                  z3.ForAll([i], z3.Implies(z3.And(0 <= i, i < t.n), t.at(i) == p.targets.at(i)), patterns=[t.at(i)]),
                  c.self.targets.arr == UN(p.targets.arr, L.k))


KNOB_INIT = Contract(
    module=M, qualname="LinearKnob.__init__", params=dict(self=TKnob, taskid=TV, source=TV, weights=TSeqV, targets=TSeqV), ghost=dict(heap=TV),
    axioms=[lambda p: un_axioms(p.targets.arr)],
    ensures=[("taskid, source, weights stored as given", lambda o, n, r: z3.And(n.self.taskid.t == o.taskid.t, n.self.source.t == o.source.t,
                                                                             n.self.weights.same(o.weights))),
             ("dependencies == {source}", lambda o, n, r: z3.ForAll([x], n.self.dependencies.has(x) == (x == o.source.t))),
             ("knob_targets == the given targets, in order", lambda o, n, r: n.self.knob_targets.same(o.targets)),
             ("targets == every given target and every container holding one (union of locs)",
              lambda o, n, r: n.self.targets.arr == UN(o.targets.arr, o.targets.n)),
             ("prev_value == the source's current value", lambda o, n, r: n.self.prev_value.t == evalv(o.source.t, o.heap.t))],
    raises={"UserError": dict(when=None, post=[], modifies=("self",))},
    modifies=("self",),
    loops={0: LoopSpec(anchor="self.knob_targets", invariants=[("targets == union over the first k", _init_inv)])},
    call_ghost={("BaseRef._get_value", None): lambda st, pre: dict(heap=st.heap)},
    min_obligations=6,
    extra=dict(engine=KnobEngine, frame_ghosts=False))

CONTRACTS = [KNOB_RUN, KNOB_INIT]
