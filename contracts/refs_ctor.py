"""C06 / C12 contracts on constructors and pickling support of xdeps/refs.py.

__cinit__  : stores each argument in its slot (this is what licenses `ctor_facts` used by every
             caller) and computes `_hash` as a function of the dynamic class and the *identity*
             slots only (relational obligation: two executions that agree on those agree on the hash).
__reduce__ : returns (type(self), args) such that type(self)(*args) rebuilds every slot.
__hash__   : returns the stored hash.
"""
import z3
from pyvc.values import *          # noqa
from pyvc.contract import Contract
from pyvc.refs_engine import RefsEngine, type_of, hash_fn, as_tuple, is_dict, tuple_term
from contracts import refspec as RS
from contracts.refspec import fld, cls_of, C, is_ref

M = "xdeps/refs.py"
is_tuple = z3.Function("py_is_tuple", V, BoolS)
dict_items = z3.Function("py_dict_items", V, V)
ENG = dict(engine=RefsEngine)

# constructor parameter lists as the *statement-level* slot order (checked against the real def by the engine)
CINIT = {
    "MutableRef": (("_owner", "_key", "_manager"), ("_owner", "_key", "_manager")),
    "Ref": (("_owner", "_key", "_manager"), ()), "AttrRef": (("_owner", "_key", "_manager"), ()),
    "ItemRef": (("_owner", "_key", "_manager"), ()),
    "BinOpExpr": (("lhs", "rhs"), ("_lhs", "_rhs")), "UnaryOpExpr": (("arg",), ("_arg",)),
    "LiteralExpr": (("arg",), ("_arg",)), "BuiltinRef": (("arg", "op", "params"), ("_arg", "_op", "_params")),
    "CallRef": (("func", "args", "kwargs"), ("_func", "_args", "_kwargs")),
}
# which parameters may influence the hash (identity of the denoted path / structure); never `_manager`
HASH_PARAMS = {"Ref": ("_key",), "AttrRef": ("_owner", "_key"), "ItemRef": ("_owner", "_key"),
               "BinOpExpr": ("lhs", "rhs"), "UnaryOpExpr": ("arg",), "LiteralExpr": ("arg",),
               "BuiltinRef": ("arg", "op", "params"), "CallRef": ("func", "args", "kwargs")}
FIELDS = {"MutableRef": ("_owner", "_key", "_manager"), "BinOpExpr": ("_lhs", "_rhs"), "UnaryOpExpr": ("_arg",),
          "LiteralExpr": ("_arg",), "BuiltinRef": ("_arg", "_op", "_params"), "CallRef": ("_func", "_args", "_kwargs")}


def rec_type(cname):
    owner = {"Ref": "MutableRef", "AttrRef": "MutableRef", "ItemRef": "MutableRef"}.get(cname, cname)
    fs = {f: TV for f in FIELDS[owner]}
    fs["_hash"] = TInt
    return TRec(cname, fs)


def tuple_axioms():
    xx = z3.Const("x!tp", V)
    return [z3.ForAll([xx], is_tuple(as_tuple(xx)), patterns=[as_tuple(xx)]),
            z3.ForAll([xx], z3.Implies(is_tuple(xx), as_tuple(xx) == xx), patterns=[as_tuple(xx)])]


def hash_relational(cname, params):
    """two executions of this __cinit__ agreeing on the dynamic class and the identity parameters
    compute the same hash: obtained by renaming every other input of the symbolic hash term"""
    allowed = HASH_PARAMS[cname]
    own_fields = CINIT[cname][1]        # slots this very __cinit__ assigns (empty: the base class __cinit__ does)

    def post(o, n, r):
        h = n.self._hash.t
        subs, eqs = [], []
        other = {}
        for p in params:
            other[p] = FreshConst(V, p + "_other_run")
            subs.append((getattr(o, p).t, other[p]))
        ident = o.self.ty.ident_term if hasattr(o.self.ty, "ident_term") else None
        if ident is not None:
            ident2 = FreshConst(V, "self_other_run")
            subs.append((ident, ident2))
            eqs.append(type_of(ident) == type_of(ident2))
        h2 = z3.substitute(h, *subs)
        if own_fields:
            # same STRUCTURE (equal identity slots after construction) => same hash, however the slots were
            # obtained from the arguments (e.g. kwargs given as a dict or as a tuple of pairs)
            for f in own_fields:
                if f != "_manager":
                    ft = n.self.fields[f].t
                    eqs.append(ft == z3.substitute(ft, *subs))
        else:
            for p in allowed:
                eqs.append(getattr(o, p).t == other[p])
        return z3.Implies(z3.And(*eqs) if eqs else z3.BoolVal(True), h == h2)
    return post


def cinit_contract(cname):
    params, fields = CINIT[cname]
    ens = []
    for p, f in zip(params, fields):
        if cname == "CallRef" and p == "kwargs":
            ens.append((f"slot{f}", lambda o, n, r: z3.And(
                is_tuple(n.self._kwargs.t),
                z3.Implies(z3.And(is_tuple(o.kwargs.t), z3.Not(is_dict(o.kwargs.t))), n.self._kwargs.t == o.kwargs.t))))
        else:
            ens.append((f"slot{f}", (lambda p_, f_: lambda o, n, r: n.self.fields[f_].t == getattr(o, p_).t)(p, f)))
    if cname in HASH_PARAMS:
        ens.append(("hash-depends-on-class-and-identity-slots-only", hash_relational(cname, params)))
    ps = dict(self=rec_type(cname))
    ps.update({p: TV for p in params})
    return Contract(module=M, qualname=f"{cname}.__cinit__", params=ps, ensures=ens,
                    axioms=[lambda s: z3.And(*tuple_axioms())],
                    modifies=("self",), min_obligations=1, extra=dict(ENG))


def reduce_contract(cname, slots, extra_req=()):
    def post(o, n, r):
        me = o.self.t
        if not (isinstance(r, PyTuple) and len(r.items) == 2 and isinstance(r.items[1], PyTuple)):
            return z3.BoolVal(False)
        args = r.items[1].items
        if len(args) != len(slots):
            return z3.BoolVal(False)
        good = [r.items[0].t == type_of(me)]
        for a, sname in zip(args, slots):
            good.append(a.t == fld[sname](me) if isinstance(a, PyObj) else z3.BoolVal(False))
        return z3.And(*good)
    return Contract(module=M, qualname=f"{cname}.__reduce__", params=dict(self=TObj(cname)), result=None,
                    requires=[("is-ref", lambda s: is_ref(s.self.t))] + list(extra_req),
                    axioms=[lambda s: z3.And(*RS.global_facts())],
                    ensures=[("rebuilds-every-slot", post)], min_obligations=1, extra=dict(ENG))


HASH = Contract(module=M, qualname="BaseRef.__hash__", params=dict(self=TObj("BaseRef")), result=TInt,
                ensures=[("stored-hash", lambda o, n, r: r.t == RS.fld_hash(o.self.t))], min_obligations=1, extra=dict(ENG))

CINITS = [cinit_contract(c) for c in CINIT]
REDUCES = [reduce_contract("MutableRef", ("_owner", "_key", "_manager")), reduce_contract("BinOpExpr", ("_lhs", "_rhs")),
           reduce_contract("UnaryOpExpr", ("_arg",)), reduce_contract("LiteralExpr", ("_arg",)),
           reduce_contract("BuiltinRef", ("_arg", "_op", "_params")),
           reduce_contract("CallRef", ("_func", "_args", "_kwargs"))]
CONTRACTS = CINITS + REDUCES + [HASH]

# ---- classes pickled by the default protocol (trusted): they must not grow custom pickle hooks unnoticed
from pyvc.writeset import ClassHooksEngine      # noqa: E402
_HOOKS = ("__reduce__", "__reduce_ex__", "__getstate__", "__setstate__", "__getnewargs__", "__getnewargs_ex__", "__copy__",
          "__deepcopy__")


def _hooks(module, anchor):
    return Contract(module=module, qualname=anchor, params={}, min_obligations=len(_HOOKS),
                    extra=dict(engine=ClassHooksEngine, variant="default-pickling", forbidden_methods=_HOOKS),
                    note="the class is pickled by Python's default protocol (trusted); a custom hook would need its own contract")


def _inherits(cname, anchor):
    """the concrete reference classes inherit MutableRef.__reduce__ (proved: it returns type(self) and the three slots): none of them may
    define a pickle/copy hook of its own (a hard-coded class would restore an ObjectAttrRef as a plain Ref)"""
    c = _hooks(M, anchor)
    c.note = "concrete reference class: pickled through the inherited MutableRef.__reduce__ (type(self) preserved); no own hook"
    return c


VARIANTS = [_inherits("Ref", "Ref.__cinit__"), _inherits("AttrRef", "AttrRef.__cinit__"), _inherits("ItemRef", "ItemRef.__cinit__"),
            _inherits("ObjectAttrRef", "ObjectAttrRef.__getattr__"), _hooks(M, "RefCount.append"), _hooks("xdeps/tasks.py", "Manager.__init__"),
            _hooks("xdeps/tasks.py", "ExprTask.__init__"), _hooks("xdeps/tasks.py", "FunctionTask.__init__"),
            _hooks("xdeps/tasks.py", "LinearKnob.__init__")]

# ---- AttrDict (xdeps/utils.py): the container Manager.ref() creates by default; `self.__dict__ = self` must survive pickle / copy
from pyvc.writeset import ReconstructThroughInitEngine      # noqa: E402
ATTRDICT = Contract(module="xdeps/utils.py", qualname="AttrDict.__init__", params={}, min_obligations=3,
                    extra=dict(engine=ReconstructThroughInitEngine, variant="reconstruct-through-init",
                               init_establishes=("self.__dict__ = self",),
                               forbidden_methods=("__reduce_ex__", "__getstate__", "__setstate__", "__copy__", "__deepcopy__", "__new__",
                                                  "__getnewargs__", "__getnewargs_ex__")),
                    note="a restored AttrDict is its own __dict__ again: __reduce__ rebuilds it by calling the class (so __init__ runs), "
                         "applies no state, carries every item; no other pickle/copy hook is defined")
VARIANTS_ATTRDICT = [ATTRDICT]
VARIANTS = VARIANTS + VARIANTS_ATTRDICT
