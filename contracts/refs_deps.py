"""C05: `_get_dependencies` of every node class returns exactly locs(e) (statement of C05):
the item/attribute locations occurring anywhere inside the expression."""
import z3
from pyvc.values import *          # noqa
from pyvc.contract import Contract, LoopSpec
from pyvc.refs_engine import RefsEngine
from contracts import refspec as RS
from contracts.refspec import is_ref, cls_of, C, fld

M = "xdeps/refs.py"
x = z3.Const("x!dp", V)
j = z3.Int("j!dp")
locs = z3.Function("locs", V, V, BoolS)          # locs(e, x): location x occurs inside expression e
locs_t = z3.Function("locs_tuple_prefix", V, IntS, V, BoolS)     # ... inside one of the first k elements of tuple T
locs_k = z3.Function("locs_kwargs_prefix", V, IntS, V, BoolS)


def lo(o, xx):
    """locations contributed by an operand slot: nothing unless the operand is a ref"""
    return z3.And(is_ref(o), locs(o, xx))


def tuple_all(T, xx):
    return locs_t(T, RS.tup_n(T), xx)


def kw_all(T, xx):
    return locs_k(T, RS.tup_n(T), xx)


def locs_axioms_at(t):
    """defining equations of locs at node t (from the statement: ALL slots, element-wise for tuples)"""
    ow, ky = fld["_owner"](t), fld["_key"](t)
    ax = []
    for c in ("AttrRef", "ItemRef"):
        ax.append(z3.Implies(cls_of(t) == C[c], z3.ForAll([x], locs(t, x) == z3.Or(x == t, lo(ow, x), lo(ky, x)))))
    for c in ("Ref", "ObjectAttrRef", "LiteralExpr"):
        ax.append(z3.Implies(cls_of(t) == C[c], z3.ForAll([x], z3.Not(locs(t, x)))))
    for c in RS.BINARY_CLASSES:
        ax.append(z3.Implies(cls_of(t) == C[c], z3.ForAll([x], locs(t, x) == z3.Or(lo(fld["_lhs"](t), x), lo(fld["_rhs"](t), x)))))
    for c in RS.UNARY_CLASSES:
        ax.append(z3.Implies(cls_of(t) == C[c], z3.ForAll([x], locs(t, x) == lo(fld["_arg"](t), x))))
    ax.append(z3.Implies(cls_of(t) == C["BuiltinRef"], z3.ForAll([x], locs(t, x) == z3.Or(
        lo(fld["_arg"](t), x), tuple_all(fld["_params"](t), x)))))
    ax.append(z3.Implies(cls_of(t) == C["CallRef"], z3.ForAll([x], locs(t, x) == z3.Or(
        lo(fld["_func"](t), x), tuple_all(fld["_args"](t), x), kw_all(fld["_kwargs"](t), x)))))
    return ax


def prefix_axioms(T, kw=False):
    f = locs_k if kw else locs_t
    el = (lambda jj: RS.kw_val(RS.tup_at(T, jj))) if kw else (lambda jj: RS.tup_at(T, jj))
    return [z3.ForAll([x], z3.Not(f(T, 0, x))),
            z3.ForAll([j, x], z3.Implies(z3.And(0 <= j, j < RS.tup_n(T)),
                                         f(T, j + 1, x) == z3.Or(f(T, j, x), lo(el(j), x))),
                      patterns=[f(T, j + 1, x)]),
            RS.tup_n(T) >= 0]


def out_has(v, xx):
    if isinstance(v, PyOpt):
        return z3.And(z3.Not(v.is_none), v.value.has(xx))
    if isinstance(v, PyNone):
        return z3.BoolVal(False)
    return v.has(xx)


def out_none(v):
    if isinstance(v, PyOpt):
        return v.is_none
    return z3.BoolVal(isinstance(v, PyNone))


def deps_contract(cname, virtual=None, trusted=False, loops=None, extra_axioms=(), extra_requires=()):
    return Contract(
        module=M, qualname=f"{cname}._get_dependencies",
        params=dict(self=TObj(cname), out=TOpt(TSet)), result=TOpt(TSet),
        requires=[("is-ref", lambda s: is_ref(s.self.t))] + ([] if virtual else [
            ("class", lambda s: z3.Or(*[cls_of(s.self.t) == C[c] for c in concrete_of(cname)]))]) + list(extra_requires),
        axioms=[lambda s: z3.And(*RS.global_facts()), lambda s: z3.And(*locs_axioms_at(s.self.t)),
                lambda s: z3.And(*RS.class_axioms_at(s.self.t)[:1])] + list(extra_axioms),
        ensures=[
            ("result-is-a-set-never-None", lambda o, n, r: z3.Not(out_none(r))),
            ("result=out+locs", lambda o, n, r: z3.ForAll([x], out_has(r, x) == z3.Or(out_has(o.out, x), locs(o.self.t, x)))),
            ("out-updated-in-place", lambda o, n, r: z3.Implies(z3.Not(out_none(o.out)), z3.And(
                z3.Not(out_none(n.out)),
                z3.ForAll([x], out_has(n.out, x) == z3.Or(out_has(o.out, x), locs(o.self.t, x)))))),
        ],
        modifies=("out",), loops=loops or {}, virtual=virtual, trusted=trusted,
        defaults=dict(out=lambda: PyNone()),
        min_obligations=3, extra=dict(engine=RefsEngine),
    )


_CT = []


def concrete_of(cname, meth="_get_dependencies"):
    """concrete classes whose method resolution finds `meth` in class cname (read from the real source)"""
    if not _CT:
        from pyvc.refs_engine import ClassTable
        _CT.append(ClassTable())
    ct = _CT[0]
    return [c for c in RS.SLOTS if c in ct.classes and ct.find(c, "methods", meth)[0] == cname]


def mro(c):
    out, todo = [], [c]
    while todo:
        k = todo.pop(0)
        if k not in out:
            out.append(k)
            todo += RS.BASES.get(k, [])
    return out


GENERIC = deps_contract("BaseRef", virtual="_get_dependencies", trusted=True)
GENERIC.note = "interface contract; each override is proved against it (BaseRef's own body is only reachable through classes that override it)"


def params_loop():
    def g(L):
        T = fld["_params"](L.old.self.t)
        return z3.And(0 <= L.k, L.k <= L.n, z3.Not(out_none(L.cur.out)),
                      z3.ForAll([x], out_has(L.cur.out, x) == z3.Or(out_has(L.pre.out, x), locs_t(T, L.k, x))))
    return {0: LoopSpec(anchor="self._params", invariants=[("out=prefix", g)])}


def call_loops():
    def inv(kw):
        f = locs_k if kw else locs_t

        def g(L):
            T = (fld["_kwargs"] if kw else fld["_args"])(L.old.self.t)
            base = L.pre.out
            return z3.And(0 <= L.k, L.k <= L.n, z3.Not(out_none(L.cur.out)),
                          z3.ForAll([x], out_has(L.cur.out, x) == z3.Or(out_has(base, x), f(T, L.k, x))))
        return g
    return {0: LoopSpec(anchor="self._args", invariants=[("out=prefix", inv(False))]),
            1: LoopSpec(anchor="self._kwargs", invariants=[("out=prefix", inv(True))])}


CONTRACTS = [GENERIC,
             deps_contract("MutableRef"), deps_contract("Ref"), deps_contract("BinOpExpr"),
             deps_contract("UnaryOpExpr", extra_requires=[
                 ("operand-is-a-ref (class invariant: unary nodes are only built by BaseRef.__neg__/__pos__/__invert__)",
                  lambda s: is_ref(fld["_arg"](s.self.t)))]),
             deps_contract("LiteralExpr"),
             deps_contract("BuiltinRef", loops=params_loop(), extra_axioms=[lambda s: z3.And(*prefix_axioms(fld["_params"](s.self.t)))]),
             deps_contract("CallRef", loops=call_loops(), extra_axioms=[
                 lambda s: z3.And(*prefix_axioms(fld["_args"](s.self.t))),
                 lambda s: z3.And(*prefix_axioms(fld["_kwargs"](s.self.t), kw=True))])]
