"""Sidecar contract for xdeps/optimize/matrixutils.py: SVD.lstsq (DESIGN.md section 4, C16).

Proved (reals, pointwise over the singular-value axis): the vector of inverted singular values is the truncated
pseudo-inverse spectrum
      s_inv[i] = 1/s[i]   if  i < cutoff  and  s[i] > 0  and not (rcond is not None and s[i] < rcond * s[0])     else 0
and the result is the term   Vh[:c,:].T @ (diag(s_inv) @ (U[:,:c].T @ b))   with one and the same cutoff c.
Trusted: that this term IS the minimum-norm least-squares solution over the kept singular values (linear algebra), numpy/LAPACK.
"""
import z3
from pyvc.values import *          # noqa
from pyvc.contract import Contract
from pyvc.pointwise_engine import PointwiseEngine, TPW, matmul, transpose, diag, cols_upto, rows_upto, upto, vec_of, empty_array

M = "xdeps/optimize/matrixutils.py"
TSVD = TRec("SVD", dict(empty=TBool, rcond=TOpt(TReal), sing_val_cutoff=TOpt(TInt), U=TV, Vh=TV, s=TPW))


def _cut(o):
    return z3.If(o.sing_val_cutoff.is_none, o.self.sing_val_cutoff.value.t, o.sing_val_cutoff.value.t)


def _post(o, n, r):
    c = _cut(o)
    rc_none = z3.And(o.rcond.is_none, o.self.rcond.is_none)
    rc = z3.If(o.rcond.is_none, o.self.rcond.value.t, o.rcond.value.t)
    si, s0 = o.self.s.t, o.self.s.first
    sinv = z3.If(z3.And(si > 0, z3.Not(z3.And(z3.Not(rc_none), si < rc * s0))), 1 / si, 0)
    want = matmul(transpose(rows_upto(o.self.Vh.t, c)),
                  matmul(diag(vec_of(sinv, upto(o.self.s.carrier, c))), matmul(transpose(cols_upto(o.self.U.t, c)), o.b.t)))
    return z3.If(o.self.empty.t, r.t == empty_array, r.t == want)


LSTSQ = Contract(
    module=M, qualname="SVD.lstsq", params=dict(self=TSVD, b=TV, rcond=TOpt(TReal), sing_val_cutoff=TOpt(TInt)), result=TV,
    requires=[("a-cutoff-is-available", lambda s: z3.Or(s.self.empty.t, z3.Not(s.sing_val_cutoff.is_none), z3.Not(s.self.sing_val_cutoff.is_none)))],
    ensures=[("truncated-pseudo-inverse-term", _post)],
    defaults=dict(rcond=lambda: PyNone(), sing_val_cutoff=lambda: PyNone()),
    min_obligations=2, extra=dict(engine=PointwiseEngine),
    note="C16: SVD.lstsq computes Vh^T diag(s+) U^T b with s+ the inverse spectrum truncated by cutoff, positivity and the RELATIVE "
         "threshold rcond * s[0]")
CONTRACTS = [LSTSQ]


# ----------------------------------------------------------------------------- MeritFuctionView scalings (optimize.py), pointwise   (C16)
from pyvc.pointwise_engine import PyPW      # noqa: E402
MO = "xdeps/optimize/optimize.py"
view_lo = z3.Function("native_lower_bound_i", V, RealS)       # bounds[:, 0] at the generic coordinate, as a function of the bounds array
view_hi = z3.Function("native_upper_bound_i", V, RealS)
TMeritB = TObj("MeritFunctionForMatch")
TView = TRec("MeritFuctionView", dict(merit_function=TMeritB, rescale_x=TTuple(TReal, TReal)))

bounds_of = z3.Function("x_limits_of", V, V)
GET_X_LIMITS = Contract(module=MO, qualname="MeritFunctionForMatch._get_x_limits", params=dict(self=TMeritB), result=TV, trusted=True,
                        ensures=[("the-bounds-array", lambda o, n, r: r.t == bounds_of(o.self.t))],
                        note="opaque VIEW used by the rescaled-view contracts: the (n x 2) array of native bounds as a function of the merit function; what that array IS -- row j = (lower_j / weight_j, upper_j / weight_j) -- is proved on the real body as variant `proved` (contracts/optimize.py, LimitsEngine)")
CHECK_SCAL = Contract(module=MO, qualname="MeritFuctionView._check_for_scalability", params=dict(self=TView, bounds=TV), trusted=True,
                      raises={"UserError": dict(when=None, post=[], modifies=())},
                      note="may reject too large intervals (TypeError/ValueError); no effect otherwise")


class ViewEngine(PointwiseEngine):
    """bounds[:, 0] / bounds[:, 1] of the opaque bounds array are the generic coordinate's native bounds"""

    def eval_Subscript(self, e, cx):
        import ast as _a
        if isinstance(e.slice, _a.Tuple) and len(e.slice.elts) == 2 and isinstance(e.slice.elts[0], _a.Slice) \
                and isinstance(e.slice.elts[1], _a.Constant) and e.slice.elts[1].value in (0, 1):
            obj = self.eval(e.value, cx)
            if isinstance(obj, PyObj):
                f = view_lo if e.slice.elts[1].value == 0 else view_hi
                return PyPW(f(obj.t), obj.t)
        return super().eval_Subscript(e, cx)

    def getitem_hook(self, obj, idx, cx, node):
        return super().getitem_hook(obj, idx, cx, node)


def _bounds_term():
    return z3.Const("res_MeritFunctionForMatch__get_x_limits", V)


def _affine(x, a0, a1, b0, b1):
    """the affine map sending [a0, a1] onto [b0, b1]"""
    return b0 + (x - a0) * (b1 - b0) / (a1 - a0)


def _view_contract(name, to_native):
    def post(o, n, r):
        # the bounds array is whatever _get_x_limits returned (fresh on every call: quantify through the result's carrier)
        B = bounds_of(o.self.merit_function.t)
        lo, hi = view_lo(B), view_hi(B)
        s0, s1 = o.self.rescale_x.items[0].t, o.self.rescale_x.items[1].t
        return r.t == (_affine(o.x.t, s0, s1, lo, hi) if to_native else _affine(o.x.t, lo, hi, s0, s1))
    return Contract(
        module=MO, qualname=f"MeritFuctionView.{name}", params=dict(self=TView, x=TPW), result=TPW,
        requires=[("non-degenerate-intervals", lambda s: s.self.rescale_x.items[0].t != s.self.rescale_x.items[1].t)],
        axioms=[lambda s: z3.ForAll([z3.Const("b!v", V)], view_lo(z3.Const("b!v", V)) != view_hi(z3.Const("b!v", V)))],
        ensures=[("affine-map-between-the-normalised-interval-and-the-native-bounds", post)],
        raises={"UserError": dict(when=None, post=[], modifies=())},
        min_obligations=2,
        extra=dict(engine=ViewEngine, lemmas=[] if not to_native else [
            ("to_native-after-from_native-is-identity", lambda: _inv_lemma(True)),
            ("from_native-after-to_native-is-identity", lambda: _inv_lemma(False)),
            ("chain-rule-factor: to_native(1) - to_native(0) == (hi - lo) / (s1 - s0)", lambda: _chain_lemma())]),
        note="pointwise over the knob axis (numpy broadcasting of the two interval end points); requires bounds[:,1] != bounds[:,0] "
             "and rescale_x[1] != rescale_x[0] (not enforced by _check_for_scalability: stated assumption)")


def _inv_lemma(first_from):
    x, lo, hi, s0, s1 = z3.Reals("x!il lo!il hi!il s0!il s1!il")
    if first_from:
        body = _affine(_affine(x, lo, hi, s0, s1), s0, s1, lo, hi) == x
    else:
        body = _affine(_affine(x, s0, s1, lo, hi), lo, hi, s0, s1) == x
    return z3.ForAll([x, lo, hi, s0, s1], z3.Implies(z3.And(lo != hi, s0 != s1), body))


def _chain_lemma():
    lo, hi, s0, s1 = z3.Reals("lo!cl hi!cl s0!cl s1!cl")
    return z3.ForAll([lo, hi, s0, s1], z3.Implies(z3.And(lo != hi, s0 != s1),
                                                  _affine(1, s0, s1, lo, hi) - _affine(0, s0, s1, lo, hi) == (hi - lo) / (s1 - s0)))


TO_NATIVE = _view_contract("_scaled_to_native", True)
FROM_NATIVE = _view_contract("_scaled_from_native", False)
CONTRACTS += [GET_X_LIMITS, CHECK_SCAL, TO_NATIVE, FROM_NATIVE]

# the "no effect otherwise" half of CHECK_SCAL, decided on the real body: it only READS self.rescale_x (no store to the view, no call on it,
# the view not handed to anyone)
from pyvc.writeset import WriteSetEngine      # noqa: E402
CHECK_SCAL_FRAME = Contract(module=MO, qualname="MeritFuctionView._check_for_scalability", params={}, min_obligations=3,
                            extra=dict(engine=WriteSetEngine, variant="reads-only", allowed_self_reads={"rescale_x"}),
                            note="frame of the assumed contract: the view is only read (self.rescale_x)")
VARIANTS = [CHECK_SCAL_FRAME]


# ----------------------------------------------------------------------------- MeritFuctionView.get_jacobian: the chain-rule factor (block)   (C16)
def _factor_post(o, n, r):
    B = bounds_of(o.self.merit_function.t)
    lo, hi = view_lo(B), view_hi(B)
    s0, s1 = o.self.rescale_x.items[0].t, o.self.rescale_x.items[1].t
    return n.dx_native_dx_scaled.t == (hi - lo) / (s1 - s0)


CHAIN_FACTOR = Contract(
    module=MO, qualname="MeritFuctionView.get_jacobian", params=dict(self=TView, x=TPW),
    requires=[("non-degenerate-intervals", lambda s: s.self.rescale_x.items[0].t != s.self.rescale_x.items[1].t)],
    axioms=[lambda s: z3.ForAll([z3.Const("b!v", V)], view_lo(z3.Const("b!v", V)) != view_hi(z3.Const("b!v", V)))],
    ensures=[("d x_native / d x_scaled == (upper - lower) / (rescale_x[1] - rescale_x[0]), from the CURRENT bounds", _factor_post)],
    raises={"UserError": dict(when=None, post=[], modifies=())},
    min_obligations=1,
    extra=dict(engine=ViewEngine, variant="chain-rule-factor",
               block=dict(inside=dict(first="if self.rescale_x:", nth=1, of=2), until="jac = jac_native.copy()")),
    note="block contract (pointwise over the knob axis): the factor each column of the native Jacobian is multiplied by is the slope of "
         "the affine map scaled -> native, whatever the normalised interval is, computed through the proved _scaled_to_native")
VARIANTS += [CHAIN_FACTOR]
