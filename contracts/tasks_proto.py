"""Sidecar contracts for the update protocol of xdeps/tasks.py (DESIGN.md section 4: C17, C18, and C02/C03 at
the level of one assignment).

Ghost state (DESIGN section 3, "heap" and "trace"):
  heap : opaque value of sort V -- the contents of all user containers
  runs : Seq[Task]             -- the tasks whose run() has been entered, in order
Every mutation of user data goes through MutableRef._set_value or Task.run; both are virtual calls with the
(assumed) contracts below, so "the data are unchanged" is `heap' == heap /\\ runs' == runs`.

User-level failures (an exception from evaluating an expression, from a container store, from a task's action,
from eval() of a dumped text) are modelled as the exception class `UserError`: the library contains no handler
for any exception on these paths, so the class is immaterial; what matters is where the state is left.
"""
import z3
from pyvc.values import *          # noqa
from pyvc.contract import Contract, LoopSpec
from pyvc.tasks_engine import TasksEngine, is_ref, py_eval
from contracts import tasks as T
from contracts.tasks import (M, TMgr, TTask, task_id, task_deps, task_tars, idx_wf, keys_ok, topo_post_counts,
                             start_of, TOPO_LABELS, card_axioms, rdsum_lower)

x, y, d, t = z3.Consts("x!p y!p d!p t!p", V)
i, j, k = z3.Ints("i!p j!p k!p")

hstore = z3.Function("heap_store", V, V, V, V)          # heap, location, value -> heap
evalv = z3.Function("eval_in_heap", V, V, V)            # expression, heap -> value
run_eff = z3.Function("run_effect", V, V, V)            # task, heap -> heap after a successful run
run_fail = z3.Function("run_failed_effect", V, V, V)    # task, heap -> heap after a run that raised
locs_of = z3.Function("locs_of", V, z3.ArraySort(V, BoolS))      # ref -> _get_dependencies() (C05)
task_expr = z3.Function("task_expr", V, V)
mk_exprtask = z3.Function("ExprTask", V, V, V)
A_IV = z3.ArraySort(IntS, V)
hfold = z3.Function("heap_after_runs", V, A_IV, IntS, V)         # heap0, task array, count -> heap

IDX_FIELDS = ("rdeps", "rtasks", "deptasks", "tartasks")
LABELS = ("keys", "deptasks=F", "tartasks=F", "rtasks=F", "rdeps=F")


def setup(reg):
    reg.add_field("Task", "expr", TV, lambda o, cx: PyObj(task_expr(o.t)))
    reg.bases["Ref"] = ["MutableRef"]
    reg.bases["MutableRef"] = ["BaseRef"]


def hfold_axioms():
    h = z3.Const("h!f", V)
    a = z3.Const("a!f", A_IV)
    return [z3.ForAll([h, a], hfold(h, a, 0) == h, patterns=[hfold(h, a, 0)]),
            z3.ForAll([h, a, k], z3.Implies(k >= 0, hfold(h, a, k + 1) == run_eff(z3.Select(a, k), hfold(h, a, k))),
                      patterns=[hfold(h, a, k + 1)])]


def exprtask_axioms():
    return [z3.ForAll([x, y], z3.And(task_id(mk_exprtask(x, y)) == x, task_expr(mk_exprtask(x, y)) == y,
                                     task_deps(mk_exprtask(x, y)) == locs_of(y),
                                     task_tars(mk_exprtask(x, y)) == locs_of(x)),
                      patterns=[mk_exprtask(x, y)])]


def same_indices(a, b):
    return z3.And(*[getattr(a, f).arr == getattr(b, f).arr for f in IDX_FIELDS])


def same_tasks(a, b):
    return z3.And(a.tasks.dom == b.tasks.dom,
                  z3.ForAll([t], z3.Implies(a.tasks.has(t), a.tasks.get(t) == b.tasks.get(t)),
                            patterns=[a.tasks.get(t)]))


def mgr_unchanged(a, b):
    return z3.And(same_tasks(a, b), same_indices(a, b), a._tree_frozen.t == b._tree_frozen.t)


def wf(m):
    return z3.And(*[f for _, f in idx_wf(m)])


def seq_appended(new, old, n_extra, elem):
    """new == old ++ [elem(0), ..., elem(n_extra-1)]"""
    return z3.And(new.n == old.n + n_extra,
                  z3.ForAll([i], z3.Implies(z3.And(0 <= i, i < old.n), new.at(i) == old.at(i)), patterns=[new.at(i)]),
                  z3.ForAll([j], z3.Implies(z3.And(old.n <= j, j < old.n + n_extra), new.at(j) == elem(j - old.n)),
                            patterns=[new.at(j)]))


# ----------------------------------------------------------------------------- virtual callees (assumed)
GET_VALUE = Contract(
    module="xdeps/refs.py", qualname="BaseRef._get_value", params=dict(self=TV), ghost=dict(heap=TV), result=TV,
    ensures=[("eval", lambda o, n, r: r.t == evalv(o.self.t, o.heap.t))],
    raises={"UserError": dict(when=None, post=[], modifies=())},
    trusted=True, virtual="_get_value",
    note="pure evaluation (C04); may raise whatever the operands raise; reads the heap only")

SET_VALUE = Contract(
    module="xdeps/refs.py", qualname="MutableRef._set_value", params=dict(self=TV, value=TV), ghost=dict(heap=TV),
    ensures=[("store", lambda o, n, r: n.heap.t == hstore(o.heap.t, o.self.t, o.value.t))],
    raises={"UserError": dict(when=None, post=[], modifies=())},
    modifies=("heap",), trusted=True, virtual="_set_value",
    note="one container store; a store that raises leaves the data as before (assumption on user containers)")

def _deps_out_has(v, xx):
    return z3.And(z3.Not(v.is_none), v.value.has(xx))


GET_DEPS = Contract(
    module="xdeps/refs.py", qualname="BaseRef._get_dependencies", params=dict(self=TV, out=TOpt(TSet)), result=TSet,
    ensures=[("locs", lambda o, n, r: z3.ForAll([x], r.has(x) == z3.Or(_deps_out_has(o.out, x), z3.Select(locs_of(o.self.t), x)),
                                                patterns=[r.has(x)])),
             ("without-accumulator: exactly locs(self)", lambda o, n, r: z3.Implies(o.out.is_none, r.arr == locs_of(o.self.t))),
             ("accumulator-updated-in-place", lambda o, n, r: z3.Implies(z3.Not(o.out.is_none), z3.And(
                 z3.Not(n.out.is_none), n.out.value.arr == r.arr)))],
    modifies=("out",), defaults=dict(out=lambda: PyNone()),
    trusted=True, virtual="_get_dependencies", note="proved per override under C05 (result == out U locs(self); out updated in place)")

TASK_RUN = Contract(
    module=M, qualname="Task.run", params=dict(self=TTask), ghost=dict(heap=TV, runs=TSeq(TTask)),
    ensures=[("ran", lambda o, n, r: z3.And(seq_appended(n.runs, o.runs, 1, lambda j_: o.self.t),
                                            n.heap.t == run_eff(o.self.t, o.heap.t)))],
    raises={"UserError": dict(when=None, modifies=("heap", "runs"),
                              post=[("entered", lambda o, n: z3.And(
                                  seq_appended(n.runs, o.runs, 1, lambda j_: o.self.t),
                                  n.heap.t == run_fail(o.self.t, o.heap.t)))])},
    modifies=("heap", "runs"), trusted=True, virtual="run",
    note="dynamic dispatch over ExprTask/FunctionTask/LinearKnob.run; ExprTask.run is proved against it below")

EXPRTASK_CTOR = Contract(
    module=M, qualname="ExprTask", params=dict(target=TV, expr=TV), result=TTask,
    ensures=[("fields", lambda o, n, r: r.t == mk_exprtask(o.target.t, o.expr.t))],
    axioms=[], trusted=True, extra=dict(importable=True),
    note="constructor call = ExprTask.__init__ on a fresh object (proved below): Python object model")

CLEANUP = Contract(
    module=M, qualname="Manager.cleanup", params=dict(self=TMgr), trusted=True,
    note="removes empty RefCount entries: the identity on the abstract index state (absent == empty), DESIGN 2.3(2); "
         "checked at run time on the supports")

CONTRACTS = [GET_VALUE, SET_VALUE, GET_DEPS, TASK_RUN, EXPRTASK_CTOR, CLEANUP]

# ----------------------------------------------------------------------------- ExprTask
TExprTaskRec = TRec("ExprTask", dict(taskid=TV, targets=TSet, dependencies=TSet, expr=TV))

EXPRTASK_INIT = Contract(
    module=M, qualname="ExprTask.__init__", params=dict(self=TExprTaskRec, target=TV, expr=TV),
    ensures=[("taskid", lambda o, n, r: n.self.taskid.t == o.target.t),
             ("expr", lambda o, n, r: n.self.expr.t == o.expr.t),
             ("targets=locs(target)", lambda o, n, r: z3.ForAll([x], n.self.targets.has(x) == z3.Select(locs_of(o.target.t), x))),
             ("dependencies=locs(expr)", lambda o, n, r: z3.ForAll([x], n.self.dependencies.has(x) == z3.Select(locs_of(o.expr.t), x)))],
    modifies=("self",), min_obligations=4,
    extra=dict(engine=TasksEngine))

EXPRTASK_RUN = Contract(
    module=M, qualname="ExprTask.run", params=dict(self=TExprTaskRec), ghost=dict(heap=TV),
    ensures=[("evaluate-then-store", lambda o, n, r: n.heap.t == hstore(
        o.heap.t, o.self.taskid.t, evalv(o.self.expr.t, o.heap.t)))],
    raises={"UserError": dict(when=None, post=[], modifies=())},       # evaluation or the store failed: data as before
    modifies=("heap",),
    call_ghost={("BaseRef._get_value", None): lambda st, pre: dict(heap=st.heap),
                ("MutableRef._set_value", None): lambda st, pre: dict(heap=st.heap)},
    min_obligations=1,
    extra=dict(engine=TasksEngine, ghost_writeback={"heap": "heap"}))

CONTRACTS += [EXPRTASK_INIT, EXPRTASK_RUN]

# ----------------------------------------------------------------------------- freeze / unfreeze
FREEZE = Contract(
    module=M, qualname="Manager.freeze_tree", params=dict(self=TMgr),
    ensures=[("frozen", lambda o, n, r: n.self._tree_frozen.t)],
    modifies=("self._tree_frozen",), min_obligations=1, extra=dict(engine=TasksEngine))
UNFREEZE = Contract(
    module=M, qualname="Manager.unfreeze_tree", params=dict(self=TMgr),
    ensures=[("thawed", lambda o, n, r: z3.Not(n.self._tree_frozen.t))],
    modifies=("self._tree_frozen",), min_obligations=1, extra=dict(engine=TasksEngine))
CONTRACTS += [FREEZE, UNFREEZE]

# ----------------------------------------------------------------------------- run_tasks
def _rt_inv():
    def runs(L):
        return seq_appended(L.cur.runs, L.old.runs, L.k, lambda j_: L.at(j_))

    def heap(L):
        return L.cur.heap.t == hfold(L.old.heap.t, L.x["arr"], L.k)
    return [("runs=prefix", runs), ("heap=fold", heap), ("index", lambda L: z3.And(0 <= L.k, L.k <= L.n))]


def _rt_setup(L, st):
    # the iterated collection as an Int-indexed array (spec function of this loop)
    arr = getattr(L.enum, "arr", None)
    if arr is not None:
        st.hyps += hfold_axioms()
        return dict(arr=arr)
    arr = FreshConst(A_IV, "run_list")
    st.hyps.append(z3.ForAll([j], z3.Implies(z3.And(0 <= j, j < L.n), z3.Select(arr, j) == L.at(j)),
                             patterns=[z3.Select(arr, j)]))
    st.hyps += hfold_axioms()
    return dict(arr=arr)


def _tasks_arg(o):
    """the list run_tasks iterates: the argument (the None default is the separate variant below)"""
    return o.tasks.value


RUN_TASKS = Contract(
    module=M, qualname="Manager.run_tasks",
    params=dict(self=TMgr, tasks=TOpt(TSeq(TTask))), ghost=dict(heap=TV, runs=TSeq(TTask), nfail=TInt),
    ensures=[
        ("runs-each-in-order", lambda o, n, r: z3.Implies(z3.Not(o.tasks.is_none), seq_appended(
            n.runs, o.runs, _tasks_arg(o).n, lambda j_: _tasks_arg(o).at(j_)))),
        ("heap-is-fold", lambda o, n, r: z3.Implies(z3.Not(o.tasks.is_none), n.heap.t == hfold(
            o.heap.t, _tasks_arg(o).arr, _tasks_arg(o).n))),
        ("all-tasks-when-None", lambda o, n, r: z3.Implies(o.tasks.is_none, z3.And(
            n.runs.n >= o.runs.n,
            z3.ForAll([j], z3.Implies(z3.And(o.runs.n <= j, j < n.runs.n),
                                      z3.Exists([t], z3.And(o.self.tasks.has(t), o.self.tasks.get(t) == n.runs.at(j)))),
                      patterns=[n.runs.at(j)])))),
    ],
    raises={"UserError": dict(when=None, modifies=("heap", "runs", "nfail"), post=[
        # C18: the exception propagates; exactly the tasks up to and including the failing one were entered,
        # in order; none scheduled after it has run; manager state untouched (frame: modifies heap, runs only)
        # (the index of the failing task is the ghost output nfail)
        ("prefix-ran-none-after", lambda o, n: z3.Implies(z3.Not(o.tasks.is_none), z3.And(
            0 <= n.nfail.t, n.nfail.t < _tasks_arg(o).n,
            seq_appended(n.runs, o.runs, n.nfail.t + 1, lambda j_: _tasks_arg(o).at(j_))))),
    ])},
    modifies=("heap", "runs"),
    loops={0: LoopSpec(anchor="tasks", invariants=_rt_inv(), setup=_rt_setup, modifies=("heap", "runs"),
                       on_raise=lambda L, st: st.env.__setitem__("nfail", PyInt(L.k)))},
    call_ghost={("Task.run", None): lambda st, pre: dict(heap=st.heap, runs=st.runs)},
    defaults=dict(tasks=lambda: PyNone()),
    min_obligations=8,
    extra=dict(engine=TasksEngine, ghost_writeback={"heap": "heap", "runs": "runs"}))
CONTRACTS += [RUN_TASKS]

# ----------------------------------------------------------------------------- register: protocol variant
def nonneg(m):
    """type invariant of the index maps: stored counts are never negative"""
    return z3.And(*[z3.ForAll([d, x], getattr(m, f).cnt(d, x) >= 0, patterns=[getattr(m, f).cnt(d, x)])
                    for f in IDX_FIELDS])


_IDX = lambda L: z3.And(0 <= L.k, L.k <= L.n)
_NN = ("counts-nonneg", lambda L: nonneg(L.cur.self))

REGISTER_PROTO = Contract(
    module=M, qualname="Manager.register", params=dict(self=TMgr, task=TTask),
    ensures=[("tasks+task", lambda o, n, r: z3.And(
        n.self.tasks.dom == z3.Store(o.self.tasks.dom, task_id(o.task.t), z3.BoolVal(True)),
        n.self.tasks.val == z3.Store(o.self.tasks.val, task_id(o.task.t), o.task.t))),
        ("not-frozen", lambda o, n, r: z3.Not(o.self._tree_frozen.t)),
        ("counts-nonneg", lambda o, n, r: nonneg(n.self))],
    requires=[("counts-nonneg", lambda s: nonneg(s.self))],
    raises={"ValueError": dict(when=lambda s: s.self._tree_frozen.t, exact=True, post=[], modifies=())},
    modifies=("self.tasks", "self.rdeps", "self.rtasks", "self.deptasks", "self.tartasks"),
    loops={0: LoopSpec(anchor="task.dependencies", invariants=[("index", _IDX), _NN]),
           1: LoopSpec(anchor="self.tartasks[dep]", invariants=[("index", _IDX), _NN]),
           2: LoopSpec(anchor="task.targets", invariants=[("index", _IDX), _NN]),
           3: LoopSpec(anchor="other", invariants=[("index", _IDX), _NN])},
    min_obligations=6,
    extra=dict(engine=TasksEngine, variant="protocol"),
    note="no precondition: what every caller may rely on even when the index invariant is not (yet) established "
         "(refresh re-registers into emptied indices while `tasks` is already complete)")
VARIANTS = [REGISTER_PROTO]

# ----------------------------------------------------------------------------- refresh
REFRESH = Contract(
    module=M, qualname="Manager.refresh", params=dict(self=TMgr),
    requires=[("keys", lambda s: keys_ok(s.self))],
    ensures=[("definitions-kept", lambda o, n, r: same_tasks(n.self, o.self)),
             ("flag-kept", lambda o, n, r: n.self._tree_frozen.t == o.self._tree_frozen.t),
             ("only-when-thawed", lambda o, n, r: z3.Not(o.self._tree_frozen.t))],
    raises={"ValueError": dict(when=lambda s: s.self._tree_frozen.t, exact=True, post=[], modifies=())},
    modifies=("self.tasks", "self.rdeps", "self.rtasks", "self.deptasks", "self.tartasks"),
    loops={0: LoopSpec(anchor="self.tasks.values()", invariants=[
        ("tasks-kept", lambda L: same_tasks(L.cur.self, L.old.self)),
        ("thawed", lambda L: z3.Not(L.cur.self._tree_frozen.t)), _NN,
        ("index", lambda L: z3.And(0 <= L.k, L.k <= L.n))])},
    min_obligations=6,
    extra=dict(engine=TasksEngine, callee_contracts={"register": REGISTER_PROTO}),
    note="C17: a frozen refresh raises before anything is discarded. IdxWF after refresh is the bounded clause of C03.")
CONTRACTS += [REFRESH]

# ----------------------------------------------------------------------------- load
def _load_inv():
    def wf_clause(lb):
        return lambda L: dict(idx_wf(L.cur.self))[lb]
    inv = [(lb, wf_clause(lb)) for lb in LABELS]
    inv += [("frozen=>unchanged", lambda L: z3.Implies(L.old.self._tree_frozen.t, mgr_unchanged(L.cur.self, L.old.self))),
            ("flag-kept", lambda L: L.cur.self._tree_frozen.t == L.old.self._tree_frozen.t),
            ("index", lambda L: z3.And(0 <= L.k, L.k <= L.n))]
    return inv


LOAD = Contract(
    module=M, qualname="Manager.load",
    params=dict(self=TMgr, dump=TSeq(TV), dct=TOpt(TV), overwrite=TBool),
    requires=[(lb, (lambda lb_: lambda s: dict(idx_wf(s.self))[lb_])(lb)) for lb in LABELS],
    axioms=[lambda s: z3.And(*card_axioms()), lambda s: z3.And(*exprtask_axioms())],
    ensures=[(lb, (lambda lb_: lambda o, n, r: dict(idx_wf(n.self))[lb_])(lb)) for lb in LABELS] + [
        ("frozen=>unchanged", lambda o, n, r: z3.Implies(o.self._tree_frozen.t, mgr_unchanged(n.self, o.self))),
        ("flag-kept", lambda o, n, r: n.self._tree_frozen.t == o.self._tree_frozen.t)],
    raises={
        "ValueError": dict(when=lambda s: s.self._tree_frozen.t, post=[], modifies=()),
        "UserError": dict(when=None, post=[
            ("indices-well-formed", lambda o, n: wf(n.self)),
            ("frozen=>unchanged", lambda o, n: z3.Implies(o.self._tree_frozen.t, mgr_unchanged(n.self, o.self))),
            ("flag-kept", lambda o, n: n.self._tree_frozen.t == o.self._tree_frozen.t)],
            modifies=("self.tasks", "self.rdeps", "self.rtasks", "self.deptasks", "self.tartasks")),
    },
    modifies=("self.tasks", "self.rdeps", "self.rtasks", "self.deptasks", "self.tartasks"),
    loops={0: LoopSpec(anchor="dump", invariants=_load_inv())},
    defaults=dict(dct=lambda: PyNone(), overwrite=lambda: PyBool(True)),
    min_obligations=20,
    extra=dict(engine=TasksEngine),
    note="C17 for load (and copy_expr_from, which reaches the manager state only through load): frozen => raises "
         "ValueError with nothing modified, or returns with nothing modified; otherwise IdxWF is preserved (C03)")
CONTRACTS += [LOAD]

# ----------------------------------------------------------------------------- set_value
def _sv_new_tasks(o, n):
    """the definition step asked for: drop the old definition of ref, add ExprTask(ref, value) if value is a ref"""
    ref, val = o.ref.t, o.value.t
    dom1 = z3.Store(o.self.tasks.dom, ref, z3.BoolVal(False))
    return z3.If(is_ref(val),
                 z3.And(n.self.tasks.dom == z3.Store(dom1, ref, z3.BoolVal(True)),
                        n.self.tasks.val == z3.Store(o.self.tasks.val, ref, mk_exprtask(ref, val))),
                 z3.And(n.self.tasks.dom == dom1, n.self.tasks.val == o.self.tasks.val))


def _sv_stored(o):
    return z3.If(is_ref(o.value.t), evalv(o.value.t, o.heap.t), o.value.t)


def _sv_topo(lb):
    def f(o, n, r):
        return dict(topo_post_counts(n.self, start_of(n.self, PySet(locs_of(o.ref.t))), n.ids, n.stack, n.pos,
                                     PySet(n.self.tasks.dom)))[lb]
    return ("schedule:" + lb, f)


def _sv_runs(o, n, count):
    return seq_appended(n.runs, o.runs, count, lambda j_: n.self.tasks.get(n.ids.at(j_)))


SET_VALUE_MGR = Contract(
    module=M, qualname="Manager.set_value",
    params=dict(self=TMgr, ref=TV, value=TV),
    ghost=dict(heap=TV, runs=TSeq(TTask), pos=TCount, stack=TDeque(TV), ids=TSeq(TV), nfail=TInt),
    requires=[(lb, (lambda lb_: lambda s: dict(idx_wf(s.self))[lb_])(lb)) for lb in LABELS],
    axioms=[lambda s: z3.And(*card_axioms()), lambda s: z3.And(*exprtask_axioms()), lambda s: z3.And(*hfold_axioms())],
    ensures=[
        # C17: a call that returns while frozen has not touched the expression graph
        ("frozen=>graph-unchanged", lambda o, n, r: z3.Implies(o.self._tree_frozen.t, mgr_unchanged(n.self, o.self))),
        ("flag-kept", lambda o, n, r: n.self._tree_frozen.t == o.self._tree_frozen.t),
        # C03/C01 definition step
        ("definitions", lambda o, n, r: _sv_new_tasks(o, n)),
    ] + [(lb, (lambda lb_: lambda o, n, r: dict(idx_wf(n.self))[lb_])(lb)) for lb in LABELS] + [
        # C02 at the level of one assignment: exactly the scheduled tasks, once each, in order
        ("runs=schedule", lambda o, n, r: _sv_runs(o, n, n.ids.n)),
    ] + [_sv_topo(lb) for lb in TOPO_LABELS],
    raises={
        # C17: frozen and the call would add/replace/remove a definition
        "ValueError": dict(when=lambda s: z3.And(s.self._tree_frozen.t,
                                                 z3.Or(s.self.tasks.has(s.ref.t), is_ref(s.value.t))),
                           exact=True, post=[], modifies=()),
        # C18: a failure while evaluating / storing / propagating
        "UserError": dict(when=None, modifies=("self.tasks", "self.rdeps", "self.rtasks", "self.deptasks",
                                               "self.tartasks", "heap", "runs", "pos", "stack", "ids", "nfail"), post=[
            ("definitions", lambda o, n: _sv_new_tasks(o, n)),
            ("indices-well-formed", lambda o, n: wf(n.self)),
            ("frozen=>graph-unchanged", lambda o, n: z3.Implies(o.self._tree_frozen.t, mgr_unchanged(n.self, o.self))),
            ("flag-kept", lambda o, n: n.self._tree_frozen.t == o.self._tree_frozen.t),
            ("failed-before-store-or-prefix-ran", lambda o, n: z3.Or(
                z3.And(n.heap.t == o.heap.t, n.runs.n == o.runs.n),
                z3.And(0 <= n.nfail.t, n.nfail.t < n.ids.n, _sv_runs(o, n, n.nfail.t + 1)))),
        ]),
    },
    modifies=("self.tasks", "self.rdeps", "self.rtasks", "self.deptasks", "self.tartasks", "heap", "runs",
              "pos", "stack", "ids", "nfail"),
    call_ghost={
        ("BaseRef._get_value", None): lambda st, pre: dict(heap=st.heap),
        ("MutableRef._set_value", None): lambda st, pre: dict(heap=st.heap),
        ("Manager.run_tasks", None): lambda st, pre: dict(heap=st.heap, runs=st.runs),
    },
    min_obligations=30,
    extra=dict(engine=TasksEngine,
               ghost_writeback={"heap": "heap", "runs": "runs", "pos": "pos", "stack": "stack", "ids": "ids",
                                "nfail": "nfail"}),
)
CONTRACTS += [SET_VALUE_MGR]

# ----------------------------------------------------------------------------- copy_expr_from (syntactic frame)
from pyvc.writeset import WriteSetEngine      # noqa: E402

COPY_EXPR_FROM = Contract(
    module=M, qualname="Manager.copy_expr_from",
    params=dict(self=TMgr, mgr=TV, name=TV, bindings=TV, overwrite=TBool),
    min_obligations=2,
    extra=dict(engine=WriteSetEngine, allowed_self_calls={"load"}, allowed_self_reads={"containers"},
               must_call={"load"}),
    note="C17/C03 for copy_expr_from: the receiver's state is reached only through self.load(...) (contract LOAD) "
         "and a read of self.containers; decided on the AST, site by site")
CONTRACTS += [COPY_EXPR_FROM]


# ----------------------------------------------------------------------------- mk_fun: structure of the generated source   (C13)
from pyvc.tasks_engine import SourceGenEngine, TKwargs, kw_key, kw_val, kw_n, str_join, keys_join, fstring_fn      # noqa: E402

F_HEAD = fstring_fn("def {}({}):", 2)
F_ASSIGN = fstring_fn("  {} = {}", 2)
F_TASK = fstring_fn("  {}", 1)
NL = z3.Const("str:'\\n'", V)
COMMA = z3.Const("str:','", V)


def start_union(kw, upto):
    """x is a start location <=> x in locs(ref_j) for some argument j < upto  (like set_value: the location and its enclosing containers)"""
    return lambda v: z3.Exists([j], z3.And(0 <= j, j < upto, z3.Select(locs_of(kw_val(kw, j)), v)))


def _mk_inv0():
    def g(L):
        kw = L.old.kwargs.t
        return z3.ForAll([x], L.cur.start.has(x) == start_union(kw, L.k)(x), patterns=[L.cur.start.has(x)])
    return [("start=locs-of-the-arguments-so-far", g), ("index", lambda L: z3.And(0 <= L.k, L.k <= L.n, L.n == kw_n(L.old.kwargs.t)))]


def _mk_lines(fdef, o, upto_args, upto_tasks, tasks):
    """lines by ABSOLUTE index (patterns without arithmetic): 0 header, 1..nk argument stores, then the task lines"""
    kw = o.kwargs.t
    nk = kw_n(kw)
    return z3.And(
        fdef.at(0) == F_HEAD(o.name.t, keys_join(COMMA, kw)),
        z3.ForAll([i], z3.Implies(z3.And(1 <= i, i < 1 + upto_args), fdef.at(i) == F_ASSIGN(kw_val(kw, i - 1), kw_key(kw, i - 1))),
                  patterns=[fdef.at(i)]),
        z3.ForAll([i], z3.Implies(z3.And(1 + nk <= i, i < 1 + nk + upto_tasks), fdef.at(i) == F_TASK(tasks.at(i - 1 - nk))),
                  patterns=[fdef.at(i)]) if tasks is not None else z3.BoolVal(True))


def _mk_inv1():
    def g(L):
        return z3.And(L.cur.fdef.n == 1 + L.k, _mk_lines(L.cur.fdef, L.old, L.k, 0, None))
    return [("header-and-one-assignment-line-per-argument-so-far", g), ("index", lambda L: z3.And(0 <= L.k, L.k <= L.n, L.n == kw_n(L.old.kwargs.t)))]


def _mk_inv2():
    def g(L):
        nk = kw_n(L.old.kwargs.t)
        return z3.And(L.cur.fdef.n == 1 + nk + L.k, _mk_lines(L.cur.fdef, L.old, nk, L.k, L.cur.tasks))
    return [("one-line-per-scheduled-task-so-far-in-order", g), ("index", lambda L: z3.And(0 <= L.k, L.k <= L.n, L.n == L.cur.tasks.n))]


def _mk_topo(lb):
    def f(o, n, r):
        return dict(topo_post_counts(o.self, start_of(o.self, n.startset), n.ids, n.stack, n.pos, PySet(o.self.tasks.dom)))[lb]
    return ("schedule:" + lb, f)


def _mk_start(o, n, r):
    return z3.ForAll([x], n.startset.has(x) == start_union(o.kwargs.t, kw_n(o.kwargs.t))(x), patterns=[n.startset.has(x)])


def _mk_text_parts():
    def joined(o, n, r):
        return r.t == str_join(NL, n.lines.n, n.lines.arr)

    def count(o, n, r):
        return n.lines.n == 1 + kw_n(o.kwargs.t) + n.ids.n

    def head_and_args(o, n, r):
        return _mk_lines(n.lines, o, kw_n(o.kwargs.t), 0, None)

    def tasks_(o, n, r):
        nk = kw_n(o.kwargs.t)
        L = n.lines
        return z3.ForAll([i], z3.Implies(z3.And(1 + nk <= i, i < L.n), L.at(i) == F_TASK(o.self.tasks.get(n.ids.at(i - 1 - nk)))),
                         patterns=[L.at(i)])
    return [("text-is-the-lines-joined-by-newline", joined), ("line-count = 1 + arguments + scheduled tasks", count),
            ("header-then-one `ref = arg` line-per-argument-in-order", head_and_args), ("then-one-line-per-scheduled-task-in-order", tasks_)]


MK_FUN = Contract(
    module=M, qualname="Manager.mk_fun", params=dict(self=TMgr, name=TV, kwargs=TKwargs),
    ghost=dict(pos=TCount, stack=TDeque(TV), ids=TSeq(TV), lines=TSeq(TV), startset=TSet), result=TV,
    requires=[(lb, (lambda lb_: lambda s: dict(idx_wf(s.self))[lb_])(lb)) for lb in LABELS],
    axioms=[lambda s: z3.And(*card_axioms())],
    ensures=_mk_text_parts() + [("start = the argument locations and their enclosing containers", _mk_start)] + [_mk_topo(lb) for lb in TOPO_LABELS],
    modifies=("pos", "stack", "ids", "lines", "startset"),
    loops={0: LoopSpec(anchor="kwargs.values()", invariants=_mk_inv0()),
           1: LoopSpec(anchor="kwargs.items()", invariants=_mk_inv1()),
           2: LoopSpec(anchor="tasks", invariants=_mk_inv2())},
    min_obligations=15,
    extra=dict(engine=SourceGenEngine, ghost_writeback={"pos": "pos", "stack": "stack", "ids": "ids"},
               ghost_after={"fdef = '\\n'.join(fdef)": lambda ns, st: st.env.__setitem__("lines", st.env["@joined_lines"]),
                            "tasks = self.find_tasks(start)": lambda ns, st: st.env.__setitem__("startset", st.env["start"])}),
    note="C13 (second sentence): the generated source lists, after the argument stores, exactly the tasks set_value would run for these "
         "locations (start = the argument locations and their enclosing containers), once each, in dependency order")
CONTRACTS += [MK_FUN]


# ----------------------------------------------------------------------------- run_tasks re-establishes consistency   (C01)
# Cons(t, h): the location defined by task t holds the value of its expression on the current data
hread = z3.Function("heap_read", V, V, V)             # heap, location -> value


def cons(tk, h):
    return hread(h, task_id(tk)) == evalv(task_expr(tk), h)


def frame_axioms(m):
    """trusted heap frame (DESIGN section 3: frame and prefix lemmas; C05 gives dependencies == locs(expr), tree-shaped data):
    a store to a task's target location changes neither the value of an expression none of whose dependencies it writes,
    nor the content of another task's target location, and is read back"""
    h, v_, w_, r_ = z3.Consts("h!fa v!fa w!fa r!fa", V)
    return [
        z3.ForAll([h, w_, v_], hread(hstore(h, task_id(w_), v_), task_id(w_)) == v_, patterns=[hstore(h, task_id(w_), v_)]),
        z3.ForAll([h, w_, r_, v_], z3.Implies(T.card(w_, r_) == 0,
                                             evalv(task_expr(r_), hstore(h, task_id(w_), v_)) == evalv(task_expr(r_), h)),
                  patterns=[evalv(task_expr(r_), hstore(h, task_id(w_), v_))]),
        z3.ForAll([h, w_, r_, v_], z3.Implies(task_id(w_) != task_id(r_),
                                             hread(hstore(h, task_id(w_), v_), task_id(r_)) == hread(h, task_id(r_))),
                  patterns=[hread(hstore(h, task_id(w_), v_), task_id(r_))]),
        # every task is an expression task: run() = evaluate, then one store (ExprTask.run, proved above)
        z3.ForAll([h, w_], run_eff(w_, h) == hstore(h, task_id(w_), evalv(task_expr(w_), h)), patterns=[run_eff(w_, h)]),
    ]


def acyc(m):
    """Acyc (precondition named in the statement's exclusions): in the declared ordering graph no task feeds itself and no edge
    closes a cycle.  Nested-container siblings violate it: known finding K1."""
    A = m.rtasks
    return z3.And(
        z3.ForAll([t], z3.Implies(m.tasks.has(t), T.card(m.tasks.get(t), m.tasks.get(t)) == 0), patterns=[m.tasks.get(t)]),
        z3.ForAll([x, y], z3.Implies(z3.And(A.cnt(x, y) > 0, x != y), z3.Not(T.DD_R(A.arr, y, x))), patterns=[A.cnt(x, y)]))


def _rs_in_sched(s, tid):
    return S_in_stack(s.stack, s.pos, tid)


from contracts.sorting import in_stack as S_in_stack      # noqa: E402


def _rs_requires():
    def sched(s):
        m = s.self
        L = s.tasks.value
        clauses = dict(topo_post_counts(m, lambda v: z3.BoolVal(False), s.ids, s.stack, s.pos, PySet(m.tasks.dom)))
        return z3.And(clauses["result-is-stack"], clauses["each-once"], clauses["positions"], clauses["closed-under-edges"],
                      clauses["dependency-order"], clauses["within-P"],
                      L.n == s.ids.n,
                      z3.ForAll([i], z3.Implies(z3.And(0 <= i, i < L.n), z3.And(m.tasks.has(s.ids.at(i)), L.at(i) == m.tasks.get(s.ids.at(i)))),
                                patterns=[L.at(i)]))
    return [("explicit-list", lambda s: z3.Not(s.tasks.is_none)),
            ("schedule (postcondition of find_tasks)", sched),
            ("IdxWF:keys", lambda s: keys_ok(s.self)),
            ("IdxWF:rtasks=F", lambda s: dict(idx_wf(s.self))["rtasks=F"]),
            ("Acyc", lambda s: acyc(s.self)),
            ("tasks outside the schedule are consistent", lambda s: z3.ForAll([t], z3.Implies(
                z3.And(s.self.tasks.has(t), z3.Not(_rs_in_sched(s, t))), cons(s.self.tasks.get(t), s.heap.t)), patterns=[s.self.tasks.get(t)]))]


def _rs_inv():
    def g(L):
        s = L.old
        m = s.self
        return z3.ForAll([t], z3.Implies(
            z3.And(m.tasks.has(t), z3.Or(z3.Not(_rs_in_sched(s, t)), s.pos.cnt(t) - s.stack.lo < L.k)),
            cons(m.tasks.get(t), L.cur.heap.t)), patterns=[m.tasks.get(t)])
    return [("tasks outside the schedule and the first k scheduled ones are consistent", g),
            ("index", lambda L: z3.And(0 <= L.k, L.k <= L.n))]


RUN_SCHEDULE = Contract(
    module=M, qualname="Manager.run_tasks",
    params=dict(self=TMgr, tasks=TOpt(TSeq(TTask))), ghost=dict(heap=TV, runs=TSeq(TTask), ids=TSeq(TV), stack=TDeque(TV), pos=TCount),
    requires=_rs_requires(),
    axioms=[lambda s: z3.And(*frame_axioms(s.self)), lambda s: z3.And(*card_axioms())],
    ensures=[("Cons: every expression-defined location equals its definition on the current data", lambda o, n, r: z3.ForAll(
        [t], z3.Implies(o.self.tasks.has(t), cons(o.self.tasks.get(t), n.heap.t)), patterns=[o.self.tasks.get(t)]))],
    raises={"UserError": dict(when=None, post=[], modifies=("heap", "runs"))},
    modifies=("heap", "runs"),
    loops={0: LoopSpec(anchor="tasks", invariants=_rs_inv(), modifies=("heap", "runs"))},
    call_ghost={("Task.run", None): lambda st, pre: dict(heap=st.heap, runs=st.runs)},
    defaults=dict(tasks=lambda: PyNone()),
    min_obligations=4,
    extra=dict(engine=TasksEngine, variant="consistency", ghost_writeback={"heap": "heap", "runs": "runs"}),
    note="C01, the composition step: running a schedule with the find_tasks postcondition (each once, closed under the declared "
         "edges, producers first) re-establishes consistency of every definition, given consistency of the tasks outside the "
         "schedule, the index invariant, the heap frame axioms and Acyc")
VARIANTS += [RUN_SCHEDULE]


# ----------------------------------------------------------------------------- Manager.copy: no state shared with the original   (C02, C12)
from pyvc.writeset import FieldCopyEngine      # noqa: E402

MGR_COPY = Contract(module=M, qualname="Manager.copy", params={}, min_obligations=8,
                    extra=dict(engine=FieldCopyEngine, variant="independent-copy"),
                    note="every container field the constructor creates (tasks, containers and the four indices) is stored once on the new manager, as "
                         "deepcopy(self.<field>): editing the copy cannot change what an assignment in the original schedules (seed C02-13: two indices "
                         "copied shallowly shared their per-reference multisets)")
VARIANTS += [MGR_COPY]
