"""Sidecar contracts for the row-name cache of xdeps/table.py (DESIGN.md section 4, C07).

Spec vocabulary (section 3, "Table view"), all functions of the CURRENT index column col = _data[_index]:
  cntp(nm, i)  = #{ j < i : col[j] == nm }           (prefix count; defining axioms below)
  occ(i)       = cntp(col[i], i)                      (occurrence number of row i)
  cnt(nm)      = cntp(nm, len col)
The cache (dct, count) is RIGHT for the column iff
  complete : every row i is stored under (col[i], occ(i)) with value i
  sound    : every stored entry ((nm, c) -> i) has 0 <= i < n, col[i] == nm, occ(i) == c, and keys are pairs
  counts   : count has exactly the names occurring, with count[nm] == cnt(nm)
`_get_row_cache` is then the statement of C07: None iff no row has that name and occurrence number, else such a
row's position plus the offset (there is at most one such row: the prefix count is strictly increasing on the rows
carrying the name -- a property of the specification function, not of the code).
"""
import z3
from pyvc.values import *          # noqa
from pyvc.contract import Contract, LoopSpec
from pyvc.table_engine import TableEngine, TData, pair, pair_fst, pair_snd, is_pair, int_v, v_int, pair_axioms, col_len, col_arr

M = "xdeps/table.py"
nm, x = z3.Consts("nm!tc x!tc", V)
i, j, c = z3.Ints("i!tc j!tc c!tc")

cntp = z3.Function("prefix_count", V, V, V, IntS, IntS)      # data, index key, name, i

TCache = TMap(TInt)
TTable = TRec("Table", dict(_data=TData, _index=TV, _sep_count=TV, _index_cache=TOpt(TCache), _count_cache=TOpt(TCache),
                            _names_cache=TV))
ENG = dict(engine=TableEngine)


def col_of(s):
    return s._data.col(s._index)


def cp(s):
    D, K = s._data.t, s._index.t
    return lambda name, k: cntp(D, K, name, k)


def cntp_axioms(s):
    col, f = col_of(s), cp(s)
    n = col.n
    return z3.And(
        n >= 0,
        z3.ForAll([nm], f(nm, 0) == 0, patterns=[f(nm, 0)]),
        z3.ForAll([nm, i], z3.Implies(z3.And(0 <= i, i < n),
                                      f(nm, i + 1) == f(nm, i) + z3.If(col.at(i) == nm, 1, 0)), patterns=[f(nm, i + 1)]),
        z3.ForAll([nm, i, j], z3.Implies(z3.And(0 <= i, i <= j, j <= n), f(nm, i) <= f(nm, j)),
                  patterns=[z3.MultiPattern(f(nm, i), f(nm, j))]),
        z3.ForAll([nm, i], z3.Implies(z3.And(0 <= i, i <= n), f(nm, i) >= 0), patterns=[f(nm, i)]),
        # (a consequence of the two lines above, stated to spare the solver the instantiation chain: strictly increasing on the
        #  rows that carry the name)
        z3.ForAll([nm, i, j], z3.Implies(z3.And(0 <= i, i < j, j <= n, col.at(i) == nm), f(nm, i) < f(nm, j)),
                  patterns=[z3.MultiPattern(f(nm, i), f(nm, j))]),
        *pair_axioms())


def key(name, k):
    return pair(name, int_v(k))


def cache_complete(s, dct, upto):
    col, f = col_of(s), cp(s)
    return z3.ForAll([i], z3.Implies(z3.And(0 <= i, i < upto), z3.And(
        dct.has(key(col.at(i), f(col.at(i), i))), dct.get(key(col.at(i), f(col.at(i), i))) == i)), patterns=[col.at(i)])


def cache_sound(s, dct, upto):
    col, f = col_of(s), cp(s)
    return z3.ForAll([x], z3.Implies(dct.has(x), z3.And(
        is_pair(x), x == pair(pair_fst(x), pair_snd(x)), pair_snd(x) == int_v(v_int(pair_snd(x))),
        0 <= dct.get(x), dct.get(x) < upto, col.at(dct.get(x)) == pair_fst(x),
        f(pair_fst(x), dct.get(x)) == v_int(pair_snd(x)))), patterns=[dct.has(x)])


def counts_right(s, count, upto, last=False):
    """count has exactly the names seen; value = number of occurrences (last=True: number of the last occurrence)"""
    f = cp(s)
    d = 1 if last else 0
    return z3.ForAll([nm], z3.And(count.has(nm) == (f(nm, upto) > 0),
                                  z3.Implies(count.has(nm), count.get(nm) == f(nm, upto) - d)), patterns=[count.has(nm)])


def first_stored(s, dct, upto):
    f = cp(s)
    return z3.ForAll([nm], z3.Implies(f(nm, upto) > 0, dct.has(key(nm, 0))), patterns=[f(nm, upto)])


def cache_ok(s, dct, count):
    n = col_of(s).n
    return z3.And(cache_complete(s, dct, n), cache_sound(s, dct, n), counts_right(s, count, n))


def strictness_is_derived():
    """the strictness line of cntp_axioms follows from the step and the monotonicity lines alone (self-contained validity over
    fresh symbols, re-proved on every run as a lemma of _make_cache)"""
    f_ = z3.Function("f!sd", V, IntS, IntS)
    c_ = z3.Function("col!sd", IntS, V)
    n_, p_, q_ = z3.Ints("n!sd p!sd q!sd")
    a_ = z3.Const("a!sd", V)
    step = z3.ForAll([nm, i], z3.Implies(z3.And(0 <= i, i < n_), f_(nm, i + 1) == f_(nm, i) + z3.If(c_(i) == nm, 1, 0)))
    mono = z3.ForAll([nm, i, j], z3.Implies(z3.And(0 <= i, i <= j, j <= n_), f_(nm, i) <= f_(nm, j)))
    return z3.Implies(z3.And(step, mono, 0 <= p_, p_ < q_, q_ <= n_, c_(p_) == a_), f_(a_, p_) < f_(a_, q_))


# ----------------------------------------------------------------------------- _make_cache
def _mc_inv0():
    o = lambda L: L.old.self
    return [
        ("complete<k", lambda L: cache_complete(o(L), L.cur.dct, L.k)),
        ("sound<k", lambda L: cache_sound(o(L), L.cur.dct, L.k)),
        ("count=last-occurrence<k", lambda L: counts_right(o(L), L.cur.count, L.k, last=True)),
        ("first-occurrence-stored", lambda L: first_stored(o(L), L.cur.dct, L.k)),
        ("index", lambda L: z3.And(0 <= L.k, L.k <= L.n, L.n == col_of(o(L)).n)),
    ]


def _mc_inv1():
    o = lambda L: L.old.self

    def counts(L):
        f = cp(o(L))
        n = col_of(o(L)).n
        cur, ent = L.cur.count, L.pre.count
        return z3.ForAll([nm], z3.And(
            cur.has(nm) == ent.has(nm),
            z3.Implies(cur.has(nm), cur.get(nm) == z3.If(L.idx(nm) < L.k, f(nm, n), f(nm, n) - 1))), patterns=[cur.has(nm)])
    return [("count=total-for-visited-keys", counts),
            ("entry-count=last-occurrence", lambda L: counts_right(o(L), L.pre.count, col_of(o(L)).n, last=True)),
            ("index", lambda L: z3.And(0 <= L.k, L.k <= L.n))]


MAKE_CACHE = Contract(
    module=M, qualname="Table._make_cache", params=dict(self=TTable),
    result=TTuple(TCache, TCache, TV),
    axioms=[lambda s: cntp_axioms(s.self)],
    ensures=[("complete", lambda o, n, r: cache_complete(o.self, r.items[0], col_of(o.self).n)),
             ("sound", lambda o, n, r: cache_sound(o.self, r.items[0], col_of(o.self).n)),
             ("counts", lambda o, n, r: counts_right(o.self, r.items[1], col_of(o.self).n))],
    loops={0: LoopSpec(anchor="enumerate(col)", invariants=_mc_inv0()),
           1: LoopSpec(anchor="count.items()", invariants=_mc_inv1())},
    min_obligations=12, extra=dict(ENG, local_types=dict(dct=TCache, count=TCache),
                                   lemmas=[("prefix-count-strictness-is-derived", strictness_is_derived)]),
    note="the third result (unique labels) is outside the contract: f-strings / numpy object arrays are opaque; "
         "get_index_unique is covered by the run-time check")

# ----------------------------------------------------------------------------- _get_cache
def cache_field_ok(s):
    """class invariant CacheOK: the stored cache is absent, or right for the current index column"""
    ic, cc = s._index_cache, s._count_cache
    return z3.Implies(z3.Not(ic.is_none), z3.And(z3.Not(cc.is_none), cache_ok(s, ic.value, cc.value)))


GET_CACHE = Contract(
    module=M, qualname="Table._get_cache", params=dict(self=TTable),
    result=TTuple(TCache, TCache),
    requires=[("CacheOK", lambda s: cache_field_ok(s.self))],
    axioms=[lambda s: cntp_axioms(s.self)],
    ensures=[("returns-a-right-cache", lambda o, n, r: cache_ok(o.self, r.items[0], r.items[1])),
             ("CacheOK", lambda o, n, r: cache_field_ok(n.self)),
             ("cache-present", lambda o, n, r: z3.Not(n.self._index_cache.is_none))],
    modifies=("self._index_cache", "self._count_cache", "self._names_cache"),
    min_obligations=4, extra=dict(ENG))


# ----------------------------------------------------------------------------- _get_row_cache
def _norm_count(s, o):
    """the occurrence number the statement assigns to (row, count): None -> 0, negative counted from the last"""
    f = cp(s)
    n = col_of(s).n
    c0 = z3.If(o.count.is_none, 0, o.count.value.t)
    return z3.If(c0 < 0, c0 + f(o.row.t, n), c0)


def _grc_post(o, n, r):
    s = o.self
    col, f = col_of(s), cp(s)
    cc = _norm_count(s, o)
    exists = z3.Exists([i], z3.And(0 <= i, i < col.n, col.at(i) == o.row.t, f(o.row.t, i) == cc))
    pos = r.value.t - o.offset.t
    return z3.And(r.is_none == z3.Not(exists),
                  z3.Implies(z3.Not(r.is_none), z3.And(0 <= pos, pos < col.n, col.at(pos) == o.row.t, f(o.row.t, pos) == cc)))


GET_ROW_CACHE = Contract(
    module=M, qualname="Table._get_row_cache",
    params=dict(self=TTable, row=TV, count=TOpt(TInt), offset=TInt), result=TOpt(TInt),
    requires=[("CacheOK", lambda s: cache_field_ok(s.self))],
    axioms=[lambda s: cntp_axioms(s.self)],
    ensures=[("scan-position-or-None", _grc_post), ("CacheOK", lambda o, n, r: cache_field_ok(n.self))],
    modifies=("self._index_cache", "self._count_cache", "self._names_cache"),
    min_obligations=4, extra=dict(ENG))

GET_ROW_CACHE_RAISE = Contract(
    module=M, qualname="Table._get_row_cache_raise",
    params=dict(self=TTable, row=TV, count=TOpt(TInt), offset=TInt), result=TInt,
    requires=[("CacheOK", lambda s: cache_field_ok(s.self))],
    axioms=[lambda s: cntp_axioms(s.self)],
    ensures=[("scan-position", lambda o, n, r: z3.And(
        0 <= r.t - o.offset.t, r.t - o.offset.t < col_of(o.self).n,
        col_of(o.self).at(r.t - o.offset.t) == o.row.t,
        cp(o.self)(o.row.t, r.t - o.offset.t) == _norm_count(o.self, o))),
        ("CacheOK", lambda o, n, r: cache_field_ok(n.self))],
    raises={"KeyError": dict(
        when=lambda s: z3.Not(z3.Exists([i], z3.And(0 <= i, i < col_of(s.self).n, col_of(s.self).at(i) == s.row.t,
                                                    cp(s.self)(s.row.t, i) == _norm_count(s.self, s)))),
        exact=True, post=[("CacheOK", lambda o, n: cache_field_ok(n.self))],
        modifies=("self._index_cache", "self._count_cache", "self._names_cache"))},
    modifies=("self._index_cache", "self._count_cache", "self._names_cache"),
    defaults=dict(count=lambda: PyInt(0), offset=lambda: PyInt(0)),
    min_obligations=4, extra=dict(ENG))

CONTRACTS = [MAKE_CACHE, GET_CACHE, GET_ROW_CACHE, GET_ROW_CACHE_RAISE]
