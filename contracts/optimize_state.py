"""C10: optimize._set_state -- which `active` flags enable()/disable() and step()'s enable_* / disable_* arguments change.

Statement (C10): "a knob that is disabled is never changed, while a disabled target has no influence on the steps taken ... disabled either
persistently (disable()/enable()) or only for one call".  Which knobs / targets ARE disabled is decided by this function alone:

  _set_state(lst, state, entries, attr)   for every position i of lst, afterwards
      entries is None                      -> lst[i].active unchanged
      entries is True / is False           -> lst[i].active == state / == not state
      otherwise (an int, a str, or a sequence of them; an int or str alone stands for the one-element sequence)
                                           -> lst[i].active == state   if some entry selects i,   unchanged otherwise
         an int entry v selects the position v (negative: from the end; IndexError outside [-n, n)) -- 0 and 1 are ids like any other,
         a str entry selects every position whose `attr` (tag / name) it fully matches as a regular expression
  and nothing else is written.

`selected by one of the first k entries` is the spec function sel(k, i), defined by recursion on k.  Trusted: `re.fullmatch` (uninterpreted
predicate), the elements of lst are distinct objects, `entries` is one of the documented forms (iterable if it is not None/True/False/int/str).
"""
import z3
from pyvc.values import *          # noqa
from pyvc.contract import Contract, LoopSpec
from pyvc.state_engine import (StateEngine, PY_TRUE, PY_FALSE, is_int, is_str, int_of, seq_len, seq_item, key_of, matches, value_axioms)
from pyvc.engine import none_term

M = "xdeps/optimize/optimize.py"
i, k = z3.Ints("i!ss k!ss")
TFlags = TSeq(TBool)
sel = z3.Function("set_state_selected", V, V, V, IntS, IntS, BoolS)        # (entries, lst, attr, number of entries looked at, position)


def scalar(e):
    return z3.Or(is_int(e), is_str(e))


def m_of(e):
    return z3.If(scalar(e), 1, seq_len(e))


def item_of(e, kk):
    return z3.If(scalar(e), e, seq_item(e, kk))


def norm(v, n):
    return z3.If(v < 0, v + n, v)


def picks(p, kk, ii):
    """does the kk-th entry select position ii"""
    x, n = item_of(p.entries.t, kk), seq_len(p.lst.t)
    return z3.If(is_int(x), norm(int_of(x), n) == ii, z3.If(is_str(x), matches(x, key_of(p.attr.t, ii)), False))


def S(p, kk, ii):
    return sel(p.entries.t, p.lst.t, p.attr.t, kk, ii)


def _axioms(p):
    return z3.And(*value_axioms(), seq_len(p.lst.t) >= 0, seq_len(p.entries.t) >= 0, p.act.n == seq_len(p.lst.t),
                  z3.ForAll([i], z3.Not(S(p, 0, i)), patterns=[S(p, 0, i)]),
                  z3.ForAll([k, i], z3.Implies(k >= 0, S(p, k + 1, i) == z3.Or(S(p, k, i), picks(p, k, i))), patterns=[S(p, k + 1, i)]))


def inside(p, ii):
    return z3.And(0 <= ii, ii < seq_len(p.lst.t))


def _all(L, val):
    """loops `for vv in lst: vv.active = <val>`: the first k flags are set, the others untouched"""
    p, c = L.old, L.cur
    return z3.And(c.act.n == p.act.n, 0 <= L.k, L.k <= L.n, L.n == seq_len(p.lst.t),
                  z3.ForAll([i], c.act.at(i) == z3.If(z3.And(0 <= i, i < L.k), val(p), p.act.at(i)), patterns=[c.act.at(i)]))


def _outer(L):
    p, c = L.old, L.cur
    e = p.entries.t
    return z3.And(c.act.n == p.act.n, 0 <= L.k, L.k <= L.n, L.n == m_of(e),
                  z3.ForAll([k], z3.Implies(z3.And(0 <= k, k < L.n), L.at(k) == item_of(e, k)), patterns=[L.at(k)]),
                  z3.ForAll([i], c.act.at(i) == z3.If(z3.And(inside(p, i), S(p, L.k, i)), p.state.t, p.act.at(i)), patterns=[c.act.at(i)]))


def _inner(L):
    p, c = L.old, L.cur
    K = L.K[2]
    x = L.IT[2].at(K)
    return z3.And(c.act.n == p.act.n, 0 <= L.k, L.k <= L.n, L.n == seq_len(p.lst.t),
                  z3.ForAll([i], c.act.at(i) == z3.If(
                      z3.And(inside(p, i), z3.Or(S(p, K, i), z3.And(i < L.k, matches(x, key_of(p.attr.t, i))))), p.state.t, p.act.at(i)),
                      patterns=[c.act.at(i)]))


def _post(p, q, r):
    e, n = p.entries.t, seq_len(p.lst.t)
    want = lambda ii: z3.If(e == none_term(), p.act.at(ii), z3.If(e == PY_TRUE, p.state.t, z3.If(e == PY_FALSE, z3.Not(p.state.t),
                            z3.If(S(p, m_of(e), ii), p.state.t, p.act.at(ii)))))
    return z3.And(q.act.n == p.act.n,
                  z3.ForAll([i], q.act.at(i) == z3.If(inside(p, i), want(i), p.act.at(i)), patterns=[q.act.at(i)]))


def _bad_index(p):
    n = seq_len(p.lst.t)
    x = item_of(p.entries.t, k)
    return z3.And(p.entries.t != none_term(), p.entries.t != PY_TRUE, p.entries.t != PY_FALSE,
                  z3.Exists([k], z3.And(0 <= k, k < m_of(p.entries.t), is_int(x), z3.Or(int_of(x) < -n, int_of(x) >= n))))


SET_STATE = Contract(
    module=M, qualname="_set_state", params=dict(lst=TV, state=TBool, entries=TV, attr=TV), ghost=dict(act=TFlags),
    axioms=[_axioms],
    ensures=[("every flag is what the entries prescribe: all / none / exactly the selected positions set to `state`, the others unchanged", _post)],
    raises={"IndexError": dict(when=_bad_index, post=[], modifies=("act",))},
    modifies=("act",),
    loops={0: LoopSpec(anchor="lst", invariants=[("first-k-set", lambda L: _all(L, lambda p: p.state.t))], modifies=("act",)),
           1: LoopSpec(anchor="lst", invariants=[("first-k-set-to-the-opposite", lambda L: _all(L, lambda p: z3.Not(p.state.t)))], modifies=("act",)),
           2: LoopSpec(anchor="entries", invariants=[("flags == selected-by-the-first-k-entries", _outer)], modifies=("act",)),
           3: LoopSpec(anchor="lst", invariants=[("flags == selected-by-earlier-entries or by this pattern among the first j elements", _inner)],
                       modifies=("act",))},
    min_obligations=12,
    extra=dict(engine=StateEngine, frame_ghosts=False),
    note="act[i] = lst[i].active (ghost view); sel(k, i) by recursion over the entries")

CONTRACTS = [SET_STATE]


# ----------------------------------------------------------------------------- who calls _set_state, and with what
from pyvc.writeset import SwitchTableEngine      # noqa: E402


def _rows_set_state(state):
    return [(None, "_set_state", dict(lst="self.targets", state=state, entries="target", attr="'tag'")),
            (None, "_set_state", dict(lst="self.vary", state=state, entries="vary", attr="'tag'")),
            (None, "_set_state", dict(lst="self.vary", state=state, entries="vary_name", attr="'name'"))]


ENABLE = Contract(module=M, qualname="Optimize.enable", params={}, min_obligations=5,
                  extra=dict(engine=SwitchTableEngine, variant="switch-table", callees=("_set_state",), rows=_rows_set_state("True")),
                  note="enable(target, vary, vary_name) = _set_state(self.targets, True, target, 'tag'); _set_state(self.vary, True, vary, 'tag'); "
                       "_set_state(self.vary, True, vary_name, 'name') -- in this order, nothing else switched")
DISABLE = Contract(module=M, qualname="Optimize.disable", params={}, min_obligations=5,
                   extra=dict(engine=SwitchTableEngine, variant="switch-table", callees=("_set_state",), rows=_rows_set_state("False")),
                   note="disable(...) = the same three calls with state False")


def _kw(method, kw, arg):
    d = dict(target="None", vary="None", vary_name="None")
    d[kw] = arg
    return (arg, "self." + method, d)


_PAIRS = [("enable", "target", "enable_target"), ("enable", "vary", "enable_vary"), ("disable", "target", "disable_target"),
          ("disable", "vary", "disable_vary"), ("disable", "vary_name", "disable_vary_name"), ("enable", "vary_name", "enable_vary_name")]
_OPP = dict(enable="disable", disable="enable")
STEP_SWITCH = Contract(
    module=M, qualname="Optimize.step", params={}, min_obligations=15,
    extra=dict(engine=SwitchTableEngine, variant="switch-table", callees=("self.enable", "self.disable", "_set_state"),
               rows=[_kw(m, kw, a) for m, kw, a in _PAIRS] + [_kw(_OPP[m], kw, a) for m, kw, a in _PAIRS],
               split_at="range(n_steps)", split=6),
    note="step(): each of the six enable_* / disable_* arguments, when given, is applied through enable()/disable() with the matching keyword "
         "BEFORE the stepping loop and taken back by the opposite call AFTER it (so a knob disabled for the call is inactive during every "
         "step of the call and active again afterwards); no other switching anywhere in step()")

VARIANTS = [ENABLE, DISABLE, STEP_SWITCH]


# ----------------------------------------------------------------------------- mask_input / mask_output: the CURRENT flags, read afresh on every access
from pyvc.engine import Unsupported, PyStr      # noqa: E402
from pyvc.state_engine import FlagItem          # noqa: E402
import ast as _ast                              # noqa: E402

has_active = z3.Function("element_has_attribute_active", V, IntS, BoolS)       # (lst, position)
unknown_attr = {}


class MaskEngine(StateEngine):
    """StateEngine + what the two mask properties use: `vv.active` read, hasattr(vv, "active"), list building, np.array(list).
    An attribute of `self` that the contract does not declare is an UNKNOWN value (whatever an earlier call may have left there): code that
    answers from such an attribute cannot be proved to return the current flags -- the obligation fails instead of the contract going stale."""

    def getattr(self, obj, attr, cx, node=None):
        if isinstance(obj, FlagItem) and attr == "active":
            return PyBool(cx.st.env["act"].at(obj.pos))
        if isinstance(obj, PyRec) and attr not in obj.fields and not (node is not None and isinstance(getattr(node, "ctx", None), _ast.Store)):
            import ast as __a
            parent_is_call = False
            if not attr.startswith("__"):
                # method call on self is handled by the base class (BoundMethod); a plain attribute read yields an unknown value
                if (attr, id(cx.st)) not in unknown_attr:
                    unknown_attr[(attr, id(cx.st))] = FreshConst(V, "self_" + attr)
                return PyObj(unknown_attr[(attr, id(cx.st))])
        return super().getattr(obj, attr, cx, node)

    def _is_lst(self, v, cx):
        rec = cx.st.env.get("self")
        return isinstance(v, PyObj) and isinstance(rec, PyRec) and any(isinstance(f, PyObj) and v.t.eq(f.t) for f in rec.fields.values())

    def builtin_hasattr(self, e, cx):
        o = self.eval(e.args[0], cx)
        if isinstance(o, FlagItem) and isinstance(e.args[1], _ast.Constant) and e.args[1].value == "active":
            return PyBool(has_active(cx.st.env["lst"].t, o.pos))
        raise Unsupported("hasattr form")

    def iterate(self, v, cx):
        en = super().iterate(v, cx)
        if getattr(en, "flag_items", False):
            en.elem = lambda k_: FlagItem(k_)      # (comprehensions take their elements through elem())
        return en

    def builtin_getattr(self, e, cx):
        if len(e.args) == 3 and isinstance(e.args[1], _ast.Constant) and e.args[1].value == "active":
            o, dflt = self.eval(e.args[0], cx), self.eval(e.args[2], cx)
            if isinstance(o, FlagItem) and isinstance(dflt, PyBool):
                return PyBool(z3.If(has_active(cx.st.env["lst"].t, o.pos), cx.st.env["act"].at(o.pos), dflt.t))
        return super().builtin_getattr(e, cx)

    def eval_List(self, e, cx):
        if not e.elts:
            return PySeq.empty(TBool)
        return super().eval_List(e, cx)

    def call_method(self, recv, name, e, cx, recv_node):
        if isinstance(recv_node, _ast.Name) and recv_node.id == "np" and name in ("array", "asarray") and len(e.args) == 1 \
                and all(k.arg == "dtype" and isinstance(k.value, _ast.Name) and k.value.id == "bool" for k in e.keywords):
            return self.eval(e.args[0], cx)          # an array of the list's elements, in order
        return super().call_method(recv, name, e, cx, recv_node)

    def eval_Name(self, e, cx):
        if e.id == "np" and e.id not in cx.st.env:
            return PyObj(z3.Const("py_global_np", V))
        return super().eval_Name(e, cx)

    def coerce(self, v, ty, cx, what):
        if isinstance(v, PyObj) and isinstance(ty, TSeq):
            r = ty.fresh("unknown_seq")              # an opaque value returned where a sequence is expected: nothing is known about it
            for ax in r.axioms:
                cx.assume(ax)
            return r
        return super().coerce(v, ty, cx, what)

    def setattr_hook(self, obj, attr, v, cx, node):
        if isinstance(obj, PyRec):
            return                                   # a store into an undeclared attribute of self: allowed, not part of the result
        return super().setattr_hook(obj, attr, v, cx, node)


def _mask_contract(prop, field):
    def post(o, n, r):
        lst = o.lst.t
        return z3.And(r.n == seq_len(lst), z3.ForAll([i], z3.Implies(z3.And(0 <= i, i < seq_len(lst)),
                                                                     r.at(i) == z3.If(has_active(lst, i), o.act.at(i), True)), patterns=[r.at(i)]))

    def inv(L):
        lst = L.old.lst.t
        m = L.cur.mask
        return z3.And(0 <= L.k, L.k <= L.n, L.n == seq_len(lst), m.n == L.k,
                      z3.ForAll([i], z3.Implies(z3.And(0 <= i, i < L.k), m.at(i) == z3.If(has_active(lst, i), L.old.act.at(i), True)), patterns=[m.at(i)]))
    return Contract(
        module=M, qualname=f"MeritFunctionForMatch.{prop}",
        params=dict(self=TRec("MeritFunctionForMatch", {field: TV})), ghost=dict(act=TFlags, lst=TV), result=TSeq(TBool),
        requires=[("lst-is-the-list", lambda s: s.lst.t == getattr(s.self, field).t), ("flags-per-element", lambda s: z3.And(s.act.n == seq_len(s.lst.t), seq_len(s.lst.t) >= 0))],
        ensures=[(f"one entry per element of self.{field}, in order: its CURRENT `active` flag (True for an element without one)", post)],
        loops={0: LoopSpec(anchor=f"self.{field}", invariants=[("mask == flags of the first k elements", inv)])},
        min_obligations=3, extra=dict(engine=MaskEngine, frame_ghosts=False),
        note="read afresh on every access: enable()/disable(), the older enable_all_* entry points, reload() and plain assignment to .active all take "
             "effect on the next evaluation")


MASK_INPUT = _mask_contract("mask_input", "vary")
MASK_OUTPUT = _mask_contract("mask_output", "targets")
CONTRACTS += [MASK_INPUT, MASK_OUTPUT]
