"""C14 / C07: the UNCHECKED constructor  Table(data, col_names=..., index=..., verify=False)  stores its arguments as given and starts without
lookup tables.  Every derivation under contract in contracts/table_rect.py builds its result through this call and relied on it as a trusted fact;
C07's class invariant CacheOK needs "a freshly constructed table has no lookup tables".

The constructor is executed symbolically on the path `verify` false (the other branch -- the CHECKED constructor: dtype tests, the set of column lengths --
is outside this contract and covered at run time): names are bound to tokens (`<parameter p>`, `None`, `<other>`), the dict literal `init` is read entry by
entry, and the loop `for kk, vv in init.items(): object.__setattr__(self, kk, vv)` stores every entry.  Obligations (all syntactic facts of the real text,
emitted as closed formulas so that a change refutes a NAMED obligation):
    field:<f>   the attribute f ends up holding exactly the parameter the statement needs there
                  _data <- data, _col_names <- col_names, _index <- index, _sep_count / _sep_previous / _sep_next / _regex_flags <- their parameters
    field:_index_cache / _count_cache   hold None
    no-other-store                      no further attribute receives a literal other than None on this path
A value the reading cannot judge (an expression over the parameters, a call) makes the contract STALE, not refuted: only a definite mismatch -- another
parameter, None for a parameter, a literal where None is required (an empty dict as lookup table on a non-empty table breaks CacheOK) -- is a failed obligation.
"""
import ast
import z3
from pyvc.contract import Contract
from pyvc.engine import Obligation
from pyvc.values import Unsupported
from contracts.table_cache import M

WANT = {"_data": "param:data", "_col_names": "param:col_names", "_index": "param:index", "_index_cache": "None", "_count_cache": "None",
        "_sep_count": "param:sep_count", "_sep_previous": "param:sep_previous", "_sep_next": "param:sep_next", "_regex_flags": "param:regex_flags"}
VIEWS = {"cols": "call:_ColView(self)", "rows": "call:_RowView(self)"}


class CtorEngine:
    def __init__(self, registry, opts=None):
        self.trivial_frames = 0

    def tok(self, e, env):
        if isinstance(e, ast.Constant) and e.value is None:
            return "None"
        if isinstance(e, (ast.Constant, ast.Dict, ast.List, ast.Set, ast.Tuple)):
            return "lit:" + ast.unparse(e)             # a literal other than None
        if isinstance(e, ast.Name):
            return env.get(e.id, "other:" + e.id)
        if isinstance(e, ast.Call) and isinstance(e.func, ast.Name) and len(e.args) == 1 and isinstance(e.args[0], ast.Name) and not e.keywords:
            return f"call:{e.func.id}({env.get(e.args[0].id, e.args[0].id)})"
        return "other:" + ast.unparse(e)

    def run(self, stmts, env, stores, selfname, assume_false):
        for s in stmts:
            if isinstance(s, ast.Expr) and isinstance(s.value, ast.Constant):
                continue
            if isinstance(s, ast.If):
                if isinstance(s.test, ast.Name) and s.test.id == assume_false:
                    self.run(s.orelse, env, stores, selfname, assume_false)
                    continue
                raise Unsupported(f"branch on {ast.unparse(s.test)} on the unchecked path (line {s.lineno})")
            if isinstance(s, ast.Assign) and len(s.targets) == 1 and isinstance(s.targets[0], ast.Name):
                if isinstance(s.value, ast.Dict):
                    d = {}
                    for k, v in zip(s.value.keys, s.value.values):
                        if not (isinstance(k, ast.Constant) and isinstance(k.value, str)):
                            raise Unsupported("dict literal with a computed key")
                        d[k.value] = self.tok(v, env)          # (a repeated key: the last entry wins, as in Python)
                    env[s.targets[0].id] = ("dict", d)
                else:
                    env[s.targets[0].id] = self.tok(s.value, env)
                continue
            if isinstance(s, ast.For):
                # for kk, vv in <dict>.items(): object.__setattr__(self, kk, vv)
                it = s.iter
                ok = (isinstance(it, ast.Call) and isinstance(it.func, ast.Attribute) and it.func.attr == "items" and isinstance(it.func.value, ast.Name)
                      and isinstance(env.get(it.func.value.id), tuple) and isinstance(s.target, ast.Tuple) and len(s.target.elts) == 2
                      and all(isinstance(x, ast.Name) for x in s.target.elts) and len(s.body) == 1 and not s.orelse)
                if ok:
                    kk, vv = (x.id for x in s.target.elts)
                    b = s.body[0]
                    ok = (isinstance(b, ast.Expr) and isinstance(b.value, ast.Call) and ast.unparse(b.value.func) == "object.__setattr__"
                          and [ast.unparse(a) for a in b.value.args] == [selfname, kk, vv] and not b.value.keywords)
                if not ok:
                    raise Unsupported(f"loop shape at line {s.lineno}")
                for k, v in env[it.func.value.id][1].items():
                    stores.append((k, v))
                continue
            if isinstance(s, ast.Expr) and isinstance(s.value, ast.Call) and ast.unparse(s.value.func) == "object.__setattr__" and len(s.value.args) == 3 \
                    and ast.unparse(s.value.args[0]) == selfname and isinstance(s.value.args[1], ast.Constant):
                stores.append((s.value.args[1].value, self.tok(s.value.args[2], env)))
                continue
            raise Unsupported(f"statement {type(s).__name__} at line {s.lineno} on the unchecked path")

    def verify(self, c, fdef, classctx=None):
        params = [a.arg for a in fdef.args.args] + [a.arg for a in fdef.args.kwonlyargs]
        selfname = params[0]
        env = {p: "param:" + p for p in params[1:]}
        stores = []
        self.run(fdef.body, env, stores, selfname, "verify")
        final = {}
        for k, v in stores:
            final[k] = v
        base = f"{c.module}:{c.qualname}@unchecked"
        obls = []
        for f, want in {**WANT, **VIEWS}.items():
            got = final.get(f)
            # (a constructor that stores a COPY of the column list / the data dict shares less with its caller, not more: accepted)
            ok = got == want or (f in ("_data", "_col_names") and want.startswith("param:") and got in (
                f"call:list({want})", f"call:dict({want})", f"other:{want[6:]}.copy()"))
            if not ok and got is not None and got.startswith(("other:", "call:")):
                # an expression this reading cannot judge (it may well be right): outside the subset, the run-time part decides
                raise Unsupported(f"{f} receives {got[6:] if got.startswith('other:') else got[5:]}")
            obls.append(Obligation(f"{base}#field:{f}-holds-{want}" + ("" if ok else f"--the-code-stores-{got}"), "post", [], z3.BoolVal(ok),
                                   c.qualname, fdef.lineno))
        extra = sorted(k for k in set(final) - set(WANT) - set(VIEWS) if final[k] != "None")
        if any(final[k].startswith(("other:", "call:", "param:")) for k in extra):
            raise Unsupported("further attributes stored: " + ", ".join(extra))
        obls.append(Obligation(f"{base}#no-other-store" + ("" if not extra else "--also-stored:" + ",".join(extra)), "frame", [], z3.BoolVal(not extra), c.qualname, fdef.lineno))
        return obls


CTOR = Contract(module=M, qualname="Table.__init__", params={}, min_obligations=12, extra=dict(engine=CtorEngine, variant="unchecked"),
                note="the verify=False path of the constructor: arguments stored as given, no lookup tables")
CONTRACTS = []
VARIANTS = [CTOR]
