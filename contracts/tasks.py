"""Sidecar contracts for xdeps/tasks.py (DESIGN.md sections 3 and 4: C02, C03, C01, C17, C18).

Abstract view of a Manager
  tasks     : dict taskid -> task            (PyMap: dom, val)
  rdeps, rtasks, deptasks, tartasks : defaultdict(RefCount) = total maps V -> V -> Int
  _tree_frozen : bool
Task objects are opaque values with three immutable fields read through
uninterpreted functions: taskid, dependencies (set), targets (set) -- the
assumption "a task's dependency/target sets are not mutated after registration"
is exactly what makes these functions of the task value.
"""
import z3
from pyvc.values import *          # noqa
from pyvc.values import DD_R
from pyvc.contract import Contract, LoopSpec
from contracts import sorting as S

M = "xdeps/tasks.py"
x, y, d, t, w, r = z3.Consts("x!t y!t d!t t!t w!t r!t", V)
i, j = z3.Ints("i!t j!t")

task_id = z3.Function("task_id", V, V)
task_deps = z3.Function("task_deps", V, z3.ArraySort(V, BoolS))
task_tars = z3.Function("task_tars", V, z3.ArraySort(V, BoolS))

TTask = TObj("Task")

MGR_FIELDS = dict(tasks=TMap(TTask), containers=TMap(TV), rdeps=TDDict, rtasks=TDDict,
                  deptasks=TDDict, tartasks=TDDict, _tree_frozen=TBool)
TMgr = TRec("Manager", MGR_FIELDS)


def setup(reg):
    reg.add_field("Task", "taskid", TV, lambda o, cx: PyObj(task_id(o.t)))
    reg.add_field("Task", "dependencies", TSet, lambda o, cx: PySet(task_deps(o.t)))
    reg.add_field("Task", "targets", TSet, lambda o, cx: PySet(task_tars(o.t)))
    for sub in ("ExprTask", "FunctionTask", "LinearKnob"):
        reg.bases[sub] = ["Task"]


def deps(tk):
    return lambda v: z3.Select(task_deps(tk), v)


def tars(tk):
    return lambda v: z3.Select(task_tars(tk), v)


# ---------------------------------------------------------------- well-formedness
def keys_ok(m):
    """tasks[k].taskid == k for every registered k"""
    return z3.ForAll([t], z3.Implies(m.tasks.has(t), task_id(m.tasks.get(t)) == t), patterns=[m.tasks.get(t)])


def registered_supports(m):
    """every task id occurring in deptasks / rtasks is a registered task (consequence of IdxWF)"""
    return z3.And(
        z3.ForAll([d, t], z3.Implies(m.deptasks.cnt(d, t) > 0, m.tasks.has(t)), patterns=[m.deptasks.cnt(d, t)]),
        z3.ForAll([w, r], z3.Implies(m.rtasks.cnt(w, r) > 0, z3.And(m.tasks.has(w), m.tasks.has(r))),
                  patterns=[m.rtasks.cnt(w, r)]))


# ------------------------------------------------------------------ find_taskids
def start_of(m, start_deps):
    """x is a start task  <=>  some d in start_deps has x among deptasks[d]"""
    return lambda v: z3.Exists([d], z3.And(start_deps.has(d), m.deptasks.cnt(d, v) > 0))


def topo_post_counts(m, start_pred, res, stack, pos, P):
    """the statement of C02 for the ordering walk, phrased over index *counts*
    (independent of the enumeration order of any set or dict)"""
    A = m.rtasks
    R = lambda a, b: DD_R(A.arr, a, b)
    inres = lambda v: S.in_stack(stack, pos, v)
    return [
        ("result-is-stack", z3.And(res.n == stack.hi - stack.lo, res.n >= 0,
                                   z3.ForAll([i], z3.Implies(z3.And(0 <= i, i < res.n),
                                                             res.at(i) == stack.at(stack.lo + i)),
                                             patterns=[res.at(i)]))),
        ("each-once", z3.ForAll([i, j], z3.Implies(z3.And(0 <= i, i < j, j < res.n), res.at(i) != res.at(j)))),
        ("positions", S.wf_positions(stack, pos)),
        ("contains-start", z3.ForAll([x], z3.Implies(start_pred(x), inres(x)))),
        ("closed-under-edges", z3.ForAll([x, y], z3.Implies(z3.And(inres(x), A.cnt(x, y) > 0), inres(y)),
                                         patterns=[A.cnt(x, y)])),
        ("only-reachable", z3.ForAll([i], z3.Implies(
            z3.And(stack.lo <= i, i < stack.hi),
            z3.Exists([y], z3.And(start_pred(y), R(y, stack.at(i))))), patterns=[stack.at(i)])),
        ("dependency-order", z3.ForAll([x, y], z3.Implies(
            z3.And(inres(x), A.cnt(x, y) > 0),
            z3.Or(pos.cnt(y) > pos.cnt(x), R(y, x))), patterns=[A.cnt(x, y)])),
        ("within-P", z3.ForAll([i], z3.Implies(z3.And(stack.lo <= i, i < stack.hi), P.has(stack.at(i))),
                               patterns=[stack.at(i)])),
    ]


def _ft_ens(label):
    def f(o, n, res):
        clauses = dict(topo_post_counts(o.self, start_of(o.self, o.start_deps), res, n.stack, n.pos, o.P))
        return clauses[label]
    return (label, f)


TOPO_LABELS = ["result-is-stack", "each-once", "positions", "contains-start", "closed-under-edges",
               "only-reachable", "dependency-order", "within-P"]


def p_ok(s):
    """ghost P contains the start tasks and is closed under the ordering edges"""
    m = s.self
    return z3.And(
        z3.ForAll([d, t], z3.Implies(z3.And(s.start_deps.has(d), m.deptasks.cnt(d, t) > 0), s.P.has(t)),
                  patterns=[m.deptasks.cnt(d, t)]),
        z3.ForAll([x, y], z3.Implies(z3.And(s.P.has(x), m.rtasks.cnt(x, y) > 0), s.P.has(y)),
                  patterns=[m.rtasks.cnt(x, y)]))

FIND_TASKIDS = Contract(
    module=M, qualname="Manager.find_taskids",
    params=dict(self=TMgr, start_deps=TSet),
    ghost=dict(pos=TCount, stack=TDeque(TV), P=TSet),
    result=TSeq(TV),
    requires=[("P-ok", p_ok)],
    ensures=[_ft_ens(lb) for lb in TOPO_LABELS],
    call_ghost={("toposort", None): lambda st, pre: dict(P=pre.P)},
    modifies=("pos", "stack"),
    loops={0: LoopSpec(
        anchor="start_deps",
        invariants=[
            ("start-prefix", lambda L: z3.ForAll([x], L.cur.start_tasks.has(x) == z3.Exists(
                [d], z3.And(L.old.start_deps.has(d), L.idx(d) < L.k, L.old.self.deptasks.cnt(d, x) > 0)),
                patterns=[L.cur.start_tasks.has(x)])),
            ("index", lambda L: z3.And(0 <= L.k, L.k <= L.n)),
        ])},
    extra=dict(ghost_writeback={"pos": "pos", "stack": "stack"},
               param_note="start_deps declared a set (what set_value passes); the None default is a separate entry"),
    min_obligations=8,
)

# -------------------------------------------------------------------- find_tasks
FIND_TASKS = Contract(
    module=M, qualname="Manager.find_tasks",
    params=dict(self=TMgr, start_deps=TSet),
    ghost=dict(pos=TCount, stack=TDeque(TV), ids=TSeq(TV)),
    result=TSeq(TTask),
    requires=[("keys", lambda s: keys_ok(s.self)),
              ("supports-registered", lambda s: registered_supports(s.self))],
    ensures=[(lb, (lambda lb_: lambda o, n, res: dict(topo_post_counts(
        o.self, start_of(o.self, o.start_deps), n.ids, n.stack, n.pos,
        PySet(o.self.tasks.dom)))[lb_])(lb)) for lb in TOPO_LABELS] + [
        ("tasks-of-ids", lambda o, n, res: z3.And(res.n == n.ids.n, z3.ForAll([i], z3.Implies(
            z3.And(0 <= i, i < res.n),
            z3.And(o.self.tasks.has(n.ids.at(i)), res.at(i) == o.self.tasks.get(n.ids.at(i)))),
            patterns=[res.at(i)]))),
    ],
    modifies=("pos", "stack", "ids"),
    call_ghost={("Manager.find_taskids", None): lambda st, pre: dict(P=PySet(pre.self.tasks.dom))},
    extra=dict(ghost_writeback={"pos": "pos", "stack": "stack"},
               comp_result_ghost={0: "ids"}),
    min_obligations=8,
)

CONTRACTS = [FIND_TASKIDS, FIND_TASKS]
