"""Sidecar contracts for xdeps/tasks.py (DESIGN.md sections 3 and 4: C02, C03, C01, C17, C18).

Abstract view of a Manager
  tasks     : dict taskid -> task            (PyMap: dom, val)
  rdeps, rtasks, deptasks, tartasks : defaultdict(RefCount) = total maps V -> V -> Int
  _tree_frozen : bool
Task objects are opaque values with three immutable fields read through
uninterpreted functions: taskid, dependencies (set), targets (set) -- the
assumption "a task's dependency/target sets are not mutated after registration"
is exactly what makes these functions of the task value.
"""
import z3
from pyvc.values import *          # noqa
from pyvc.values import DD_R
from pyvc.contract import Contract, LoopSpec
from contracts import sorting as S

M = "xdeps/tasks.py"
x, y, d, t, w, r = z3.Consts("x!t y!t d!t t!t w!t r!t", V)
i, j = z3.Ints("i!t j!t")

task_id = z3.Function("task_id", V, V)
task_deps = z3.Function("task_deps", V, z3.ArraySort(V, BoolS))
task_tars = z3.Function("task_tars", V, z3.ArraySort(V, BoolS))

TTask = TObj("Task")

MGR_FIELDS = dict(tasks=TMap(TTask), containers=TMap(TV), rdeps=TDDict, rtasks=TDDict,
                  deptasks=TDDict, tartasks=TDDict, _tree_frozen=TBool)
TMgr = TRec("Manager", MGR_FIELDS)


def setup(reg):
    reg.add_field("Task", "taskid", TV, lambda o, cx: PyObj(task_id(o.t)))
    reg.add_field("Task", "dependencies", TSet, lambda o, cx: PySet(task_deps(o.t)))
    reg.add_field("Task", "targets", TSet, lambda o, cx: PySet(task_tars(o.t)))
    for sub in ("ExprTask", "FunctionTask", "LinearKnob"):
        reg.bases[sub] = ["Task"]


def deps(tk):
    return lambda v: z3.Select(task_deps(tk), v)


def tars(tk):
    return lambda v: z3.Select(task_tars(tk), v)


# ---------------------------------------------------------------- well-formedness
def keys_ok(m):
    """tasks[k].taskid == k for every registered k"""
    return z3.ForAll([t], z3.Implies(m.tasks.has(t), task_id(m.tasks.get(t)) == t), patterns=[m.tasks.get(t)])


def registered_supports(m):
    """every task id occurring in deptasks / rtasks is a registered task (consequence of IdxWF)"""
    return z3.And(
        z3.ForAll([d, t], z3.Implies(m.deptasks.cnt(d, t) > 0, m.tasks.has(t)), patterns=[m.deptasks.cnt(d, t)]),
        z3.ForAll([w, r], z3.Implies(m.rtasks.cnt(w, r) > 0, z3.And(m.tasks.has(w), m.tasks.has(r))),
                  patterns=[m.rtasks.cnt(w, r)]))


# ------------------------------------------------------------------ find_taskids
def start_of(m, start_deps):
    """x is a start task  <=>  some d in start_deps has x among deptasks[d]"""
    return lambda v: z3.Exists([d], z3.And(start_deps.has(d), m.deptasks.cnt(d, v) > 0))


def topo_post_counts(m, start_pred, res, stack, pos, P):
    """the statement of C02 for the ordering walk, phrased over index *counts*
    (independent of the enumeration order of any set or dict)"""
    A = m.rtasks
    R = lambda a, b: DD_R(A.arr, a, b)
    inres = lambda v: S.in_stack(stack, pos, v)
    return [
        ("result-is-stack", z3.And(res.n == stack.hi - stack.lo, res.n >= 0,
                                   z3.ForAll([i], z3.Implies(z3.And(0 <= i, i < res.n),
                                                             res.at(i) == stack.at(stack.lo + i)),
                                             patterns=[res.at(i)]))),
        ("each-once", z3.ForAll([i, j], z3.Implies(z3.And(0 <= i, i < j, j < res.n), res.at(i) != res.at(j)))),
        ("positions", S.wf_positions(stack, pos)),
        ("contains-start", z3.ForAll([x], z3.Implies(start_pred(x), inres(x)))),
        ("closed-under-edges", z3.ForAll([x, y], z3.Implies(z3.And(inres(x), A.cnt(x, y) > 0), inres(y)),
                                         patterns=[A.cnt(x, y)])),
        ("only-reachable", z3.ForAll([i], z3.Implies(
            z3.And(stack.lo <= i, i < stack.hi),
            z3.Exists([y], z3.And(start_pred(y), R(y, stack.at(i))))), patterns=[stack.at(i)])),
        ("dependency-order", z3.ForAll([x, y], z3.Implies(
            z3.And(inres(x), A.cnt(x, y) > 0),
            z3.Or(pos.cnt(y) > pos.cnt(x), R(y, x))), patterns=[A.cnt(x, y)])),
        ("within-P", z3.ForAll([i], z3.Implies(z3.And(stack.lo <= i, i < stack.hi), P.has(stack.at(i))),
                               patterns=[stack.at(i)])),
    ]


def _ft_ens(label):
    def f(o, n, res):
        clauses = dict(topo_post_counts(o.self, start_of(o.self, o.start_deps), res, n.stack, n.pos, o.P))
        return clauses[label]
    return (label, f)


TOPO_LABELS = ["result-is-stack", "each-once", "positions", "contains-start", "closed-under-edges",
               "only-reachable", "dependency-order", "within-P"]


def p_ok(s):
    """ghost P contains the start tasks and is closed under the ordering edges"""
    m = s.self
    return z3.And(
        z3.ForAll([d, t], z3.Implies(z3.And(s.start_deps.has(d), m.deptasks.cnt(d, t) > 0), s.P.has(t)),
                  patterns=[m.deptasks.cnt(d, t)]),
        z3.ForAll([x, y], z3.Implies(z3.And(s.P.has(x), m.rtasks.cnt(x, y) > 0), s.P.has(y)),
                  patterns=[m.rtasks.cnt(x, y)]))

FIND_TASKIDS = Contract(
    module=M, qualname="Manager.find_taskids",
    params=dict(self=TMgr, start_deps=TSet),
    ghost=dict(pos=TCount, stack=TDeque(TV), P=TSet),
    result=TSeq(TV),
    requires=[("P-ok", p_ok)],
    ensures=[_ft_ens(lb) for lb in TOPO_LABELS],
    call_ghost={("toposort", None): lambda st, pre: dict(P=pre.P)},
    modifies=("pos", "stack"),
    loops={0: LoopSpec(
        anchor="start_deps",
        invariants=[
            ("start-prefix", lambda L: z3.ForAll([x], L.cur.start_tasks.has(x) == z3.Exists(
                [d], z3.And(L.old.start_deps.has(d), L.idx(d) < L.k, L.old.self.deptasks.cnt(d, x) > 0)),
                patterns=[L.cur.start_tasks.has(x)])),
            ("index", lambda L: z3.And(0 <= L.k, L.k <= L.n)),
        ])},
    extra=dict(ghost_writeback={"pos": "pos", "stack": "stack"},
               param_note="start_deps declared a set (what set_value passes); the None default is a separate entry"),
    min_obligations=8,
)

# -------------------------------------------------------------------- find_tasks
FIND_TASKS = Contract(
    module=M, qualname="Manager.find_tasks",
    params=dict(self=TMgr, start_deps=TSet),
    ghost=dict(pos=TCount, stack=TDeque(TV), ids=TSeq(TV)),
    result=TSeq(TTask),
    requires=[("keys", lambda s: keys_ok(s.self)),
              ("supports-registered", lambda s: registered_supports(s.self))],
    ensures=[(lb, (lambda lb_: lambda o, n, res: dict(topo_post_counts(
        o.self, start_of(o.self, o.start_deps), n.ids, n.stack, n.pos,
        PySet(o.self.tasks.dom)))[lb_])(lb)) for lb in TOPO_LABELS] + [
        ("tasks-of-ids", lambda o, n, res: z3.And(res.n == n.ids.n, z3.ForAll([i], z3.Implies(
            z3.And(0 <= i, i < res.n),
            z3.And(o.self.tasks.has(n.ids.at(i)), res.at(i) == o.self.tasks.get(n.ids.at(i)))),
            patterns=[res.at(i)]))),
    ],
    modifies=("pos", "stack", "ids"),
    call_ghost={("Manager.find_taskids", None): lambda st, pre: dict(P=PySet(pre.self.tasks.dom))},
    extra=dict(ghost_writeback={"pos": "pos", "stack": "stack"},
               comp_result_ghost={0: "ids"}),
    min_obligations=8,
)

CONTRACTS = [FIND_TASKIDS, FIND_TASKS]


# =====================================================================================
# C03: register / unregister keep the four indices equal to F(registered tasks)
# =====================================================================================
from contracts.refcount import CONTRACTS as _RC      # noqa: E402  (callee contracts)

# c(W, R) = |targets(W) n dependencies(R)|   (number of locations through which W feeds R)
card = z3.Function("card_targets_deps", V, V, IntS)
# rdsum(dom, val, d, x) = #{ t in dom : d in deps(val t) and x in targets(val t) }   (finite sum)
_AB, _AV = z3.ArraySort(V, BoolS), z3.ArraySort(V, V)
rdsum = z3.Function("rdeps_sum", _AB, _AV, V, V, IntS)


def ind(tk, dd, xx):
    return z3.If(z3.And(deps(tk)(dd), tars(tk)(xx)), 1, 0)


def b2i(b):
    return z3.If(b, 1, 0)


def idx_wf(m):
    """IdxWF(M): indices(M) == F(dom M.tasks) pointwise on counts (DESIGN section 3)."""
    has, val = m.tasks.has, m.tasks.get
    return [
        ("keys", keys_ok(m)),
        ("deptasks=F", z3.ForAll([d, t], m.deptasks.cnt(d, t) == b2i(z3.And(has(t), deps(val(t))(d))))),
        ("tartasks=F", z3.ForAll([r, t], m.tartasks.cnt(r, t) == b2i(z3.And(has(t), tars(val(t))(r))))),
        ("rtasks=F", z3.ForAll([w, r], m.rtasks.cnt(w, r) == z3.If(z3.And(has(w), has(r)), card(val(w), val(r)), 0))),
        ("rdeps=F", z3.ForAll([d, x], m.rdeps.cnt(d, x) == rdsum(m.tasks.dom, m.tasks.val, d, x))),
    ]


def idx_wf_all(m):
    return z3.And(*[f for _, f in idx_wf(m)])


def card_axioms():
    return [z3.ForAll([w, r], card(w, r) >= 0, patterns=[card(w, r)])]


def rdsum_lower(m):
    """a finite sum of 0/1 terms is >= 0 and >= each of its terms (definition of rdsum)"""
    return z3.And(
        z3.ForAll([d, x], rdsum(m.tasks.dom, m.tasks.val, d, x) >= 0),
        z3.ForAll([t, d, x], z3.Implies(m.tasks.has(t),
                                        rdsum(m.tasks.dom, m.tasks.val, d, x) >= ind(m.tasks.get(t), d, x))))


def rdsum_add(m, key, tk):
    """rdsum over dom+{key} (key fresh, bound to tk) = rdsum over dom + the new term"""
    dom1 = z3.Store(m.tasks.dom, key, z3.BoolVal(True))
    val1 = z3.Store(m.tasks.val, key, tk)
    return z3.ForAll([d, x], z3.Implies(z3.Not(m.tasks.has(key)),
                                        rdsum(dom1, val1, d, x) == rdsum(m.tasks.dom, m.tasks.val, d, x) + ind(tk, d, x)))


def rdsum_del(m, key):
    dom1 = z3.Store(m.tasks.dom, key, z3.BoolVal(False))
    return z3.ForAll([d, x], z3.Implies(m.tasks.has(key),
                                        rdsum(dom1, m.tasks.val, d, x)
                                        == rdsum(m.tasks.dom, m.tasks.val, d, x) - ind(m.tasks.get(key), d, x)))


def prefix_count(st, enum, pred, hint):
    """spec function pc(v, a) = #{ j < a : pred(v, enum[j]) } with its defining axioms
    (base, step) and monotonicity (a consequence, stated because the solver does no induction)."""
    pc = FreshFun(hint, V, IntS, IntS)
    a, b = z3.Ints("a!pc b!pc")
    v = z3.Const("v!pc", V)
    st.hyps += [
        z3.ForAll([v], pc(v, 0) == 0, patterns=[pc(v, 0)]),
        z3.ForAll([v, a], z3.Implies(z3.And(0 <= a, a < enum.n),
                                     pc(v, a + 1) == pc(v, a) + b2i(pred(v, enum.at(a)))),
                  patterns=[pc(v, a + 1)]),
        z3.ForAll([v, a, b], z3.Implies(z3.And(0 <= a, a <= b, b <= enum.n), pc(v, a) <= pc(v, b)),
                  patterns=[z3.MultiPattern(pc(v, a), pc(v, b))]),
        z3.ForAll([v, a], z3.Implies(z3.And(0 <= a, a <= enum.n), z3.And(0 <= pc(v, a), pc(v, a) <= pc(v, enum.n))),
                  patterns=[pc(v, a)]),
    ]
    return pc


LEMMA_COUNT = ("counting lemma (lemmas/Counting.lean): for a duplicate-free enumeration e of a finite set A and a set B, "
               "#{j < |A| : e(j) in B} = |A n B|, and |A n B| = |B n A|")


# ---------------------------------------------------------------------------- register
# The contract is generated for two notions of "the registered tasks":
#   plain   : S = the keys of self.tasks                       (Manager.register, what set_value / load rely on)
#   rebuild : S = a ghost set of task ids, handed in and out   (Manager.register@rebuild: refresh() and clone() re-register
#             task after task while `tasks` may already be complete; the indices equal F(S) for the ids registered SO FAR)
# Everything else -- loop invariants, lemma instances, frame -- is the same text with S substituted.
class _Reg:
    def __init__(self, ghost_S):
        self.ghost_S = ghost_S

    def S(self, s):
        """(has, dom array) of the registered ids in state s"""
        if self.ghost_S:
            return s.S.has, s.S.arr
        return s.self.tasks.has, s.self.tasks.dom

    def pre(self, s):
        return s.self, s.task.t, task_id(s.task.t)

    def wf(self, m, has, dom):
        val = m.tasks.get
        return [
            ("keys", z3.ForAll([t], z3.Implies(has(t), task_id(val(t)) == t), patterns=[val(t)])),
            ("deptasks=F", z3.ForAll([d, t], m.deptasks.cnt(d, t) == b2i(z3.And(has(t), deps(val(t))(d))))),
            ("tartasks=F", z3.ForAll([r, t], m.tartasks.cnt(r, t) == b2i(z3.And(has(t), tars(val(t))(r))))),
            ("rtasks=F", z3.ForAll([w, r], m.rtasks.cnt(w, r) == z3.If(z3.And(has(w), has(r)), card(val(w), val(r)), 0))),
            ("rdeps=F", z3.ForAll([d, x], m.rdeps.cnt(d, x) == rdsum(dom, m.tasks.val, d, x))),
        ]

    def rdsum_lower(self, s):
        m = s.self
        has, dom = self.S(s)
        return z3.And(
            z3.ForAll([d, x], rdsum(dom, m.tasks.val, d, x) >= 0),
            z3.ForAll([t, d, x], z3.Implies(has(t), rdsum(dom, m.tasks.val, d, x) >= ind(m.tasks.get(t), d, x))))

    def rdsum_add(self, s):
        m, tk, key = self.pre(s)
        has, dom = self.S(s)
        dom1 = z3.Store(dom, key, z3.BoolVal(True))
        val1 = z3.Store(m.tasks.val, key, tk)
        return z3.ForAll([d, x], z3.Implies(z3.Not(has(key)),
                                            rdsum(dom1, val1, d, x) == rdsum(dom, m.tasks.val, d, x) + ind(tk, d, x)))

    def setup0(self, L, st):
        m0, tk, tid = self.pre(L.old)
        pcR = prefix_count(st, L.enum, lambda v, e: tars(m0.tasks.get(v))(e), "pcR")
        # counting lemma instance: enum = dependencies(task), B = targets(T0 v)
        v = z3.Const("v!l", V)
        st.hyps.append(z3.ForAll([v], pcR(v, L.n) == card(m0.tasks.get(v), tk), patterns=[pcR(v, L.n)]))
        L.eng.lemma_uses.append(LEMMA_COUNT)
        return dict(pcR=pcR)

    def setup2(self, L, st):
        m0, tk, tid = self.pre(L.old)
        val1 = lambda v: z3.If(v == tid, tk, m0.tasks.get(v))
        qcD = prefix_count(st, L.enum, lambda v, e: deps(val1(v))(e), "qcD")
        v = z3.Const("v!l", V)
        st.hyps.append(z3.ForAll([v], qcD(v, L.n) == card(tk, val1(v)), patterns=[qcD(v, L.n)]))
        L.eng.lemma_uses.append(LEMMA_COUNT)
        return dict(qcD=qcD, val1=val1)

    def inv0(self):
        def rdeps(L):
            m0, tk, tid = self.pre(L.old)
            return z3.ForAll([d, x], L.cur.self.rdeps.cnt(d, x) == m0.rdeps.cnt(d, x)
                             + b2i(z3.And(deps(tk)(d), L.idx(d) < L.k, tars(tk)(x))))

        def deptasks(L):
            m0, tk, tid = self.pre(L.old)
            return z3.ForAll([d, t], L.cur.self.deptasks.cnt(d, t) == m0.deptasks.cnt(d, t)
                             + b2i(z3.And(deps(tk)(d), L.idx(d) < L.k, t == tid)))

        def rtasks(L):
            m0, tk, tid = self.pre(L.old)
            has0, _ = self.S(L.old)
            return z3.ForAll([w, r], L.cur.self.rtasks.cnt(w, r) == m0.rtasks.cnt(w, r)
                             + z3.If(z3.And(r == tid, has0(w)), L.x["pcR"](w, L.k), 0))
        return [("rdeps+prefix", rdeps), ("deptasks+prefix", deptasks), ("rtasks+prefixcount", rtasks),
                ("index", lambda L: z3.And(0 <= L.k, L.k <= L.n))]

    def inv1(self):
        def rtasks(L):
            m0, tk, tid = self.pre(L.old)
            dep = L.cur.dep.t
            return z3.ForAll([w, r], L.cur.self.rtasks.cnt(w, r) == L.pre.self.rtasks.cnt(w, r)
                             + b2i(z3.And(r == tid, m0.tartasks.cnt(dep, w) > 0, L.idx(w) < L.k)))
        return [("rtasks+inner-prefix", rtasks), ("index", lambda L: z3.And(0 <= L.k, L.k <= L.n))]

    def inv2(self):
        def tartasks(L):
            m0, tk, tid = self.pre(L.old)
            return z3.ForAll([r, t], L.cur.self.tartasks.cnt(r, t) == m0.tartasks.cnt(r, t)
                             + b2i(z3.And(tars(tk)(r), L.idx(r) < L.k, t == tid)))

        def rtasks(L):
            m0, tk, tid = self.pre(L.old)
            has0, _ = self.S(L.old)
            has1 = lambda v: z3.Or(v == tid, has0(v))
            return z3.ForAll([w, r], L.cur.self.rtasks.cnt(w, r) == L.pre.self.rtasks.cnt(w, r)
                             + z3.If(z3.And(w == tid, has1(r)), L.x["qcD"](r, L.k), 0))
        return [("tartasks+prefix", tartasks), ("rtasks+prefixcount", rtasks),
                ("index", lambda L: z3.And(0 <= L.k, L.k <= L.n))]

    def inv3(self):
        def rtasks(L):
            m0, tk, tid = self.pre(L.old)
            return z3.ForAll([w, r], L.cur.self.rtasks.cnt(w, r) == L.pre.self.rtasks.cnt(w, r)
                             + b2i(z3.And(w == tid, L.cur.other.cnt(r) > 0, L.idx(r) < L.k)))
        return [("rtasks+inner-prefix", rtasks), ("index", lambda L: z3.And(0 <= L.k, L.k <= L.n))]

    def contract(self):
        G = self
        labels = ("keys", "deptasks=F", "tartasks=F", "rtasks=F", "rdeps=F")

        def req(lb):
            return lambda s: dict(G.wf(s.self, *G.S(s)))[lb]

        def ens(lb):
            return lambda o, n, r: dict(G.wf(n.self, *G.S(n)))[lb]
        ensures = [("tasks+task", lambda o, n, r: z3.And(
            n.self.tasks.dom == z3.Store(o.self.tasks.dom, task_id(o.task.t), z3.BoolVal(True)),
            n.self.tasks.val == z3.Store(o.self.tasks.val, task_id(o.task.t), o.task.t)))]
        if self.ghost_S:
            ensures.append(("S+task", lambda o, n, r: n.S.arr == z3.Store(o.S.arr, task_id(o.task.t), z3.BoolVal(True))))
        ensures += [(lb, ens(lb)) for lb in labels]
        extra = dict(trusted_lemmas=[LEMMA_COUNT, "rdeps_sum is a finite sum of 0/1 terms: adding/removing one summand "
                                                  "changes it by that summand; it dominates each summand"])
        if self.ghost_S:
            extra["variant"] = "rebuild"
            # ghost update: the id joins S where the real code files the task under it
            extra["ghost_after"] = {"self.tasks[taskid] = task": lambda ns, st: st.env.__setitem__(
                "S", PySet(z3.Store(ns.S.arr, ns.taskid.t, z3.BoolVal(True))))}
        return Contract(
            module=M, qualname="Manager.register",
            params=dict(self=TMgr, task=TTask),
            ghost=dict(S=TSet) if self.ghost_S else {},
            requires=[(lb, req(lb)) for lb in labels] + [
                ("taskid-not-registered", lambda s: z3.Or(s.self._tree_frozen.t, z3.Not(G.S(s)[0](task_id(s.task.t))))),
            ],
            axioms=[lambda s: z3.And(*card_axioms()), self.rdsum_lower, self.rdsum_add],
            ensures=ensures,
            raises={"ValueError": dict(when=lambda s: s.self._tree_frozen.t, exact=True, post=[], modifies=())},
            modifies=("self.tasks", "self.rdeps", "self.rtasks", "self.deptasks", "self.tartasks") + (("S",) if self.ghost_S else ()),
            loops={
                0: LoopSpec(anchor="task.dependencies", invariants=self.inv0(), setup=self.setup0),
                1: LoopSpec(anchor="self.tartasks[dep]", invariants=self.inv1()),
                2: LoopSpec(anchor="task.targets", invariants=self.inv2(), setup=self.setup2),
                3: LoopSpec(anchor="other", invariants=self.inv3()),
            },
            min_obligations=25,
            extra=extra,
            note=("indices == F(S) for a ghost set S of registered ids (the ids re-registered so far by refresh / clone); "
                  "S gains the task's id" if self.ghost_S else ""),
        )


FROZEN_MSG_FIELDS = ("tasks", "containers", "rdeps", "rtasks", "deptasks", "tartasks", "_tree_frozen")

REGISTER = _Reg(False).contract()
REGISTER_REBUILD = _Reg(True).contract()


def _reg_pre(s):
    return s.self, s.task.t, task_id(s.task.t)


CONTRACTS += [REGISTER]
VARIANTS = [REGISTER_REBUILD]


# -------------------------------------------------------------------------- unregister
def _unr_pre(s):
    m0 = s.self
    tid = s.taskid.t
    return m0, m0.tasks.get(tid), tid


def _unr_setup0(L, st):
    m0, tk, tid = _unr_pre(L.old)
    pcR = prefix_count(st, L.enum, lambda v, e: tars(m0.tasks.get(v))(e), "pcRu")
    v = z3.Const("v!l", V)
    st.hyps.append(z3.ForAll([v], pcR(v, L.n) == card(m0.tasks.get(v), tk), patterns=[pcR(v, L.n)]))
    L.eng.lemma_uses.append(LEMMA_COUNT)
    return dict(pcR=pcR)


def _unr_inv0():
    def rdeps(L):
        m0, tk, tid = _unr_pre(L.old)
        return z3.ForAll([d, x], L.cur.self.rdeps.cnt(d, x) == m0.rdeps.cnt(d, x)
                         - b2i(z3.And(deps(tk)(d), L.idx(d) < L.k, tars(tk)(x))))

    def deptasks(L):
        m0, tk, tid = _unr_pre(L.old)
        return z3.ForAll([d, t], L.cur.self.deptasks.cnt(d, t) == m0.deptasks.cnt(d, t)
                         - b2i(z3.And(deps(tk)(d), L.idx(d) < L.k, t == tid)))

    def rtasks(L):
        m0, tk, tid = _unr_pre(L.old)
        return z3.ForAll([w, r], L.cur.self.rtasks.cnt(w, r) == m0.rtasks.cnt(w, r)
                         - z3.If(z3.And(r == tid, m0.tasks.has(w)), L.x["pcR"](w, L.k), 0))
    return [("rdeps-prefix", rdeps), ("deptasks-prefix", deptasks), ("rtasks-prefixcount", rtasks),
            ("task-bound", lambda L: L.cur.task.t == _unr_pre(L.old)[1]),
            ("index", lambda L: z3.And(0 <= L.k, L.k <= L.n))]


def _unr_inv1():
    def rdeps(L):
        m0, tk, tid = _unr_pre(L.old)
        dep = L.cur.dep.t
        return z3.ForAll([d, x], L.cur.self.rdeps.cnt(d, x) == L.pre.self.rdeps.cnt(d, x)
                         - b2i(z3.And(d == dep, tars(tk)(x), L.idx(x) < L.k)))
    return [("rdeps-inner-prefix", rdeps), ("index", lambda L: z3.And(0 <= L.k, L.k <= L.n))]


def _unr_inv2():
    def rtasks(L):
        m0, tk, tid = _unr_pre(L.old)
        dep = L.cur.dep.t
        return z3.ForAll([w, r], L.cur.self.rtasks.cnt(w, r) == L.pre.self.rtasks.cnt(w, r)
                         - b2i(z3.And(r == tid, m0.tartasks.cnt(dep, w) > 0, L.idx(w) < L.k)))
    def hint(L):
        # instantiation hint (a consequence of the prefix-count step axiom): the writers of `dep`
        # are exactly the tasks whose count grows at this position of the outer enumeration
        m0, tk, tid = _unr_pre(L.old)
        dep, a, pcR = L.cur.dep.t, L.K[0], L.X[0]["pcR"]
        return z3.ForAll([w], z3.Implies(m0.tartasks.cnt(dep, w) > 0,
                                         z3.And(pcR(w, a + 1) == pcR(w, a) + 1, pcR(w, a + 1) <= pcR(w, L.IT[0].n))),
                         patterns=[m0.tartasks.cnt(dep, w)])
    return [("rtasks-inner-prefix", rtasks), ("count-step-hint", hint),
            ("index", lambda L: z3.And(0 <= L.k, L.k <= L.n))]


def _unr_inv3():
    def tartasks(L):
        m0, tk, tid = _unr_pre(L.old)
        return z3.ForAll([r, t], L.cur.self.tartasks.cnt(r, t) == m0.tartasks.cnt(r, t)
                         - b2i(z3.And(tars(tk)(r), L.idx(r) < L.k, t == tid)))
    return [("tartasks-prefix", tartasks), ("index", lambda L: z3.And(0 <= L.k, L.k <= L.n))]


UNREGISTER = Contract(
    module=M, qualname="Manager.unregister",
    params=dict(self=TMgr, taskid=TV),
    requires=[(lb, (lambda lb_: lambda s: dict(idx_wf(s.self))[lb_])(lb)) for lb in
              ("keys", "deptasks=F", "tartasks=F", "rtasks=F", "rdeps=F")],
    axioms=[lambda s: z3.And(*card_axioms()),
            lambda s: rdsum_lower(s.self),
            lambda s: rdsum_del(s.self, s.taskid.t)],
    ensures=[("tasks-task", lambda o, n, r: z3.And(
        n.self.tasks.dom == z3.Store(o.self.tasks.dom, o.taskid.t, z3.BoolVal(False)),
        n.self.tasks.val == o.self.tasks.val))] + [
        (lb, (lambda lb_: lambda o, n, r: dict(idx_wf(n.self))[lb_])(lb)) for lb in
        ("keys", "deptasks=F", "tartasks=F", "rtasks=F", "rdeps=F")],
    raises={"ValueError": dict(when=lambda s: s.self._tree_frozen.t, exact=True, post=[], modifies=()),
            "KeyError": dict(when=lambda s: z3.And(z3.Not(s.self._tree_frozen.t), z3.Not(s.self.tasks.has(s.taskid.t))),
                             exact=True, post=[], modifies=())},
    modifies=("self.tasks", "self.rdeps", "self.rtasks", "self.deptasks", "self.tartasks"),
    loops={
        0: LoopSpec(anchor="task.dependencies", invariants=_unr_inv0(), setup=_unr_setup0),
        1: LoopSpec(anchor="task.targets", invariants=_unr_inv1()),
        2: LoopSpec(anchor="self.tartasks[dep]", invariants=_unr_inv2()),
        3: LoopSpec(anchor="task.targets", invariants=_unr_inv3()),
    },
    min_obligations=25,
    extra=dict(trusted_lemmas=[LEMMA_COUNT]),
)

CONTRACTS += [UNREGISTER]
