"""C07: which row a DESIGNATOR resolves to -- Table._get_row_index, and the entry points that hand their argument to it
(Table.__floordiv__, _RowView.get_index).

  row given as an int                      -> that position
  row given as a string                    -> (name, count, offset) = what _split_name_count_offset makes of the text  [parsing: assumed, run-time checked]
  row given as a tuple (name, count)       -> offset 0
  row given as a tuple (name, count, off)
and then, on the CURRENT index column: the position of the count-th occurrence of the name (negative counts from the last one) plus the
offset -- the proved contract of _get_row_cache_raise -- or KeyError when there is no such occurrence.  One variant contract per form; the
constructs of the other forms are unreachable under the variant's precondition.
"""
import ast
import z3
from pyvc.values import *          # noqa
from pyvc.contract import Contract
from pyvc.engine import NS, Star, Unsupported
from pyvc.sel_engine import SelEngine, is_str
from pyvc.table_engine import v_int, int_v
from contracts.table_cache import (M, TTable, cache_field_ok, cntp_axioms, GET_ROW_CACHE_RAISE, col_of, cp, _norm_count)

is_int = z3.Function("py_is_int", V, BoolS)
is_tuple = z3.Function("py_is_tuple", V, BoolS)
tup_len = z3.Function("py_tuple_len", V, IntS)
tup_item = z3.Function("py_tuple_item", V, IntS, V)
p_name = z3.Function("designator_text_name", V, V)                 # what _split_name_count_offset returns for a text
p_has_count = z3.Function("designator_text_has_count", V, BoolS)
p_count = z3.Function("designator_text_count", V, IntS)
p_off = z3.Function("designator_text_offset", V, IntS)
i = z3.Int("i!dg")


class DesigEngine(SelEngine):
    def isinstance_hook(self, v, clsnode, cx):
        if isinstance(clsnode, ast.Name) and isinstance(v, PyObj):
            if clsnode.id == "int":
                return PyBool(is_int(v.t))
            if clsnode.id == "tuple":
                return PyBool(is_tuple(v.t))
        return super().isinstance_hook(v, clsnode, cx)

    def coerce(self, v, ty, cx, what):
        if isinstance(v, PyObj) and ty is TInt:
            return PyInt(v_int(v.t))          # an object known to be an int, read as a number
        return super().coerce(v, ty, cx, what)

    def eval_args(self, e, cx):
        """f(*row) with row a tuple designator of the arity the variant fixes: (name, count[, offset])"""
        if len(e.args) == 1 and isinstance(e.args[0], ast.Starred) and not e.keywords:
            v = self.eval(e.args[0].value, cx)
            k = self.c.extra.get("star_arity")
            if isinstance(v, PyObj) and k in (2, 3):
                cx.assume(tup_len(v.t) == k)
                items = [PyObj(tup_item(v.t, 0)), PyInt(v_int(tup_item(v.t, 1)))]
                if k == 3:
                    items.append(PyInt(v_int(tup_item(v.t, 2))))
                return items, {}
            raise Unsupported("starred argument")
        return super().eval_args(e, cx)


SPLIT = Contract(
    module=M, qualname="Table._split_name_count_offset", params=dict(self=TTable, name=TV),
    result=TTuple(TV, TOpt(TInt), TInt),
    ensures=[("parsed", lambda o, n, r: z3.And(r.items[0].t == p_name(o.name.t), r.items[1].is_none == z3.Not(p_has_count(o.name.t)),
                                               r.items[1].value.t == p_count(o.name.t), r.items[2].t == p_off(o.name.t)))],
    trusted=True,
    note="string parsing (split on the separators, int()): assumed here, checked at run time for every designator spelling (rac/c07.py)")


def _triple(form):
    """(name term, count PyOpt, offset PyInt) the statement assigns to a designator of this form"""
    def f(o):
        t = o.row.t
        if form == "str":
            return PyObj(p_name(t)), PyOpt(z3.Not(p_has_count(t)), PyInt(p_count(t)), TInt), PyInt(p_off(t))
        cnt = PyOpt(z3.BoolVal(False), PyInt(v_int(tup_item(t, 1))), TInt)
        return PyObj(tup_item(t, 0)), cnt, (PyInt(v_int(tup_item(t, 2))) if form == "tuple3" else PyInt(z3.IntVal(0)))
    return f


def _as_cache_call(o, form):
    name, cnt, off = _triple(form)(o)
    return NS(dict(self=o.self, row=name, count=cnt, offset=off))


def _variant(form, requires, arity=None):
    grc = GET_ROW_CACHE_RAISE
    scan = dict(grc.ensures)["scan-position"]
    when = grc.raises["KeyError"]["when"]
    return Contract(
        module=M, qualname="Table._get_row_index", params=dict(self=TTable, row=TV), result=TInt,
        requires=[("CacheOK", lambda s: cache_field_ok(s.self))] + requires,
        axioms=[lambda s: cntp_axioms(s.self)],
        ensures=[("the designated occurrence on the current index column, shifted by the offset", lambda o, n, r: scan(_as_cache_call(o, form), n, r)),
                 ("CacheOK", lambda o, n, r: cache_field_ok(n.self))],
        raises={"KeyError": dict(when=lambda s: when(_as_cache_call(s, form)), exact=True,
                                 post=[("CacheOK", lambda o, n: cache_field_ok(n.self))],
                                 modifies=("self._index_cache", "self._count_cache", "self._names_cache"))},
        modifies=("self._index_cache", "self._count_cache", "self._names_cache"),
        min_obligations=4,
        extra=dict(engine=DesigEngine, variant=form, prune_unsupported=True, star_arity=arity))


_not = lambda f: (lambda s: z3.Not(f(s.row.t)))
BY_TEXT = _variant("str", [("row-is-a-text", lambda s: z3.And(is_str(s.row.t), z3.Not(is_int(s.row.t))))])
BY_PAIR = _variant("tuple2", [("row-is-a-pair (name, count)", lambda s: z3.And(is_tuple(s.row.t), z3.Not(is_int(s.row.t)), z3.Not(is_str(s.row.t)),
                                                                                  tup_len(s.row.t) == 2))], arity=2)
BY_TRIPLE = _variant("tuple3", [("row-is-a-triple (name, count, offset)", lambda s: z3.And(
    is_tuple(s.row.t), z3.Not(is_int(s.row.t)), z3.Not(is_str(s.row.t)), tup_len(s.row.t) == 3))], arity=3)

BY_POSITION = Contract(
    module=M, qualname="Table._get_row_index", params=dict(self=TTable, row=TV), result=TInt,
    requires=[("row-is-an-int", lambda s: is_int(s.row.t))],
    ensures=[("a position designates itself", lambda o, n, r: r.t == v_int(o.row.t))],
    min_obligations=1, extra=dict(engine=DesigEngine, variant="int", prune_unsupported=True))

OTHER = Contract(
    module=M, qualname="Table._get_row_index", params=dict(self=TTable, row=TV), result=TInt,
    requires=[("row-is-nothing-of-the-kind", lambda s: z3.And(z3.Not(is_int(s.row.t)), z3.Not(is_str(s.row.t)), z3.Not(is_tuple(s.row.t))))],
    ensures=[("never-returns", lambda o, n, r: z3.BoolVal(False))],
    raises={"ValueError": dict(when=None, post=[], modifies=())},
    min_obligations=1, extra=dict(engine=DesigEngine, variant="other", prune_unsupported=True))


# ---- the entry points that hand their argument over unchanged -----------------------------------------------------------------
from pyvc.engine import Obligation      # noqa: E402


class ForwardEngine:
    """syntactic: the body of the function is `return <receiver>._get_row_index(<its own parameter>)` (after the docstring)"""

    def __init__(self, registry, opts=None):
        self.reg = registry
        self.trivial_frames = 0

    def verify(self, c, fdef, classctx=None):
        body = [s for s in fdef.body if not (isinstance(s, ast.Expr) and isinstance(s.value, ast.Constant))]
        params = [a.arg for a in fdef.args.args]
        recv = c.extra["receiver"]
        ok = (len(body) == 1 and isinstance(body[0], ast.Return) and isinstance(body[0].value, ast.Call)
              and ast.unparse(body[0].value.func) == recv + "._get_row_index" and len(body[0].value.args) == 1
              and not body[0].value.keywords and isinstance(body[0].value.args[0], ast.Name)
              and body[0].value.args[0].id == params[1] and len(params) == 2)
        return [Obligation(f"{c.module}:{c.qualname}#forwards-its-argument-to-_get_row_index-and-returns-the-result", "post", [],
                           z3.BoolVal(bool(ok)), c.qualname, fdef.lineno)]


def _fwd(qualname, receiver):
    return Contract(module=M, qualname=qualname, params={}, min_obligations=1,
                    extra=dict(engine=ForwardEngine, variant="forwards", receiver=receiver),
                    note="t // row and t.rows.get_index(row) ARE _get_row_index(row) of the table")


FLOORDIV = _fwd("Table.__floordiv__", "self")
GET_INDEX = _fwd("_RowView.get_index", "self.table")

CONTRACTS = [SPLIT]
VARIANTS = [BY_POSITION, BY_TEXT, BY_PAIR, BY_TRIPLE, OTHER, FLOORDIV, GET_INDEX]


# ---- the designator blocks INSIDE Table.__getitem__ / Table.__setitem__ (ninth session) ---------------------------------------------------------
# t[col, row] and t[col, row] = v do not call _get_row_index: each has its own copy of the dispatch
#     if isinstance(row, str):   cache lookup of (row, 0) first, else split + _get_row_cache_raise
#     elif isinstance(row, tuple): cache lookup of the tuple first, else _get_row_cache_raise(*row)
#     elif slice / list ...        (row SELECTORS: C08)          else: idx = row
# The compound statement is extracted mechanically as a block (anchor: its first line) and verified once per designator form: after it, `idx` is
# the position the statement assigns to the designator -- the same specification term as for _get_row_index -- or KeyError is raised exactly when there
# is no such occurrence.  The shortcut through the lookup table must AGREE with the parsed reading: for a text this needs that a text which IS a row name
# parses to itself (spelling 1 of the proved splitter, names being free of ':' '<' '>'): precondition `row-names-are-plain`.
from pyvc.table_engine import pair, is_pair, int_v      # noqa: E402

x_ = z3.Const("x!dgb", V)


def _names_plain(s):
    """every text that occurs in the current index column parses to (itself, no count, offset 0)"""
    f = cp(s.self)
    n = col_of(s.self).n
    return z3.ForAll([x_], z3.Implies(f(x_, n) > 0, z3.And(p_name(x_) == x_, z3.Not(p_has_count(x_)), p_off(x_) == 0)), patterns=[f(x_, n)])


def _tuple_is_key(s, k):
    """a designator tuple used as a dictionary key IS the key the lookup table uses for (name, count): Python tuples are equal and hash alike
    component-wise; a triple is never equal to a pair"""
    t = s.row.t
    if k == 2:
        return z3.And(t == pair(tup_item(t, 0), tup_item(t, 1)), tup_item(t, 1) == int_v(v_int(tup_item(t, 1))))
    return z3.Not(is_pair(t))


def _idx_term(n):
    v = n.idx
    if isinstance(v, PyOpt):
        v = v.value
    return v.t if isinstance(v, PyInt) else v_int(v.t)


def _block_variant(fn, form, requires, arity=None):
    grc = GET_ROW_CACHE_RAISE
    scan = dict(grc.ensures)["scan-position"]
    when = grc.raises["KeyError"]["when"]

    class R:      # the block has no result: `idx` plays its role
        def __init__(self, t):
            self.t = t
    return Contract(
        module=M, qualname=fn, params=dict(self=TTable, row=TV),
        requires=[("CacheOK", lambda s: cache_field_ok(s.self))] + requires,
        axioms=[lambda s: cntp_axioms(s.self)],
        ensures=[("idx is the designated occurrence on the current index column, shifted by the offset", lambda o, n, r: scan(_as_cache_call(o, form), n, R(_idx_term(n)))),
                 ("CacheOK", lambda o, n, r: cache_field_ok(n.self))],
        raises={"KeyError": dict(when=lambda s: when(_as_cache_call(s, form)), exact=True,
                                 post=[("CacheOK", lambda o, n: cache_field_ok(n.self))],
                                 modifies=("self._index_cache", "self._count_cache", "self._names_cache"))},
        modifies=("self._index_cache", "self._count_cache", "self._names_cache"),
        min_obligations=4,
        extra=dict(engine=DesigEngine, variant="designator-block-" + form, prune_unsupported=True, star_arity=arity, frame_ghosts=False,
                   block=dict(first="if isinstance(row, str):", count=1)),
        note="block contract: the row-designator dispatch inside " + fn)


_req_text = [("row-is-a-text", lambda s: z3.And(is_str(s.row.t), z3.Not(is_int(s.row.t)), z3.Not(is_tuple(s.row.t)))), ("row-names-are-plain", _names_plain)]
_req_pair = [("row-is-a-pair (name, count)", lambda s: z3.And(is_tuple(s.row.t), z3.Not(is_int(s.row.t)), z3.Not(is_str(s.row.t)), tup_len(s.row.t) == 2)),
         ("a pair designator is the lookup key of (name, count)", lambda s: _tuple_is_key(s, 2))]
_req_triple = [("row-is-a-triple (name, count, offset)", lambda s: z3.And(is_tuple(s.row.t), z3.Not(is_int(s.row.t)), z3.Not(is_str(s.row.t)), tup_len(s.row.t) == 3)),
           ("a triple is not a lookup key", lambda s: _tuple_is_key(s, 3))]
BLOCKS = []
for _fn in ("Table.__getitem__", "Table.__setitem__"):
    BLOCKS += [_block_variant(_fn, "str", _req_text), _block_variant(_fn, "tuple2", _req_pair, 2), _block_variant(_fn, "tuple3", _req_triple, 3)]
VARIANTS += BLOCKS
