"""Sidecar contracts for xdeps/sorting.py  (DESIGN.md section 4, C02).

Vocabulary
  graph  : read-only adjacency mapping, adj(v) = (graph.n(v), graph.at(v, i)),
           missing key == empty; graph.R = reachability (refl/trans/edge only).
  stack  : collections.deque modelled as the slice arr[lo:hi]
  visited: set
  pos    : GHOST map vertex -> index in `arr` (appendleft never shifts indices,
           so positions of already-stacked vertices never change)
  grey   : GHOST set of vertices on the current DFS path (callers of _dfs)

The top-level postcondition of `toposort` is the statement of C02 restricted to
one graph walk: every vertex reachable from `start` occurs exactly once, nothing
else occurs, and a vertex never comes after a vertex it has an edge to unless
that edge closes a cycle.
"""
import z3
from pyvc.values import *          # noqa
from pyvc.contract import Contract, LoopSpec

M = "xdeps/sorting.py"
x, y = z3.Consts("x!c y!c", V)
i, j = z3.Ints("i!c j!c")


def in_stack(stack, pos, v):
    """v occupies its recorded position inside the live slice"""
    v = term(v)
    p = pos.cnt(v)
    return z3.And(stack.lo <= p, p < stack.hi, stack.at(p) == v)


def wf_positions(stack, pos):
    # every live slot records its own index: implies the slice is duplicate-free
    return z3.ForAll([i], z3.Implies(z3.And(stack.lo <= i, i < stack.hi), pos.cnt(stack.at(i)) == i),
                     patterns=[stack.at(i)])


def visited_is(stack, pos, visited, extra):
    """visited == elements of the stack  U  extra(x)"""
    return z3.ForAll([x], visited.has(x) == z3.Or(extra(x), in_stack(stack, pos, x)),
                     patterns=[visited.has(x)])


def seg_closed(g, stack, visited, lo, hi):
    """every neighbour of every vertex stacked in [lo,hi) has been visited"""
    return z3.ForAll([i, j], z3.Implies(
        z3.And(lo <= i, i < hi, 0 <= j, j < g.n(stack.at(i))),
        visited.has(g.at(stack.at(i), j))), patterns=[g.at(stack.at(i), j)])


def seg_ordered(g, stack, pos, lo, hi):
    """edge u->w with u stacked in [lo,hi): w sits AFTER u in the stack, or the edge closes a cycle"""
    return z3.ForAll([i, j], z3.Implies(
        z3.And(lo <= i, i < hi, 0 <= j, j < g.n(stack.at(i))),
        z3.Or(z3.And(in_stack(stack, pos, g.at(stack.at(i), j)), pos.cnt(g.at(stack.at(i), j)) > i),
              g.R(g.at(stack.at(i), j), stack.at(i)))), patterns=[g.at(stack.at(i), j)])


def p_closed(g, P):
    """ghost set P is closed under the edges of g (P is chosen by the caller:
    "result within P for every closed P containing the start" is the usable,
    first-order form of "only reachable vertices are returned")"""
    return z3.ForAll([x, j], z3.Implies(z3.And(P.has(x), 0 <= j, j < g.n(x)), P.has(g.at(x, j))),
                     patterns=[g.at(x, j)])


def old_part_kept(old_stack, old_pos, stack, pos):
    return z3.And(
        stack.hi == old_stack.hi, stack.lo <= old_stack.lo,
        z3.ForAll([i], z3.Implies(z3.And(old_stack.lo <= i, i < old_stack.hi), stack.at(i) == old_stack.at(i)),
                  patterns=[stack.at(i)]),
        z3.ForAll([x], z3.Implies(in_stack(old_stack, old_pos, x), pos.cnt(x) == old_pos.cnt(x)),
                  patterns=[pos.cnt(x)]))


# ---------------------------------------------------------------------------- _dfs
def dfs_requires():
    return [
        ("source-unvisited", lambda s: z3.Not(s.visited.has(s.source))),
        ("positions", lambda s: wf_positions(s.stack, s.pos)),
        ("visited=stack+grey", lambda s: visited_is(s.stack, s.pos, s.visited, lambda v: s.grey.has(v))),
        ("grey-not-stacked", lambda s: z3.ForAll([x], z3.Implies(s.grey.has(x), z3.Not(in_stack(s.stack, s.pos, x))))),
        ("grey-reaches-source", lambda s: z3.ForAll([x], z3.Implies(s.grey.has(x), s.graph.R(x, s.source.t)),
                                                     patterns=[s.grey.has(x)])),
        ("stack-bounds", lambda s: s.stack.lo <= s.stack.hi),
        ("P-has-source", lambda s: s.P.has(s.source)),
        ("P-closed", lambda s: p_closed(s.graph, s.P)),
    ]


def dfs_ensures():
    return [
        ("old-part-kept", lambda o, n, r: old_part_kept(o.stack, o.pos, n.stack, n.pos)),
        ("source-pushed-first", lambda o, n, r: z3.And(n.stack.lo < o.stack.lo, n.stack.at(n.stack.lo) == o.source.t)),
        ("positions", lambda o, n, r: wf_positions(n.stack, n.pos)),
        ("visited=stack+grey", lambda o, n, r: visited_is(n.stack, n.pos, n.visited, lambda v: o.grey.has(v))),
        ("grey-not-stacked", lambda o, n, r: z3.ForAll([x], z3.Implies(o.grey.has(x), z3.Not(in_stack(n.stack, n.pos, x))))),
        ("visited-grows", lambda o, n, r: z3.ForAll([x], z3.Implies(o.visited.has(x), n.visited.has(x)),
                                                    patterns=[o.visited.has(x)])),
        ("new-were-unvisited", lambda o, n, r: z3.ForAll([i], z3.Implies(
            z3.And(n.stack.lo <= i, i < o.stack.lo), z3.Not(o.visited.has(n.stack.at(i)))), patterns=[n.stack.at(i)])),
        ("closure", lambda o, n, r: seg_closed(o.graph, n.stack, n.visited, n.stack.lo, o.stack.lo)),
        ("order", lambda o, n, r: seg_ordered(o.graph, n.stack, n.pos, n.stack.lo, o.stack.lo)),
        ("soundness", lambda o, n, r: z3.ForAll([i], z3.Implies(
            z3.And(n.stack.lo <= i, i < o.stack.lo), o.graph.R(o.source.t, n.stack.at(i))), patterns=[n.stack.at(i)])),
        ("new-in-P", lambda o, n, r: z3.ForAll([i], z3.Implies(
            z3.And(n.stack.lo <= i, i < o.stack.lo), o.P.has(n.stack.at(i))), patterns=[n.stack.at(i)])),
    ]


def on_path(path, v, ppos):
    """v is one of the path's nodes -- through the ghost position map (exact given wf_ppos; no existential for the solver)"""
    q = ppos.cnt(v)
    return z3.And(0 <= q, q < path.n, path.at_node(q) == v)


def wf_ppos(path, ppos):
    return z3.ForAll([j], z3.Implies(z3.And(0 <= j, j < path.n), ppos.cnt(path.at_node(j)) == j), patterns=[path.at_node(j)])


def dfs_outer_inv():
    """invariant of `while path:` -- the DFS stack `path` is p_0 .. p_{m-1}, p_0 = source"""
    def grey2(L):
        return lambda v: z3.Or(L.old.grey.has(v), on_path(L.cur.path, v, L.cur.ppos))
    c, o = (lambda L: L.cur), (lambda L: L.old)
    g = lambda L: o(L).graph

    def path_shape(L):
        p = c(L).path
        return z3.And(
            p.n >= 0,
            z3.Implies(p.n > 0, p.at_node(0) == o(L).source.t),
            z3.Implies(p.n == 0, z3.And(c(L).stack.lo < o(L).stack.lo, c(L).stack.at(c(L).stack.lo) == o(L).source.t)),
            # distinct nodes
            z3.ForAll([i, j], z3.Implies(z3.And(0 <= i, i < j, j < p.n), p.at_node(i) != p.at_node(j)),
                      patterns=[z3.MultiPattern(p.at_node(i), p.at_node(j))]),
            # iterator positions; the child of p_j is the neighbour its iterator yielded last
            z3.ForAll([j], z3.Implies(z3.And(0 <= j, j < p.n), z3.And(
                0 <= p.at_ptr(j), p.at_ptr(j) <= g(L).n(p.at_node(j)),
                z3.Implies(j < p.n - 1, z3.And(p.at_ptr(j) >= 1, g(L).at(p.at_node(j), p.at_ptr(j) - 1) == p.at_node(j + 1))))),
                patterns=[p.at_node(j)]))

    def consumed_visited(L):
        p = c(L).path
        return z3.ForAll([j, i], z3.Implies(z3.And(0 <= j, j < p.n, 0 <= i, i < p.at_ptr(j)),
                                            c(L).visited.has(g(L).at(p.at_node(j), i))), patterns=[g(L).at(p.at_node(j), i)])

    def chain(L):
        p = c(L).path
        return z3.And(
            z3.ForAll([j], z3.Implies(z3.And(0 <= j, j < p.n), z3.And(g(L).R(o(L).source.t, p.at_node(j)), o(L).P.has(p.at_node(j)),
                                                                      z3.Not(o(L).visited.has(p.at_node(j))))),
                      patterns=[p.at_node(j)]),
            z3.ForAll([i, j], z3.Implies(z3.And(0 <= i, i <= j, j < p.n), g(L).R(p.at_node(i), p.at_node(j))),
                      patterns=[z3.MultiPattern(p.at_node(i), p.at_node(j))]))
    return [
        ("path-shape", path_shape),
        ("path-positions", lambda L: wf_ppos(c(L).path, c(L).ppos)),
        ("consumed-neighbours-visited", consumed_visited),
        ("path-is-a-chain-from-source", chain),
        ("old-part-kept", lambda L: old_part_kept(o(L).stack, o(L).pos, c(L).stack, c(L).pos)),
        ("positions", lambda L: wf_positions(c(L).stack, c(L).pos)),
        ("visited=stack+grey+path", lambda L: visited_is(c(L).stack, c(L).pos, c(L).visited, grey2(L))),
        ("grey+path-not-stacked", lambda L: z3.ForAll([x], z3.Implies(grey2(L)(x), z3.Not(in_stack(c(L).stack, c(L).pos, x))))),
        ("visited-grows", lambda L: z3.ForAll([x], z3.Implies(o(L).visited.has(x), c(L).visited.has(x)), patterns=[o(L).visited.has(x)])),
        ("new-were-unvisited", lambda L: z3.ForAll([i], z3.Implies(
            z3.And(c(L).stack.lo <= i, i < o(L).stack.lo), z3.Not(o(L).visited.has(c(L).stack.at(i)))), patterns=[c(L).stack.at(i)])),
        ("closure", lambda L: seg_closed(g(L), c(L).stack, c(L).visited, c(L).stack.lo, o(L).stack.lo)),
        ("order", lambda L: seg_ordered(g(L), c(L).stack, c(L).pos, c(L).stack.lo, o(L).stack.lo)),
        ("soundness", lambda L: z3.ForAll([i], z3.Implies(
            z3.And(c(L).stack.lo <= i, i < o(L).stack.lo), g(L).R(o(L).source.t, c(L).stack.at(i))), patterns=[c(L).stack.at(i)])),
        ("new-in-P", lambda L: z3.ForAll([i], z3.Implies(
            z3.And(c(L).stack.lo <= i, i < o(L).stack.lo), o(L).P.has(c(L).stack.at(i))), patterns=[c(L).stack.at(i)])),
    ]


def dfs_inner_inv():
    """invariant of `for neighbour in neighbours:` -- only the iterator position of the top pair moves while no unvisited
    neighbour is found"""
    def pinned(L):
        p, p0 = L.cur.path, L.pre.path
        top = p0.n - 1
        return z3.And(p.n == p0.n, p.node == p0.node, p.ptr == z3.Store(p0.ptr, top, p0.at_ptr(top) + L.k),
                      L.cur.visited.arr == L.pre.visited.arr, L.cur.stack.lo == L.pre.stack.lo, L.cur.stack.hi == L.pre.stack.hi,
                      L.cur.stack.arr == L.pre.stack.arr, L.cur.pos.arr == L.pre.pos.arr, L.cur.node.t == L.pre.node.t,
                      L.cur.ppos.arr == L.pre.ppos.arr)

    def seen(L):
        p0 = L.pre.path
        top = p0.n - 1
        return z3.ForAll([j], z3.Implies(z3.And(0 <= j, j < L.k), L.cur.visited.has(L.at(j))), patterns=[L.at(j)])
    return [("only-the-top-iterator-advanced", pinned), ("yielded-neighbours-were-visited", seen),
            ("index", lambda L: z3.And(0 <= L.k, L.k <= L.n))]


def _ghost_push(ns, st):
    """ghost statement after `stack.appendleft(node)`: record the position"""
    stack, pos = st.env["stack"], st.env["pos"]
    st.env["pos"] = PyCount(z3.Store(pos.arr, ns.node.t, stack.lo))


def _ghost_path_push(ns, st):
    """ghost statement after a push onto the DFS stack: record the pushed node's position"""
    path, ppos = st.env["path"], st.env["ppos"]
    st.env["ppos"] = PyCount(z3.Store(ppos.arr, path.at_node(path.n - 1), path.n - 1))


from pyvc.dfs_engine import DfsEngine      # noqa: E402

DFS = Contract(
    module=M, qualname="_dfs",
    params=dict(graph=TGraph, source=TV, stack=TDeque(TV), visited=TSet),
    ghost=dict(grey=TSet, pos=TCount, P=TSet, ppos=TCount),
    requires=dfs_requires(),
    ensures=dfs_ensures(),
    modifies=("stack", "visited", "pos", "ppos"),
    loops={0: LoopSpec(anchor="path", invariants=dfs_outer_inv(), modifies=("pos", "ppos")),
           1: LoopSpec(anchor="neighbours", invariants=dfs_inner_inv(), modifies=("pos", "ppos"))},
    extra=dict(engine=DfsEngine, ghost_writeback={"pos": "pos"},
               ghost_after={"stack.appendleft(node)": _ghost_push,
                            "path = [(source, iter(graph.get(source, [])))]": _ghost_path_push,
                            "path.append((neighbour, iter(graph.get(neighbour, []))))": _ghost_path_push}),
    min_obligations=30,
    note="iterative depth-first search with an explicit stack of (node, neighbour-iterator) pairs; termination is not proved "
         "(every iteration either consumes a neighbour or pops a node; long chains are exercised at run time)",
)


# ------------------------------------------------------------------------ toposort
def res_index(res, stack, pos, v):
    return pos.cnt(v) - stack.lo


def topo_ensures():
    # `n.stack`, `n.pos` are ghost-visible: on the caller side they are fresh
    # (existentially quantified) witnesses of the result's structure.
    def tied(o, n, r):
        return z3.And(r.n == n.stack.hi - n.stack.lo, r.n >= 0,
                      z3.ForAll([i], z3.Implies(z3.And(0 <= i, i < r.n), r.at(i) == n.stack.at(n.stack.lo + i)),
                                patterns=[r.at(i)]))
    return [
        ("result-is-stack", tied),
        ("each-once", lambda o, n, r: z3.ForAll([i, j], z3.Implies(
            z3.And(0 <= i, i < j, j < r.n), r.at(i) != r.at(j)))),
        ("positions", lambda o, n, r: wf_positions(n.stack, n.pos)),
        ("contains-start", lambda o, n, r: z3.ForAll([x], z3.Implies(o.start.has(x), in_stack(n.stack, n.pos, x)),
                                                     patterns=[o.start.has(x)])),
        ("closed-under-edges", lambda o, n, r: z3.ForAll([i, j], z3.Implies(
            z3.And(n.stack.lo <= i, i < n.stack.hi, 0 <= j, j < o.graph.n(n.stack.at(i))),
            in_stack(n.stack, n.pos, o.graph.at(n.stack.at(i), j))), patterns=[o.graph.at(n.stack.at(i), j)])),
        ("only-reachable", lambda o, n, r: z3.ForAll([i], z3.Implies(
            z3.And(n.stack.lo <= i, i < n.stack.hi),
            z3.Exists([y], z3.And(o.start.has(y), o.graph.R(y, n.stack.at(i))))), patterns=[n.stack.at(i)])),
        ("dependency-order", lambda o, n, r: seg_ordered(o.graph, n.stack, n.pos, n.stack.lo, n.stack.hi)),
        ("within-P", lambda o, n, r: z3.ForAll([i], z3.Implies(
            z3.And(n.stack.lo <= i, i < n.stack.hi), o.P.has(n.stack.at(i))), patterns=[n.stack.at(i)])),
    ]


def topo_loop_inv():
    c, o = (lambda L: L.cur), (lambda L: L.old)
    return [
        ("bounds", lambda L: z3.And(c(L).stack.hi == 0, c(L).stack.lo <= 0, 0 <= L.k, L.k <= L.n)),
        ("positions", lambda L: wf_positions(c(L).stack, c(L).pos)),
        ("visited=stack", lambda L: visited_is(c(L).stack, c(L).pos, c(L).visited, lambda v: z3.BoolVal(False))),
        ("closure", lambda L: seg_closed(o(L).graph, c(L).stack, c(L).visited, c(L).stack.lo, c(L).stack.hi)),
        ("order", lambda L: seg_ordered(o(L).graph, c(L).stack, c(L).pos, c(L).stack.lo, c(L).stack.hi)),
        ("only-reachable", lambda L: z3.ForAll([i], z3.Implies(
            z3.And(c(L).stack.lo <= i, i < c(L).stack.hi),
            z3.Exists([y], z3.And(o(L).start.has(y), o(L).graph.R(y, c(L).stack.at(i))))),
            patterns=[c(L).stack.at(i)])),
        ("done-start-visited", lambda L: z3.ForAll([j], z3.Implies(
            z3.And(0 <= j, j < L.k), c(L).visited.has(L.at(j))), patterns=[L.at(j)])),
        ("within-P", lambda L: z3.ForAll([i], z3.Implies(
            z3.And(c(L).stack.lo <= i, i < c(L).stack.hi), o(L).P.has(c(L).stack.at(i))),
            patterns=[c(L).stack.at(i)])),
    ]


TOPOSORT = Contract(
    module=M, qualname="toposort",
    params=dict(graph=TGraph, start=TSet),
    ghost=dict(pos=TCount, stack=TDeque(TV), P=TSet),   # `stack` is a local; exposed as ghost *output* for callers
    result=TSeq(TV),
    requires=[("P-has-start", lambda s: z3.ForAll([x], z3.Implies(s.start.has(x), s.P.has(x)),
                                                  patterns=[s.start.has(x)])),
              ("P-closed", lambda s: p_closed(s.graph, s.P))],
    ensures=topo_ensures(),
    modifies=("pos", "stack"),
    loops={0: LoopSpec(anchor="start", invariants=topo_loop_inv(), modifies=("pos",))},
    call_ghost={("_dfs", None): lambda st, pre: dict(grey=PySet.empty(), pos=st.pos, P=pre.P)},
    extra=dict(ghost_writeback={"pos": "pos"}, ghost_out=("pos", "stack"), importable=True,
               param_note="start is declared a set: the None default (whole graph) is not used by Manager.set_value"),
    min_obligations=15,
)

CONTRACTS = [DFS, TOPOSORT]
