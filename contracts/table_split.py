"""C07 / C08: what a designator TEXT denotes -- Table._split_name_count_offset, verified on its real text over SMT-LIB strings.

Statement (C07): a row given as 'name', 'name::count', 'name<<k', 'name>>k' designates the count-th occurrence of the name shifted by the
offset; C08 uses the same spellings for 'regexp::count<<k'.  Read on the text:

    form            text                                  (name, count, offset)
    plain           b                                     (b, None, 0)
    count           b + '::' + c                          (b, int(c), 0)
    previous        b + '<<' + k                          (b, None, -int(k))
    next            b + '>>' + k                          (b, None, +int(k))
    count-previous  b + '::' + c + '<<' + k               (b, int(c), -int(k))
    count-next      b + '::' + c + '>>' + k               (b, int(c), +int(k))

for EVERY text b that contains none of the characters ':' '<' '>' (the alphabet of the three separators; a name or pattern containing one
of them is ambiguous under these spellings and outside the statement) and every pair of integer literals c, k (texts int() accepts; they
contain none of the three characters either).  int() itself is uninterpreted: the claim is about WHICH piece of the text becomes the
name, which piece is handed to int() for the count and which for the offset, and the sign of the offset.

The separators are read from the real constructor: the defaults of Table.__init__'s sep_count / sep_previous / sep_next, which the
constructor must store under _sep_count / _sep_previous / _sep_next (syntactic side condition, an obligation of its own).
A table built with other separators is outside this contract (run-time checked in rac/c07.py, rac/c08.py with the default ones).
"""
import z3
from pyvc.contract import Contract
from pyvc.strsplit_engine import StrSplitEngine, T, py_int, py_int_ok
from contracts.table_cache import M

S = z3.StringSort()
b, c, k = z3.Const("b!text", S), z3.Const("c!text", S), z3.Const("k!text", S)
SEP_ALPHABET = (":", "<", ">")


def _free(t):
    return [z3.Not(z3.Contains(t, z3.StringVal(ch))) for ch in SEP_ALPHABET]


def _lit(t):
    return _free(t) + [py_int_ok(t)]


SEPS = ("::", "<<", ">>")


def _first_occurrence_facts(parts):
    """Where each separator first occurs in every prefix p1 ++ ... ++ pj of the form's text (proof guidance; each fact is proved by the solver
    from the form's hypotheses before it is used): at the first literal part equal to it, or nowhere."""
    facts = []
    for j in range(1, len(parts) + 1):
        pre = parts[:j]
        text = z3.Concat(*pre) if len(pre) > 1 else pre[0]
        for sep in SEPS:
            at = [m for m, p in enumerate(pre) if z3.is_string_value(p) and p.as_string() == sep]
            if at:
                off = z3.IntVal(0)
                for p in pre[:at[0]]:
                    off = off + z3.Length(p)
                facts.append(z3.IndexOf(text, z3.StringVal(sep), z3.IntVal(0)) == off)
            else:
                facts.append(z3.Not(z3.Contains(text, z3.StringVal(sep))))
    return facts


def _form(parts, hyps, expected):
    def mk():
        text = z3.Concat(*parts) if len(parts) > 1 else parts[0]
        return hyps, [T(text)], expected, _first_occurrence_facts(parts)
    return mk


sv = z3.StringVal
FORMS = [
    ("plain 'name'", _form([b], _free(b), (b, None, z3.IntVal(0)))),
    ("'name::count'", _form([b, sv("::"), c], _free(b) + _lit(c), (b, py_int(c), z3.IntVal(0)))),
    ("'name<<k'", _form([b, sv("<<"), k], _free(b) + _lit(k), (b, None, 0 - py_int(k)))),
    ("'name>>k'", _form([b, sv(">>"), k], _free(b) + _lit(k), (b, None, 0 + py_int(k)))),
    ("'name::count<<k'", _form([b, sv("::"), c, sv("<<"), k], _free(b) + _lit(c) + _lit(k), (b, py_int(c), 0 - py_int(k)))),
    ("'name::count>>k'", _form([b, sv("::"), c, sv(">>"), k], _free(b) + _lit(c) + _lit(k), (b, py_int(c), 0 + py_int(k)))),
]

def concretize(obligation_name, model_text):
    """the solver's counter-model as an input for the real function: the name b is taken from the model (it satisfies the form's hypotheses: no ':' '<' '>'),
    the two integer literals -- whose only modelled property is that int() accepts them -- are replaced by the real literals '2' and '3'"""
    import re
    m = re.search(r"#(?:post|no-raise):(.*?)/path", obligation_name)
    if not m:
        return None
    label = m.group(1)
    mb = re.search(r'\(define-fun b!text \(\) String "((?:[^"]|"")*)"\)', model_text or "")
    b_ = mb.group(1).replace('""', '"') if mb else "mq"
    if any(ch in b_ for ch in ":<>") or "\\u" in b_ or not b_.isprintable():
        b_ = "mq"
    forms = {"plain 'name'": ("{b}", None, 0), "'name::count'": ("{b}::2", 2, 0), "'name<<k'": ("{b}<<3", None, -3), "'name>>k'": ("{b}>>3", None, 3),
             "'name::count<<k'": ("{b}::2<<3", 2, -3), "'name::count>>k'": ("{b}::2>>3", 2, 3)}
    if label not in forms:
        return None
    text, cnt, off = forms[label]
    text = text.replace("{b}", b_)
    return ("import numpy as np, xdeps\n"
            "t = xdeps.Table({'name': np.array(['a', 'b'], dtype=object)})\n"
            f"text = {text!r}\n"
            "got = t._split_name_count_offset(text)\n"
            f"want = ({b_!r}, {cnt!r}, {off!r})\n"
            "print('designator text', repr(text), '->', got, 'the statement reads it as', want)\n"
            "assert tuple(got) == want, (text, got, want)\n")


SPLIT_TEXT = Contract(
    module=M, qualname="Table._split_name_count_offset", params=dict(self=None, name=None),
    min_obligations=12,
    extra=dict(engine=StrSplitEngine, variant="text", forms=FORMS,
               fields=dict(_sep_count="sep_count", _sep_previous="sep_previous", _sep_next="sep_next"), concretize=concretize),
    note="the six spellings of the statement, for every separator-free name and all integer literals; SMT-LIB strings, cvc5 --strings-exp")

CONTRACTS = []
VARIANTS = [SPLIT_TEXT]
