"""Contracts for the two methods that REBUILD the four indices from the registered tasks (C03: "exactly like a fresh
manager in which only the surviving definitions were registered", C17: refresh).

  Manager.refresh@rebuild : after a thawed refresh the indices equal F(registered tasks) -- WITHOUT assuming they did before
                            (refresh is the repair operation: whatever the indices held is discarded)
  Manager.clone           : the returned manager has the same tasks and indices equal to F(those tasks); `self` is not changed
  Manager.__init__        : a new manager has no tasks, empty indices and is not frozen (what `Manager()` stands for in clone)

Both loops re-register task after task; the invariant is `indices == F(S)` for the ghost set S of the ids registered so far
(Manager.register@rebuild, contracts/tasks.py, proved on the real body of register).  At loop exit S is the key set of `tasks`.
"""
import z3
from pyvc.values import *          # noqa
from pyvc.contract import Contract, LoopSpec
from pyvc.tasks_engine import TasksEngine
from contracts import tasks as T
from contracts.tasks import M, TMgr, TTask, task_id, keys_ok, card_axioms, REGISTER_REBUILD, _Reg
from contracts.tasks_proto import same_tasks, same_indices

x, t = z3.Consts("x!rb t!rb", V)
LABELS = ("keys", "deptasks=F", "tartasks=F", "rtasks=F", "rdeps=F")
_G = _Reg(True)


def wf_S(m, S):
    return dict(_G.wf(m, S.has, S.arr))


def empty_set():
    return PySet(z3.K(V, z3.BoolVal(False)))


def rdsum_empty():
    """a sum over no tasks is 0 (defining equation of the finite sum rdeps_sum)"""
    va = z3.Const("va!rb", z3.ArraySort(V, V))
    d_, x_ = z3.Consts("d!rb x!rb2", V)
    e = T.rdsum(z3.K(V, z3.BoolVal(False)), va, d_, x_)
    return z3.ForAll([va, d_, x_], e == 0, patterns=[e])


def _S_is_prefix(L, tasks0):
    """S == { ids enumerated before position k }"""
    ke = L.enum.keys
    return z3.ForAll([x], L.cur.S.has(x) == z3.And(tasks0.has(x), ke.idx(x) < L.k), patterns=[L.cur.S.has(x)])


# ----------------------------------------------------------------------------- refresh
def _refresh_inv():
    inv = [("S=ids-before-k", lambda L: _S_is_prefix(L, L.old.self.tasks))]
    inv += [(lb, (lambda lb_: lambda L: wf_S(L.cur.self, L.cur.S)[lb_])(lb)) for lb in LABELS]
    inv += [("tasks-kept", lambda L: z3.And(L.cur.self.tasks.dom == L.old.self.tasks.dom,
                                            L.cur.self.tasks.val == L.old.self.tasks.val)),
            ("thawed", lambda L: z3.Not(L.cur.self._tree_frozen.t)),
            ("index", lambda L: z3.And(0 <= L.k, L.k <= L.n))]
    return inv


REFRESH_REBUILD = Contract(
    module=M, qualname="Manager.refresh", params=dict(self=TMgr), ghost=dict(S=TSet),
    requires=[("keys", lambda s: keys_ok(s.self))],
    axioms=[lambda s: z3.And(*card_axioms()), lambda s: rdsum_empty()],
    ensures=[("S=registered-ids", lambda o, n, r: n.S.arr == n.self.tasks.dom),
             ("definitions-kept", lambda o, n, r: same_tasks(n.self, o.self))] + [
        (lb, (lambda lb_: lambda o, n, r: wf_S(n.self, n.S)[lb_])(lb)) for lb in LABELS],
    raises={"ValueError": dict(when=lambda s: s.self._tree_frozen.t, exact=True, post=[], modifies=())},
    modifies=("self.tasks", "self.rdeps", "self.rtasks", "self.deptasks", "self.tartasks", "S"),
    loops={0: LoopSpec(anchor="self.tasks.values()", invariants=_refresh_inv(), modifies=("S",))},
    call_ghost={("Manager.register", None): lambda st, pre: dict(S=st.S)},
    min_obligations=12,
    extra=dict(engine=TasksEngine, variant="rebuild", callee_contracts={"register": REGISTER_REBUILD},
               ghost_writeback={"S": "S"}, frame_ghosts=False,
               ghost_after={"self.tartasks = defaultdict(RefCount)": lambda ns, st: st.env.__setitem__("S", empty_set())},
               trusted_lemmas=["rdeps_sum over the empty task set is 0"]),
    note="C03: indices == F(S) and S == keys of tasks after a thawed refresh, whatever the indices held before "
         "(the conjunction is IdxWF by substitution of equals); rdeps_sum over the empty set is 0 (finite-sum axiom)")


# ----------------------------------------------------------------------------- Manager() / __init__
def _mgr_empty(m):
    return z3.And(z3.ForAll([x], z3.Not(m.tasks.has(x)), patterns=[m.tasks.has(x)]),
                  z3.ForAll([x], z3.Not(m.containers.has(x)), patterns=[m.containers.has(x)]),
                  *[getattr(m, f).arr == PyDDict.empty().arr for f in ("rdeps", "rtasks", "deptasks", "tartasks")],
                  z3.Not(m._tree_frozen.t))


MGR_INIT = Contract(
    module=M, qualname="Manager.__init__", params=dict(self=TMgr),
    ensures=[("no-tasks-empty-indices-thawed", lambda o, n, r: _mgr_empty(n.self))],
    modifies=("self",), min_obligations=1,
    extra=dict(engine=TasksEngine, variant="fresh-manager"),
    note="what the constructor call Manager() stands for in clone()")

MGR_CTOR = Contract(
    module=M, qualname="Manager", params={}, result=TMgr,
    ensures=[("fresh", lambda o, n, r: _mgr_empty(r))],
    trusted=True, extra=dict(importable=True),
    note="constructor call = Manager.__init__ on a fresh object (Manager.__init__@fresh-manager is proved): Python object model")


# ----------------------------------------------------------------------------- clone
def _clone_inv():
    inv = [("S=ids-before-k", lambda L: _S_is_prefix(L, L.old.self.tasks)),
           ("other.tasks=S", lambda L: L.cur.other.tasks.dom == L.cur.S.arr),
           ("other.tasks-are-self.tasks", lambda L: z3.ForAll([x], z3.Implies(
               L.cur.S.has(x), L.cur.other.tasks.get(x) == L.old.self.tasks.get(x)), patterns=[L.cur.other.tasks.get(x)]))]
    inv += [(lb, (lambda lb_: lambda L: wf_S(L.cur.other, L.cur.S)[lb_])(lb)) for lb in LABELS]
    inv += [("thawed", lambda L: z3.Not(L.cur.other._tree_frozen.t)),
            ("index", lambda L: z3.And(0 <= L.k, L.k <= L.n))]
    return inv


CLONE = Contract(
    module=M, qualname="Manager.clone", params=dict(self=TMgr), ghost=dict(S=TSet), result=TMgr,
    requires=[("keys", lambda s: keys_ok(s.self))],
    axioms=[lambda s: z3.And(*card_axioms()), lambda s: rdsum_empty()],
    ensures=[("same-task-ids", lambda o, n, r: r.tasks.dom == o.self.tasks.dom),
             ("same-tasks", lambda o, n, r: z3.ForAll([x], z3.Implies(o.self.tasks.has(x), r.tasks.get(x) == o.self.tasks.get(x)),
                                                      patterns=[r.tasks.get(x)])),
             ("S=registered-ids", lambda o, n, r: n.S.arr == r.tasks.dom),
             ("thawed", lambda o, n, r: z3.Not(r._tree_frozen.t))] + [
        (lb, (lambda lb_: lambda o, n, r: wf_S(r, n.S)[lb_])(lb)) for lb in LABELS],
    modifies=("S",),
    loops={0: LoopSpec(anchor="self.tasks.values()", invariants=_clone_inv(), modifies=("S",))},
    call_ghost={("Manager.register", None): lambda st, pre: dict(S=st.S)},
    min_obligations=12,
    extra=dict(engine=TasksEngine, callee_contracts={"register": REGISTER_REBUILD},
               ghost_writeback={"S": "S"}, frame_ghosts=False,
               ghost_after={"other = Manager()": lambda ns, st: st.env.__setitem__("S", empty_set())},
               trusted_lemmas=["rdeps_sum over the empty task set is 0"]),
    note="C03: a clone has the same tasks, indices == F(its tasks), and `self` is left as it was (frame)")

CONTRACTS = [MGR_CTOR, CLONE]
VARIANTS = [REFRESH_REBUILD, MGR_INIT]


# ----------------------------------------------------------------------------- cleanup: the identity on the abstract index state
import ast as _ast                                   # noqa: E402
import copy as _copy                                 # noqa: E402
from pyvc.engine import Unsupported, Outcome, Ctx    # noqa: E402


class CleanupEngine(TasksEngine):
    """What Manager.cleanup uses beyond the tasks engine:
      for dct in self.a, self.b, ...: BODY   -> BODY once per listed field with `dct` replaced by that field (the loop variable is only a
                                               reference to the field's object; it must not be re-bound in BODY)
      list(d.items()) of a defaultdict(RefCount) -> an arbitrary duplicate-free enumeration of SOME keys of d (which keys have an entry is not
                                               part of the abstract state), each with its multiset as it is when the list is made; the
                                               value variable may only be used as len(<var>) (checked syntactically)
      len(multiset) == 0                      -> every count is 0
      del d[k]                                -> the entry becomes the empty multiset"""

    def exec_for(self, s, st, cx):
        it = s.iter
        if isinstance(it, _ast.Tuple) and isinstance(s.target, _ast.Name) and it.elts and all(
                isinstance(x, _ast.Attribute) and isinstance(x.value, _ast.Name) and x.value.id == "self" for x in it.elts):
            name = s.target.id
            if any(isinstance(n, _ast.Name) and n.id == name and isinstance(n.ctx, (_ast.Store, _ast.Del)) for b in s.body for n in _ast.walk(b)):
                raise Unsupported("loop variable over fields is re-bound")
            inner = [n for b in s.body for n in _ast.walk(b) if isinstance(n, (_ast.For, _ast.While))]
            live, done = [st], []
            for fld_node in it.elts:
                class Sub(_ast.NodeTransformer):
                    def visit_Name(self_, n):
                        if n.id == name:
                            return _ast.copy_location(_ast.Attribute(value=_ast.Name(id="self", ctx=_ast.Load()), attr=fld_node.attr, ctx=n.ctx), n)
                        return n
                body = [_ast.fix_missing_locations(Sub().visit(_copy.deepcopy(b))) for b in s.body]
                copies = [n for b in body for n in _ast.walk(b) if isinstance(n, (_ast.For, _ast.While))]
                for orig, cp_ in zip(inner, copies):
                    self.loop_ord[id(cp_)] = self.loop_ord[id(orig)]
                    self.__dict__.setdefault("_orig_anchor", {})[id(cp_)] = _ast.unparse(orig.iter if isinstance(orig, _ast.For) else orig.test)
                nxt = []
                for cur in live:
                    for st2, out in self.exec_block(body, cur):
                        (nxt if out.kind == "normal" else done).append((st2, out) if out.kind != "normal" else st2)
                live = nxt
            return [(s_, Outcome("normal")) for s_ in live] + done
        return super().exec_for(s, st, cx)

    def _loopspec(self, node, anchor_src):
        # (a loop inside an unrolled body is matched against the anchor of the loop it was copied from)
        return super()._loopspec(node, getattr(self, "_orig_anchor", {}).get(id(node), anchor_src))

    def builtin_list(self, e, cx):
        v = self.eval(e.args[0], cx) if e.args else None
        if getattr(v, "ddict_items", None) is not None:
            return v
        return super().builtin_list(e, cx)

    def call_method(self, recv, name, e, cx, recv_node):
        if isinstance(recv, PyDDict) and name == "items" and not e.args:
            ke = enum_of_pred(lambda x_: z3.BoolVal(True), "ddkeys")       # duplicate-free; WHICH keys: arbitrary (axioms say only: distinct)
            n = FreshConst(IntS, "dd_n")
            en = PyEnum(n, ke.at_, TV, idx=ke.idx_, axioms=[n >= 0, z3.ForAll([x], z3.Implies(z3.And(0 <= ke.idx_(x), ke.idx_(x) < n), ke.at_(ke.idx_(x)) == x))],
                        dupfree=True)
            en.ddict_items = recv
            return en
        return super().call_method(recv, name, e, cx, recv_node)

    def loop_elem(self, it, k, s):
        dd = getattr(it, "ddict_items", None)
        if dd is not None:
            if not (isinstance(s.target, _ast.Tuple) and len(s.target.elts) == 2 and isinstance(s.target.elts[1], _ast.Name)):
                raise Unsupported("items() loop target")
            vname = s.target.elts[1].id
            for b in s.body:
                for n in _ast.walk(b):
                    if isinstance(n, _ast.Name) and n.id == vname:
                        ok = any(isinstance(c, _ast.Call) and isinstance(c.func, _ast.Name) and c.func.id == "len" and c.args and c.args[0] is n
                                 for c in _ast.walk(b))
                        if not ok:
                            raise Unsupported("the multiset of an items() pair is used other than as len(...)")
            key = it.at(k)
            return PyTuple([PyObj(key), PyCount(z3.Select(dd.arr, key))])
        return super().loop_elem(it, k, s)

    def builtin_len(self, e, cx):
        v = self.eval(e.args[0], cx)
        if isinstance(v, PyCount):
            n = FreshConst(IntS, "len_rc")
            cx.assume(z3.And(n >= 0, (n == 0) == v.py_len_is_zero()))
            return PyInt(n)
        return super().builtin_len(e, cx)


def _idx_pointwise(a, b):
    d_, x_ = z3.Consts("d!cl x!cl", V)
    return z3.And(*[z3.ForAll([d_, x_], getattr(a, f).cnt(d_, x_) == getattr(b, f).cnt(d_, x_), patterns=[getattr(a, f).cnt(d_, x_)])
                    for f in ("rdeps", "rtasks", "deptasks", "tartasks")])


def _nonneg(m):
    d_, x_ = z3.Consts("d!cn x!cn", V)
    return z3.And(*[z3.ForAll([d_, x_], getattr(m, f).cnt(d_, x_) >= 0, patterns=[getattr(m, f).cnt(d_, x_)])
                    for f in ("rdeps", "rtasks", "deptasks", "tartasks")])


CLEANUP_PROVED = Contract(
    module=M, qualname="Manager.cleanup", params=dict(self=TMgr),
    requires=[("counts-nonneg", lambda s: _nonneg(s.self))],
    ensures=[("every count of every index is what it was", lambda o, n, r: _idx_pointwise(n.self, o.self)),
             ("the four index maps are the same maps (extensionally)", lambda o, n, r: same_indices(n.self, o.self))],
    modifies=("self.rdeps", "self.rtasks", "self.deptasks", "self.tartasks"),
    loops={1: LoopSpec(anchor="list(dct.items())", invariants=[
        ("counts-kept", lambda L: _idx_pointwise(L.cur.self, L.old.self)), ("index", lambda L: z3.And(0 <= L.k, L.k <= L.n))])},
    min_obligations=8,
    extra=dict(engine=CleanupEngine, variant="abstract-identity"),
    note="removing an entry whose multiset is empty changes no count: cleanup() is the identity on the abstract index state (absent == empty); "
         "this is what refresh(), clone() and verify() assume about it")
VARIANTS += [CLEANUP_PROVED]
