"""Contracts for the two methods that REBUILD the four indices from the registered tasks (C03: "exactly like a fresh
manager in which only the surviving definitions were registered", C17: refresh).

  Manager.refresh@rebuild : after a thawed refresh the indices equal F(registered tasks) -- WITHOUT assuming they did before
                            (refresh is the repair operation: whatever the indices held is discarded)
  Manager.clone           : the returned manager has the same tasks and indices equal to F(those tasks); `self` is not changed
  Manager.__init__        : a new manager has no tasks, empty indices and is not frozen (what `Manager()` stands for in clone)

Both loops re-register task after task; the invariant is `indices == F(S)` for the ghost set S of the ids registered so far
(Manager.register@rebuild, contracts/tasks.py, proved on the real body of register).  At loop exit S is the key set of `tasks`.
"""
import z3
from pyvc.values import *          # noqa
from pyvc.contract import Contract, LoopSpec
from pyvc.tasks_engine import TasksEngine
from contracts import tasks as T
from contracts.tasks import M, TMgr, TTask, task_id, keys_ok, card_axioms, REGISTER_REBUILD, _Reg
from contracts.tasks_proto import same_tasks, same_indices

x, t = z3.Consts("x!rb t!rb", V)
LABELS = ("keys", "deptasks=F", "tartasks=F", "rtasks=F", "rdeps=F")
_G = _Reg(True)


def wf_S(m, S):
    return dict(_G.wf(m, S.has, S.arr))


def empty_set():
    return PySet(z3.K(V, z3.BoolVal(False)))


def rdsum_empty():
    """a sum over no tasks is 0 (defining equation of the finite sum rdeps_sum)"""
    va = z3.Const("va!rb", z3.ArraySort(V, V))
    d_, x_ = z3.Consts("d!rb x!rb2", V)
    e = T.rdsum(z3.K(V, z3.BoolVal(False)), va, d_, x_)
    return z3.ForAll([va, d_, x_], e == 0, patterns=[e])


def _S_is_prefix(L, tasks0):
    """S == { ids enumerated before position k }"""
    ke = L.enum.keys
    return z3.ForAll([x], L.cur.S.has(x) == z3.And(tasks0.has(x), ke.idx(x) < L.k), patterns=[L.cur.S.has(x)])


# ----------------------------------------------------------------------------- refresh
def _refresh_inv():
    inv = [("S=ids-before-k", lambda L: _S_is_prefix(L, L.old.self.tasks))]
    inv += [(lb, (lambda lb_: lambda L: wf_S(L.cur.self, L.cur.S)[lb_])(lb)) for lb in LABELS]
    inv += [("tasks-kept", lambda L: z3.And(L.cur.self.tasks.dom == L.old.self.tasks.dom,
                                            L.cur.self.tasks.val == L.old.self.tasks.val)),
            ("thawed", lambda L: z3.Not(L.cur.self._tree_frozen.t)),
            ("index", lambda L: z3.And(0 <= L.k, L.k <= L.n))]
    return inv


REFRESH_REBUILD = Contract(
    module=M, qualname="Manager.refresh", params=dict(self=TMgr), ghost=dict(S=TSet),
    requires=[("keys", lambda s: keys_ok(s.self))],
    axioms=[lambda s: z3.And(*card_axioms()), lambda s: rdsum_empty()],
    ensures=[("S=registered-ids", lambda o, n, r: n.S.arr == n.self.tasks.dom),
             ("definitions-kept", lambda o, n, r: same_tasks(n.self, o.self))] + [
        (lb, (lambda lb_: lambda o, n, r: wf_S(n.self, n.S)[lb_])(lb)) for lb in LABELS],
    raises={"ValueError": dict(when=lambda s: s.self._tree_frozen.t, exact=True, post=[], modifies=())},
    modifies=("self.tasks", "self.rdeps", "self.rtasks", "self.deptasks", "self.tartasks", "S"),
    loops={0: LoopSpec(anchor="self.tasks.values()", invariants=_refresh_inv(), modifies=("S",))},
    call_ghost={("Manager.register", None): lambda st, pre: dict(S=st.S)},
    min_obligations=12,
    extra=dict(engine=TasksEngine, variant="rebuild", callee_contracts={"register": REGISTER_REBUILD},
               ghost_writeback={"S": "S"}, frame_ghosts=False,
               ghost_after={"self.tartasks = defaultdict(RefCount)": lambda ns, st: st.env.__setitem__("S", empty_set())},
               trusted_lemmas=["rdeps_sum over the empty task set is 0"]),
    note="C03: indices == F(S) and S == keys of tasks after a thawed refresh, whatever the indices held before "
         "(the conjunction is IdxWF by substitution of equals); rdeps_sum over the empty set is 0 (finite-sum axiom)")


# ----------------------------------------------------------------------------- Manager() / __init__
def _mgr_empty(m):
    return z3.And(z3.ForAll([x], z3.Not(m.tasks.has(x)), patterns=[m.tasks.has(x)]),
                  z3.ForAll([x], z3.Not(m.containers.has(x)), patterns=[m.containers.has(x)]),
                  *[getattr(m, f).arr == PyDDict.empty().arr for f in ("rdeps", "rtasks", "deptasks", "tartasks")],
                  z3.Not(m._tree_frozen.t))


MGR_INIT = Contract(
    module=M, qualname="Manager.__init__", params=dict(self=TMgr),
    ensures=[("no-tasks-empty-indices-thawed", lambda o, n, r: _mgr_empty(n.self))],
    modifies=("self",), min_obligations=1,
    extra=dict(engine=TasksEngine, variant="fresh-manager"),
    note="what the constructor call Manager() stands for in clone()")

MGR_CTOR = Contract(
    module=M, qualname="Manager", params={}, result=TMgr,
    ensures=[("fresh", lambda o, n, r: _mgr_empty(r))],
    trusted=True, extra=dict(importable=True),
    note="constructor call = Manager.__init__ on a fresh object (Manager.__init__@fresh-manager is proved): Python object model")


# ----------------------------------------------------------------------------- clone
def _clone_inv():
    inv = [("S=ids-before-k", lambda L: _S_is_prefix(L, L.old.self.tasks)),
           ("other.tasks=S", lambda L: L.cur.other.tasks.dom == L.cur.S.arr),
           ("other.tasks-are-self.tasks", lambda L: z3.ForAll([x], z3.Implies(
               L.cur.S.has(x), L.cur.other.tasks.get(x) == L.old.self.tasks.get(x)), patterns=[L.cur.other.tasks.get(x)]))]
    inv += [(lb, (lambda lb_: lambda L: wf_S(L.cur.other, L.cur.S)[lb_])(lb)) for lb in LABELS]
    inv += [("thawed", lambda L: z3.Not(L.cur.other._tree_frozen.t)),
            ("index", lambda L: z3.And(0 <= L.k, L.k <= L.n))]
    return inv


CLONE = Contract(
    module=M, qualname="Manager.clone", params=dict(self=TMgr), ghost=dict(S=TSet), result=TMgr,
    requires=[("keys", lambda s: keys_ok(s.self))],
    axioms=[lambda s: z3.And(*card_axioms()), lambda s: rdsum_empty()],
    ensures=[("same-task-ids", lambda o, n, r: r.tasks.dom == o.self.tasks.dom),
             ("same-tasks", lambda o, n, r: z3.ForAll([x], z3.Implies(o.self.tasks.has(x), r.tasks.get(x) == o.self.tasks.get(x)),
                                                      patterns=[r.tasks.get(x)])),
             ("S=registered-ids", lambda o, n, r: n.S.arr == r.tasks.dom),
             ("thawed", lambda o, n, r: z3.Not(r._tree_frozen.t))] + [
        (lb, (lambda lb_: lambda o, n, r: wf_S(r, n.S)[lb_])(lb)) for lb in LABELS],
    modifies=("S",),
    loops={0: LoopSpec(anchor="self.tasks.values()", invariants=_clone_inv(), modifies=("S",))},
    call_ghost={("Manager.register", None): lambda st, pre: dict(S=st.S)},
    min_obligations=12,
    extra=dict(engine=TasksEngine, callee_contracts={"register": REGISTER_REBUILD},
               ghost_writeback={"S": "S"}, frame_ghosts=False,
               ghost_after={"other = Manager()": lambda ns, st: st.env.__setitem__("S", empty_set())},
               trusted_lemmas=["rdeps_sum over the empty task set is 0"]),
    note="C03: a clone has the same tasks, indices == F(its tasks), and `self` is left as it was (frame)")

CONTRACTS = [MGR_CTOR, CLONE]
VARIANTS = [REFRESH_REBUILD, MGR_INIT]
