"""Specification vocabulary for xdeps/refs.py (DESIGN.md section 3): classes, slots,
constructors, eval/val, locs.  Everything here is written from the *statements* of
C04/C05/C06/C12 and from Python's data model, never from method bodies.
"""
import z3
from pyvc.values import V, E, IntS, BoolS, exc_const

Cls = z3.DeclareSort("Cls")
cls_of = z3.Function("cls_of", V, Cls)
is_ref = z3.Function("is_ref", V, BoolS)
OK = exc_const("ok")
ZDE = exc_const("ZeroDivisionError")
NAN = z3.Const("py_float_nan", V)
NONE = z3.Const("py_None", V)

# ---- the Python data model -------------------------------------------------------
BINARY_CLASSES = {
    "AddExpr": "add", "SubExpr": "sub", "MulExpr": "mul", "MatmulExpr": "matmul", "TruedivExpr": "truediv",
    "FloordivExpr": "floordiv", "ModExpr": "mod", "PowExpr": "pow", "BitwiseAndExpr": "and_",
    "BitwiseOrExpr": "or_", "XorExpr": "xor", "LtExpr": "lt", "LeExpr": "le", "EqExpr": "eq", "NeExpr": "ne",
    "GeExpr": "ge", "GtExpr": "gt", "RshiftExpr": "rshift", "LshiftExpr": "lshift",
}
UNARY_CLASSES = {"NegExpr": "neg", "PosExpr": "pos", "InvertExpr": "invert"}
ZDE_TO_NAN = {"truediv", "floordiv", "mod"}          # the documented deviation (statement of C04)
OP_SYMBOL = {"add": "+", "sub": "-", "mul": "*", "matmul": "@", "truediv": "/", "floordiv": "//", "mod": "%",
             "pow": "**", "and_": "&", "or_": "|", "xor": "^", "lt": "<", "le": "<=", "eq": "==", "ne": "!=",
             "ge": ">=", "gt": ">", "rshift": ">>", "lshift": "<<", "neg": "-", "pos": "+", "invert": "~"}
# special method -> (operator, reflected?)   -- Python data model 3.3.8
BINARY_DUNDERS = {}
for _n in ("add", "sub", "mul", "matmul", "truediv", "floordiv", "mod", "pow", "rshift", "lshift"):
    BINARY_DUNDERS[f"__{_n}__"] = (_n, False)
    BINARY_DUNDERS[f"__r{_n}__"] = (_n, True)
for _n, _o in (("and", "and_"), ("or", "or_"), ("xor", "xor")):
    BINARY_DUNDERS[f"__{_n}__"] = (_o, False)
    BINARY_DUNDERS[f"__r{_n}__"] = (_o, True)
for _n in ("lt", "le", "ge", "gt"):
    BINARY_DUNDERS[f"__{_n}__"] = (_n, False)        # rich comparisons have no reflected *methods*
NAMED_BINARY = {"_eq": "eq", "_neq": "ne"}           # explicit deferred (in)equality of the library
UNARY_DUNDERS = {"__neg__": "neg", "__pos__": "pos", "__invert__": "invert"}
INPLACE_DUNDERS = {"__iadd__": "add", "__isub__": "sub", "__imul__": "mul", "__imatmul__": "matmul",
                   "__itruediv__": "truediv", "__ifloordiv__": "floordiv", "__imod__": "mod", "__ipow__": "pow",
                   "__ilshift__": "lshift", "__irshift__": "rshift", "__iand__": "and_", "__ior__": "or_",
                   "__ixor__": "xor"}             # all 13 of operator.i*
BUILTIN_DUNDERS = {"__abs__": ("abs", 0), "__trunc__": ("trunc", 0), "__floor__": ("floor", 0),
                   "__ceil__": ("ceil", 0), "__divmod__": ("divmod", 1), "__round__": ("round", "opt")}

AST_BINOP = {"Add": "add", "Sub": "sub", "Mult": "mul", "MatMult": "matmul", "Div": "truediv", "FloorDiv": "floordiv",
             "Mod": "mod", "Pow": "pow", "BitAnd": "and_", "BitOr": "or_", "BitXor": "xor", "LShift": "lshift",
             "RShift": "rshift"}
AST_CMP = {"Lt": "lt", "LtE": "le", "Gt": "gt", "GtE": "ge", "Eq": "eq", "NotEq": "ne"}
AST_UNOP = {"USub": "neg", "UAdd": "pos", "Invert": "invert"}

# ---- classes and slots -----------------------------------------------------------
# constructor parameter order = __cinit__ signature; proved per class (C06/C12 obligations)
SLOTS = {
    "Ref": ("_owner", "_key", "_manager"), "ObjectAttrRef": ("_owner", "_key", "_manager"),
    "AttrRef": ("_owner", "_key", "_manager"), "ItemRef": ("_owner", "_key", "_manager"),
    "LiteralExpr": ("_arg",), "BuiltinRef": ("_arg", "_op", "_params"), "CallRef": ("_func", "_args", "_kwargs"),
}
for _c in BINARY_CLASSES:
    SLOTS[_c] = ("_lhs", "_rhs")
for _c in UNARY_CLASSES:
    SLOTS[_c] = ("_arg",)
ABSTRACT = {"BaseRef": (), "MutableRef": ("_owner", "_key", "_manager"), "BinOpExpr": ("_lhs", "_rhs"),
            "UnaryOpExpr": ("_arg",)}
BASES = {"MutableRef": ["BaseRef"], "Ref": ["MutableRef"], "ObjectAttrRef": ["Ref"], "AttrRef": ["MutableRef"],
         "ItemRef": ["MutableRef"], "BinOpExpr": ["BaseRef"], "UnaryOpExpr": ["BaseRef"], "LiteralExpr": ["BaseRef"],
         "BuiltinRef": ["BaseRef"], "CallRef": ["BaseRef"]}
for _c in BINARY_CLASSES:
    BASES[_c] = ["BinOpExpr"]
for _c in UNARY_CLASSES:
    BASES[_c] = ["UnaryOpExpr"]
IDENTITY_SLOTS = {c: tuple(s for s in sl if s != "_manager") for c, sl in SLOTS.items()}
MUTABLE = ("Ref", "ObjectAttrRef", "AttrRef", "ItemRef")

ALL_FIELDS = sorted({f for sl in list(SLOTS.values()) for f in sl})
C = {c: z3.Const("C_" + c, Cls) for c in SLOTS}
fld = {f: z3.Function("fld" + f, V, V) for f in ALL_FIELDS}
fld_hash = z3.Function("fld_hash", V, IntS)
mk = {c: z3.Function("new_" + c, *([V] * len(sl) + [V])) for c, sl in SLOTS.items()}

ev = z3.Function("eval", V, V)         # value of a deferred expression on the current heap
ex = z3.Function("evalx", V, E)        # exception raised by evaluating it (OK: none)


def val(x):
    return z3.If(is_ref(x), ev(x), x)


def valx(x):
    return z3.If(is_ref(x), ex(x), OK)


opv = {o: z3.Function("py_" + o, V, V, V) for o in BINARY_CLASSES.values()}
opx = {o: z3.Function("pyx_" + o, V, V, E) for o in BINARY_CLASSES.values()}
uv = {o: z3.Function("py_" + o, V, V) for o in UNARY_CLASSES.values()}
ux = {o: z3.Function("pyx_" + o, V, E) for o in UNARY_CLASSES.values()}

# tuples held in slots (_params, _args, _kwargs)
tup_n = z3.Function("tuple_len", V, IntS)
tup_at = z3.Function("tuple_at", V, IntS, V)
kw_val = z3.Function("kwpair_value", V, V)          # second component of a (name, value) pair
kw_name = z3.Function("kwpair_name", V, V)
EMPTY_TUPLE = z3.Const("py_empty_tuple", V)
tuple1 = z3.Function("py_tuple1", V, V)              # (x,)
mapval = z3.Function("map_val", V, V)               # tuple of the values of a tuple of operands
mapvalx = z3.Function("map_valx", V, E)             # first exception among them (OK: none)
mapkw = z3.Function("map_kw", V, V)
mapkwx = z3.Function("map_kwx", V, E)
callv = z3.Function("py_call", V, V, V, V)          # f(*args, **kwargs)
callx = z3.Function("pyx_call", V, V, V, E)
call1v = z3.Function("py_call_star", V, V, V, V)    # f(a, *rest)
call1x = z3.Function("pyx_call_star", V, V, V, E)

# heap reads (the current contents of the user's containers)
h_attr = z3.Function("heap_getattr", V, V, V)
hx_attr = z3.Function("heap_getattrx", V, V, E)
h_item = z3.Function("heap_getitem", V, V, V)
hx_item = z3.Function("heap_getitemx", V, V, E)

BUILTIN_FN = {n: z3.Const("py_builtin_" + n, V) for n in ("abs", "round", "divmod", "trunc", "floor", "ceil")}
expr_of = z3.Function("expr_of", V, V)              # MutableRef._expr: current defining expression or None

x, y = z3.Consts("x!r y!r", V)


def first_exc(*xs):
    out = xs[-1]
    for e_ in reversed(xs[:-1]):
        out = z3.If(e_ != OK, e_, out)
    return out


def bin_spec(op, l, r):
    """(exception, value) of `l OP r` on the operands' current values -- statement of C04"""
    a, b = val(l), val(r)
    px, pv = opx[op](a, b), opv[op](a, b)
    if op in ZDE_TO_NAN:
        return first_exc(valx(l), valx(r), z3.If(px == ZDE, OK, px)), z3.If(px == ZDE, NAN, pv)
    return first_exc(valx(l), valx(r), px), pv


def un_spec(op, a_):
    a = val(a_)
    return first_exc(valx(a_), ux[op](a)), uv[op](a)


def class_axioms_at(t):
    """GROUND instance at node `t` of the defining axioms of eval per node class (statement of C04)
    and of the class facts.  Evaluation is specified modularly (children through val/valx), so one
    instance per node of interest suffices and every C04 obligation stays quantifier-free."""
    ax = [is_ref(t) == z3.Or(*[cls_of(t) == c for c in C.values()])]
    for c, op in BINARY_CLASSES.items():
        xe, xv = bin_spec(op, fld["_lhs"](t), fld["_rhs"](t))
        ax.append(z3.Implies(cls_of(t) == C[c], z3.And(ex(t) == xe, ev(t) == xv)))
    for c, op in UNARY_CLASSES.items():
        xe, xv = un_spec(op, fld["_arg"](t))
        ax.append(z3.Implies(cls_of(t) == C[c], z3.And(ex(t) == xe, ev(t) == xv)))
    ax.append(z3.Implies(cls_of(t) == C["LiteralExpr"], z3.And(ex(t) == OK, ev(t) == fld["_arg"](t))))
    a_, o_, p_ = fld["_arg"](t), fld["_op"](t), fld["_params"](t)
    ax.append(z3.Implies(cls_of(t) == C["BuiltinRef"], z3.And(
        ex(t) == first_exc(valx(a_), mapvalx(p_), call1x(o_, val(a_), mapval(p_))),
        ev(t) == call1v(o_, val(a_), mapval(p_)))))
    f_, g_, k_ = fld["_func"](t), fld["_args"](t), fld["_kwargs"](t)
    ax.append(z3.Implies(cls_of(t) == C["CallRef"], z3.And(
        ex(t) == first_exc(valx(f_), mapvalx(g_), mapkwx(k_), callx(val(f_), mapval(g_), mapkw(k_))),
        ev(t) == callv(val(f_), mapval(g_), mapkw(k_)))))
    ow, ky = fld["_owner"](t), fld["_key"](t)
    ax.append(z3.Implies(cls_of(t) == C["AttrRef"], z3.And(
        ex(t) == first_exc(valx(ow), valx(ky), hx_attr(val(ow), val(ky))), ev(t) == h_attr(val(ow), val(ky)))))
    ax.append(z3.Implies(cls_of(t) == C["ItemRef"], z3.And(
        ex(t) == first_exc(valx(ow), valx(ky), hx_item(val(ow), val(ky))), ev(t) == h_item(val(ow), val(ky)))))
    for c in ("Ref", "ObjectAttrRef"):
        ax.append(z3.Implies(cls_of(t) == C[c], z3.And(ex(t) == valx(ow), ev(t) == val(ow))))
    return ax


def global_facts():
    return [z3.Distinct(*C.values()), z3.Not(is_ref(NONE)), z3.Not(is_ref(NAN)), cls_none_fact()]


def cls_none_fact():
    return z3.And(*[cls_of(NONE) != c for c in C.values()])


def ctor_facts(cname, args):
    """GROUND facts about the node built by C(*args): class tag and slots (proved on each __cinit__)"""
    t = mk[cname](*args)
    return [cls_of(t) == C[cname], is_ref(t)] + [fld[f](t) == v for f, v in zip(SLOTS[cname], args)]
