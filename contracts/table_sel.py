"""Sidecar contracts for Table._get_row_indices (DESIGN.md section 4, C08): one variant per selector form.

Value range  lo:hi:'col'  (statement): the rows, in ascending order, whose value in `col` satisfies  lo <= col[i] <= hi,
each bound optional.  The result is either an ascending index sequence or the selector 'all rows'.
"""
import z3
from pyvc.values import *          # noqa
from pyvc.contract import Contract
from pyvc.engine import none_term
from pyvc.sel_engine import SelEngine, is_slice, is_str, sl_start, sl_stop, sl_step, le, PySliceAll, PyIdxSeq
from pyvc.table_engine import TData

M = "xdeps/table.py"
i, k = z3.Ints("i!s k!s")
TTabSel = TRec("Table", dict(_data=TData, _index=TV))


def _in_range(o, pos):
    """the statement's predicate for a value range"""
    lo, hi, c = sl_start(o.row.t), sl_stop(o.row.t), sl_step(o.row.t)
    col = o.self._data.col(c)
    return z3.And(z3.Or(lo == none_term(), le(lo, col.at(pos))), z3.Or(hi == none_term(), le(col.at(pos), hi)))


def _range_post(o, n, r):
    c = sl_step(o.row.t)
    N = o.self._data.col(c).n
    if isinstance(r, PySliceAll):
        return z3.ForAll([i], z3.Implies(z3.And(0 <= i, i < N), _in_range(o, i)))
    if isinstance(r, PyIdxSeq):
        return z3.And(
            z3.ForAll([k], z3.Implies(z3.And(0 <= k, k < r.n), z3.And(0 <= r.at(k), r.at(k) < N, _in_range(o, r.at(k)))), patterns=[r.at(k)]),
            z3.ForAll([k, i], z3.Implies(z3.And(0 <= k, k < i, i < r.n), r.at(k) < r.at(i)),
                      patterns=[z3.MultiPattern(r.at(k), r.at(i))]),
            z3.ForAll([i], z3.Implies(z3.And(0 <= i, i < N, _in_range(o, i)),
                                      z3.And(0 <= r.pos(i), r.pos(i) < r.n, r.at(r.pos(i)) == i)), patterns=[r.pos(i)]))
    return z3.BoolVal(False)


VALUE_RANGE = Contract(
    module=M, qualname="Table._get_row_indices", params=dict(self=TTabSel, row=TV),
    requires=[("selector-is-a-value-range lo:hi:'col'", lambda s: z3.And(
        is_slice(s.row.t), z3.Not(is_str(sl_start(s.row.t))), z3.Not(is_str(sl_stop(s.row.t))), is_str(sl_step(s.row.t)))),
        ("None-is-not-a-string", lambda s: z3.Not(is_str(none_term())))],
    ensures=[("exactly-the-rows-with lo <= col <= hi (either bound optional), ascending", _range_post)],
    min_obligations=4,
    extra=dict(engine=SelEngine, variant="value-range", prune_unsupported=True),
    note="the other selector forms are unreachable under this precondition (obligations of kind `unreachable`)")
VARIANTS = [VALUE_RANGE]
CONTRACTS = []


# ----------------------------------------------------------------------------- name span  a:b  (inclusive)
from pyvc.sel_engine import PySliceRange      # noqa: E402
rowpos = z3.Function("row_position_of_designator", V, V, IntS)      # data, designator -> position (C07: _get_row_index)

GET_ROW_INDEX = Contract(
    module=M, qualname="Table._get_row_index", params=dict(self=TTabSel, row=TV), result=TInt,
    ensures=[("position-of-the-designated-row (C07)", lambda o, n, r: r.t == rowpos(o.self._data.t, o.row.t))],
    raises={"KeyError": dict(when=None, post=[], modifies=())}, trusted=True,
    note="assumed here, decided under C07: the position the designator resolves to on the current index column, or KeyError")


def _bound(v, want_none, want_int):
    if isinstance(v, PyInt):
        return z3.And(z3.Not(want_none), v.t == want_int)
    if isinstance(v, PyObj):
        return z3.And(want_none, v.t == none_term())
    return z3.BoolVal(False)


def _span_post(o, n, r):
    if not isinstance(r, PySliceRange):
        return z3.BoolVal(False)
    a, b = sl_start(o.row.t), sl_stop(o.row.t)
    D = o.self._data.t
    return z3.And(_bound(r.lo, a == none_term(), rowpos(D, a)), _bound(r.hi, b == none_term(), rowpos(D, b) + 1))


NAME_SPAN = Contract(
    module=M, qualname="Table._get_row_indices", params=dict(self=TTabSel, row=TV),
    requires=[("selector-is-a-name-span a:b on the index column", lambda s: z3.And(
        is_slice(s.row.t), z3.Or(is_str(sl_start(s.row.t)), is_str(sl_stop(s.row.t))),
        z3.Or(sl_step(s.row.t) == none_term(), sl_step(s.row.t) == s.self._index.t))),
        ("None-is-not-a-string", lambda s: z3.Not(is_str(none_term())))],
    ensures=[("the-slice [pos(a), pos(b)] inclusive, either side optional", _span_post)],
    raises={"KeyError": dict(when=None, post=[], modifies=())},
    min_obligations=2,
    extra=dict(engine=SelEngine, variant="name-span", prune_unsupported=True))
VARIANTS += [NAME_SPAN]
CONTRACTS += [GET_ROW_INDEX]
