"""C06: the construction sites of access paths, and the equality test itself.

  BaseRef.__getitem__(item)        -> ItemRef(self, item, manager)          the key as given (no normalisation)
  MutableRef.__setitem__(key, v)   -> manager.set_value(ItemRef(self, key, manager), v)   the SAME node the read route builds
  BaseRef.__eq__(other)            -> str(self) == str(other)               equality is equality of the printed form, nothing else
                                                                            (no shortcut through the 32-bit hash, no identity test)
Together with the printing rules (contracts/refs_repr.py: ItemRef prints repr(owner) "[" repr(key) "]", AttrRef owner "." key, ...)
and the slot-based hash (contracts/refs_ctor.py) this is the deductive part of "equal exactly when they denote the same path".
"""
import z3
from pyvc.values import *          # noqa
from pyvc.contract import Contract
from pyvc.refs_engine import RefsEngine
from contracts import refspec as RS
from contracts.refspec import fld, is_ref
from contracts.refs_repr import ReprEngine, py_str

M = "xdeps/refs.py"

GETITEM = Contract(
    module=M, qualname="BaseRef.__getitem__", params=dict(self=TObj("BaseRef"), item=TV), result=TV,
    requires=[("is-ref", lambda s: is_ref(s.self.t))], axioms=[lambda s: z3.And(*RS.global_facts())],
    ensures=[("the-item-step-with-the-key-as-given", lambda o, n, r: r.t == RS.mk["ItemRef"](o.self.t, o.item.t, fld["_manager"](o.self.t)))],
    min_obligations=1, extra=dict(engine=RefsEngine))

SET_VALUE_MGR = Contract(
    module="xdeps/tasks.py", qualname="Manager.set_value", params=dict(self=TV, ref=TV, value=TV), ghost=dict(sv_ref=TV, sv_val=TV),
    ensures=[("recorded", lambda o, n, r: z3.And(n.sv_ref.t == o.ref.t, n.sv_val.t == o.value.t))],
    raises={"UserError": dict(when=None, post=[("recorded", lambda o, n: z3.And(n.sv_ref.t == o.ref.t, n.sv_val.t == o.value.t))],
                              modifies=("sv_ref", "sv_val"))},
    modifies=("sv_ref", "sv_val"), trusted=True, virtual="set_value",
    note="ghost record of what the manager is asked to assign (the manager's own behaviour: C01-C03, C17, C18)")

SETITEM = Contract(
    module=M, qualname="MutableRef.__setitem__", params=dict(self=TObj("MutableRef"), key=TV, value=TV), ghost=dict(sv_ref=TV, sv_val=TV),
    requires=[("is-ref", lambda s: is_ref(s.self.t))], axioms=[lambda s: z3.And(*RS.global_facts())],
    ensures=[("assigns-through-the-same-node-the-read-route-builds", lambda o, n, r: z3.And(
        n.sv_ref.t == RS.mk["ItemRef"](o.self.t, o.key.t, fld["_manager"](o.self.t)), n.sv_val.t == o.value.t))],
    raises={"UserError": dict(when=None, post=[], modifies=("sv_ref", "sv_val"))},
    modifies=("sv_ref", "sv_val"),
    call_ghost={("Manager.set_value", None): lambda st, pre: dict(sv_ref=st.sv_ref, sv_val=st.sv_val)},
    min_obligations=1, extra=dict(engine=RefsEngine, ghost_writeback={"sv_ref": "sv_ref", "sv_val": "sv_val"}, frame_ghosts=False))

EQ = Contract(
    module=M, qualname="BaseRef.__eq__", params=dict(self=TObj("BaseRef"), other=TV), result=TBool,
    requires=[("is-ref", lambda s: is_ref(s.self.t))],
    ensures=[("equality-is-equality-of-the-printed-form", lambda o, n, r: r.t == (py_str(o.self.t) == py_str(o.other.t)))],
    min_obligations=1, extra=dict(engine=ReprEngine))

CONTRACTS = [GETITEM, SET_VALUE_MGR, SETITEM, EQ]
