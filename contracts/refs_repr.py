"""C11: printed form of every reference / expression class of xdeps/refs.py, as a term over uninterpreted text functions.

  py_str(v) / py_repr(v)   : str() / repr() of a slot value (for a reference both are its __repr__: dynamic dispatch, induction)
  fstring[<template>](...) : an f-string with that literal template; `{x}` contributes py_str(x), `{x!r}` py_repr(x)
The contract of each __repr__ is the statement-level printing rule P(e):
  Ref       -> the container label                     AttrRef -> P(owner) "." key            ItemRef -> repr(owner) "[" repr(key) "]"
  BinOp     -> "(" A(lhs) " " op " " P(rhs) ")"         with A(x) = "(" x ")" when the text of x starts with "-" (a negative literal
               must not be re-associated: (-3) ** x), else x
  UnaryOp   -> "(" op P(arg) ")"                        Literal -> repr(arg)                 Eq/Ne   -> repr(lhs) "._eq(" repr(rhs) ")"
That evaluating this text rebuilds the node (Python's grammar: item keys and call arguments via repr are literals, each child is an
atom) is trusted + checked at run time on enumerated trees (rac/c11.py).  BuiltinRef / CallRef (list building, joins): run-time only.
"""
import ast
import z3
from pyvc.values import *          # noqa
from pyvc.contract import Contract
from pyvc.refs_engine import RefsEngine, str_term
from pyvc.engine import PyStr, Unsupported
from pyvc.refs_engine import name_of
from pyvc.tasks_engine import fstring_fn
from contracts import refspec as RS
from contracts.refspec import fld, cls_of, C, is_ref

M = "xdeps/refs.py"
py_str = z3.Function("py_str_of", V, V)
py_repr = z3.Function("py_repr_of", V, V)
starts_minus = z3.Function("text_starts_with_minus", V, BoolS)
opstr_of = z3.Function("class_op_str", V, V)         # the _op_str class attribute of the node's dynamic class
str_join = z3.Function("str_join", V, IntS, z3.ArraySort(IntS, V), V)       # separator, number of parts, parts -> text
OPSYMS = z3.Const("py_global_OPERATOR_SYMBOLS", V)
opsym_has = z3.Function("OPERATOR_SYMBOLS_has", V, BoolS)
opsym_get = z3.Function("OPERATOR_SYMBOLS_get", V, V)
module_of = z3.Function("py_module_name_or_None", V, V)


class ReprEngine(RefsEngine):
    def eval_JoinedStr(self, e, cx):
        parts, tpl = [], []
        for v in e.values:
            if isinstance(v, ast.FormattedValue):
                val = self.eval(v.value, cx)
                t = self.as_v(val)
                if v.conversion == 114:
                    parts.append(py_repr(t))
                    tpl.append("{!r}")
                elif v.conversion in (-1, 115):
                    # a value that already is text contributes itself
                    parts.append(t if getattr(val, "is_text", False) else py_str(t))
                    tpl.append("{}")
                else:
                    raise Unsupported("f-string conversion")
            else:
                tpl.append(v.value)
        r = PyObj(fstring_fn("".join(tpl), len(parts))(*parts))
        r.is_text = True
        return r

    def eval_Compare(self, e, cx):
        # == / != between two TEXTS (results of str() / repr() / f-strings) is plain string comparison
        if len(e.ops) == 1 and isinstance(e.ops[0], (ast.Eq, ast.NotEq)):
            a = self.eval(e.left, cx)
            b = self.eval(e.comparators[0], cx)
            if getattr(a, "is_text", False) and getattr(b, "is_text", False):
                r = a.t == b.t
                return PyBool(r if isinstance(e.ops[0], ast.Eq) else z3.Not(r))
        return super().eval_Compare(e, cx)

    def builtin_str(self, e, cx):
        v = self.eval(e.args[0], cx)
        r = PyObj(py_str(self.as_v(v)))
        r.is_text = True
        return r

    def builtin_repr(self, e, cx):
        v = self.eval(e.args[0], cx)
        r = PyObj(py_repr(self.as_v(v)))
        r.is_text = True
        return r

    def getattr(self, obj, attr, cx, node=None):
        if attr == "_op_str" and isinstance(obj, (PyObj, PyRec)):
            r = PyObj(opstr_of(self.ident(obj)))
            r.is_text = True
            return r
        r = super().getattr(obj, attr, cx, node)
        if attr == "__name__" and isinstance(r, PyObj):
            r.is_text = True          # a function's __name__ is a str: `{fname}` prints it as it is
        return r

    def val_ite(self, c, a, b, cx):
        r = super().val_ite(c, a, b, cx)
        if getattr(a, "is_text", False) and getattr(b, "is_text", False):
            r.is_text = True
        return r

    # ---- lists of texts (BuiltinRef / CallRef: the argument list is built as a list and joined) ----------------------------------
    def eval_List(self, e, cx):
        items = [self.eval(x, cx) for x in e.elts]
        seq = PySeq.empty(TV)
        for it in items:
            if not isinstance(it, PyObj):
                raise Unsupported("list element")
            _, seq = seq.m_append(cx, it)
        return seq

    def binop_hook(self, op, a, b, cx, inplace, node):
        if isinstance(op, ast.Add) and isinstance(a, PySeq) and isinstance(b, PySeq):
            # list + list / list += list: the concatenation (a fresh list for +; for += the same name is rebound to it)
            r = TSeq(TV).fresh("concat")
            i = z3.Int("i!cc")
            cx.assume(z3.And(r.n == a.n + b.n, a.n >= 0, b.n >= 0))
            cx.assume(z3.ForAll([i], z3.Implies(z3.And(0 <= i, i < a.n), r.at(i) == a.at(i)), patterns=[r.at(i)]))
            cx.assume(z3.ForAll([i], z3.Implies(z3.And(0 <= i, i < b.n), r.at(a.n + i) == b.at(i)), patterns=[b.at(i)]))
            return r
        return super().binop_hook(op, a, b, cx, inplace, node)

    def call_method(self, recv, name, e, cx, recv_node):
        if isinstance(recv, PyStr) and name == "join" and len(e.args) == 1:
            arg = self.eval(e.args[0], cx)
            if not isinstance(arg, PySeq):
                raise Unsupported("join of " + type(arg).__name__)
            cx.st.env["@joined"] = arg
            r = PyObj(str_join(z3.Const("str:" + repr(recv.s), V), arg.n, arg.arr))
            r.is_text = True
            return r
        if name == "get" and isinstance(recv, PyObj) and recv.t.eq(OPSYMS) and len(e.args) == 2:
            # OPERATOR_SYMBOLS.get(op, default): the module-level table of builtin names (abs, round, divmod, ...)
            k = self.as_v(self.eval(e.args[0], cx))
            dflt = self.eval(e.args[1], cx)
            r = PyObj(z3.If(opsym_has(k), opsym_get(k), self.as_v(dflt)))
            r.is_text = True
            return r
        if name == "startswith" and isinstance(recv, PyObj) and len(e.args) == 1 and isinstance(e.args[0], ast.Constant) and e.args[0].value == "-":
            return PyBool(starts_minus(recv.t))
        return super().call_method(recv, name, e, cx, recv_node)

    def builtin_sorted(self, e, cx):
        """sorted(xs[, key=...]): SOME rearrangement of xs (which one depends on values the text model does not see)"""
        if len(e.args) != 1:
            raise Unsupported("sorted form")
        src = self.iterate(self.eval(e.args[0], cx), cx)
        for ax in src.axioms:
            cx.assume(ax)
        r = TSeq(TV).fresh("sorted")
        perm = FreshFun("sorted_perm", IntS, IntS)
        inv = FreshFun("sorted_perm_inv", IntS, IntS)
        i = z3.Int("i!so")
        cx.assume(r.n == src.n)
        cx.assume(z3.ForAll([i], z3.Implies(z3.And(0 <= i, i < r.n), z3.And(0 <= perm(i), perm(i) < r.n, inv(perm(i)) == i,
                                                                              r.at(i) == src.at(perm(i)))), patterns=[r.at(i)]))
        return r

    def global_name(self, name, cx, node):
        if name == "OPERATOR_SYMBOLS":
            return PyObj(OPSYMS)
        return super().global_name(name, cx, node)

    def builtin_getattr(self, e, cx):
        if len(e.args) == 3 and isinstance(e.args[1], ast.Constant) and e.args[1].value == "__module__" \
                and isinstance(e.args[2], ast.Constant) and e.args[2].value is None:
            o = self.as_v(self.eval(e.args[0], cx))
            r = PyObj(module_of(o))       # the name of the defining module, or None
            r.is_text = True
            return r
        return super().builtin_getattr(e, cx)

    def py_eq(self, a, b, cx):
        if getattr(a, "is_text", False) and isinstance(b, PyStr):
            return a.t == str_term(b.s)
        return super().py_eq(a, b, cx)


def _c(cname, post, requires=()):
    return Contract(module=M, qualname=f"{cname}.__repr__", params=dict(self=TObj(cname)), result=TV,
                    requires=[("is-ref", lambda s: is_ref(s.self.t))] + list(requires),
                    raises={"AssertionError": dict(when=None, post=[], no_frame=True)},
                    ensures=[("printing-rule", post)], min_obligations=1, extra=dict(engine=ReprEngine))


F = fstring_fn
me = lambda o: o.self.t
REPRS = [
    _c("Ref", lambda o, n, r: r.t == fld["_key"](me(o))),
    _c("AttrRef", lambda o, n, r: r.t == F("{}.{}", 2)(py_str(fld["_owner"](me(o))), py_str(fld["_key"](me(o))))),
    _c("ItemRef", lambda o, n, r: r.t == F("{!r}[{!r}]", 2)(py_repr(fld["_owner"](me(o))), py_repr(fld["_key"](me(o))))),
    _c("BinOpExpr", lambda o, n, r: r.t == F("({} {} {})", 3)(
        z3.If(starts_minus(py_str(fld["_lhs"](me(o)))), F("({})", 1)(py_str(fld["_lhs"](me(o)))), py_str(fld["_lhs"](me(o)))),
        opstr_of(me(o)), py_str(fld["_rhs"](me(o))))),
    _c("UnaryOpExpr", lambda o, n, r: r.t == F("({}{})", 2)(opstr_of(me(o)), py_str(fld["_arg"](me(o))))),
    _c("LiteralExpr", lambda o, n, r: r.t == py_repr(fld["_arg"](me(o)))),
    _c("EqExpr", lambda o, n, r: r.t == F("{!r}._eq({!r})", 2)(py_repr(fld["_lhs"](me(o))), py_repr(fld["_rhs"](me(o))))),
    _c("NeExpr", lambda o, n, r: r.t == F("{!r}._neq({!r})", 2)(py_repr(fld["_lhs"](me(o))), py_repr(fld["_rhs"](me(o))))),
]


# ---- BuiltinRef / CallRef: "name(arg, arg, ..., key=value, ...)" -- the parts in slot order, every argument through repr -----------
_i = z3.Int("i!rp")
SEP = z3.Const("str:" + repr(", "), V)


def _parts(n):
    return getattr(n, "@joined")


def _builtin_post():
    def name(o):
        op = fld["_op"](me(o))
        base = z3.If(opsym_has(op), opsym_get(op), name_of(op))
        return z3.If(module_of(op) == str_term("math"), F("math.{}", 1)(base), base)

    return [
        ("parts: str(arg), then repr of every extra parameter in order", lambda o, n, r: z3.And(
            _parts(n).n == 1 + RS.tup_n(fld["_params"](me(o))),
            _parts(n).at(0) == py_str(fld["_arg"](me(o))),
            z3.ForAll([_i], z3.Implies(z3.And(0 <= _i, _i < RS.tup_n(fld["_params"](me(o)))),
                                       _parts(n).at(1 + _i) == py_repr(RS.tup_at(fld["_params"](me(o)), _i)))))),
        ("printing-rule: name(parts joined by ', '); math.<name> for the math functions", lambda o, n, r:
            r.t == F("{}({})", 2)(name(o), str_join(SEP, _parts(n).n, _parts(n).arr))),
    ]


def _call_post():
    def fname(o):
        f = fld["_func"](me(o))
        return z3.If(is_ref(f), py_repr(f), name_of(f))

    def na(o):
        return RS.tup_n(fld["_args"](me(o)))

    return [
        ("parts: repr of every positional argument in order, then name=repr(value) of every keyword argument in stored order",
         lambda o, n, r: z3.And(
             _parts(n).n == na(o) + RS.tup_n(fld["_kwargs"](me(o))),
             z3.ForAll([_i], z3.Implies(z3.And(0 <= _i, _i < na(o)),
                                        _parts(n).at(_i) == py_repr(RS.tup_at(fld["_args"](me(o)), _i)))),
             z3.ForAll([_i], z3.Implies(z3.And(0 <= _i, _i < RS.tup_n(fld["_kwargs"](me(o)))),
                                        _parts(n).at(na(o) + _i) == F("{}={!r}", 2)(
                                            py_str(RS.kw_name(RS.tup_at(fld["_kwargs"](me(o)), _i))),
                                            py_repr(RS.kw_val(RS.tup_at(fld["_kwargs"](me(o)), _i)))))))),
        ("printing-rule: function(parts joined by ', '), the function printed as a reference when it is one", lambda o, n, r:
            r.t == F("{}({})", 2)(fname(o), str_join(SEP, _parts(n).n, _parts(n).arr))),
    ]


def _c2(cname, posts):
    return Contract(module=M, qualname=f"{cname}.__repr__", params=dict(self=TObj(cname)), result=TV,
                    requires=[("is-ref", lambda s: is_ref(s.self.t))],
                    raises={"PyExc": dict(when=None, post=[], no_frame=True)},
                    ensures=posts, min_obligations=2, extra=dict(engine=ReprEngine))


REPRS += [_c2("BuiltinRef", _builtin_post()), _c2("CallRef", _call_post())]
CONTRACTS = REPRS


# ---- the operator token each class prints is the Python token of the operator the class evaluates (data-model table) -----------
from pyvc.engine import Obligation, StaleContract      # noqa: E402
from pyvc.refs_engine import ClassTable               # noqa: E402

OP_TOKEN = {"add": "+", "sub": "-", "mul": "*", "matmul": "@", "truediv": "/", "floordiv": "//", "mod": "%", "pow": "**", "and_": "&",
            "or_": "|", "xor": "^", "lt": "<", "le": "<=", "eq": "==", "ne": "!=", "ge": ">=", "gt": ">", "rshift": ">>", "lshift": "<<",
            "neg": "-", "pos": "+", "invert": "~"}


class OpTokenEngine:
    def __init__(self, registry, opts=None):
        self.reg = registry
        self.trivial_frames = 0

    def verify(self, c, fdef, classctx=None):
        ct = ClassTable()
        obls = []
        for cname, op in list(RS.BINARY_CLASSES.items()) + list(RS.UNARY_CLASSES.items()):
            got = ct.classes.get(cname, {}).get("attrs", {}).get("_op_str")
            obls.append(Obligation(f"{c.module}:{cname}#prints-operator-token:{OP_TOKEN[op]}", "post", [], z3.BoolVal(got == OP_TOKEN[op]),
                                   c.qualname, 0))
        return obls


OP_TOKENS = Contract(module=M, qualname="BinOpExpr.__repr__", params={}, min_obligations=22,
                     extra=dict(engine=OpTokenEngine, variant="operator-tokens"),
                     note="each generated operator class prints the Python token of the operator its _get_value applies (C04 ties the class to the operator)")
VARIANTS = [OP_TOKENS]
