"""C11: printed form of every reference / expression class of xdeps/refs.py, as a term over uninterpreted text functions.

  py_str(v) / py_repr(v)   : str() / repr() of a slot value (for a reference both are its __repr__: dynamic dispatch, induction)
  fstring[<template>](...) : an f-string with that literal template; `{x}` contributes py_str(x), `{x!r}` py_repr(x)
The contract of each __repr__ is the statement-level printing rule P(e):
  Ref       -> the container label                     AttrRef -> P(owner) "." key            ItemRef -> repr(owner) "[" repr(key) "]"
  BinOp     -> "(" A(lhs) " " op " " P(rhs) ")"         with A(x) = "(" x ")" when the text of x starts with "-" (a negative literal
               must not be re-associated: (-3) ** x), else x
  UnaryOp   -> "(" op P(arg) ")"                        Literal -> repr(arg)                 Eq/Ne   -> repr(lhs) "._eq(" repr(rhs) ")"
That evaluating this text rebuilds the node (Python's grammar: item keys and call arguments via repr are literals, each child is an
atom) is trusted + checked at run time on enumerated trees (rac/c11.py).  BuiltinRef / CallRef (list building, joins): run-time only.
"""
import ast
import z3
from pyvc.values import *          # noqa
from pyvc.contract import Contract
from pyvc.refs_engine import RefsEngine, str_term
from pyvc.engine import PyStr, Unsupported
from pyvc.tasks_engine import fstring_fn
from contracts import refspec as RS
from contracts.refspec import fld, cls_of, C, is_ref

M = "xdeps/refs.py"
py_str = z3.Function("py_str_of", V, V)
py_repr = z3.Function("py_repr_of", V, V)
starts_minus = z3.Function("text_starts_with_minus", V, BoolS)
opstr_of = z3.Function("class_op_str", V, V)         # the _op_str class attribute of the node's dynamic class


class ReprEngine(RefsEngine):
    def eval_JoinedStr(self, e, cx):
        parts, tpl = [], []
        for v in e.values:
            if isinstance(v, ast.FormattedValue):
                val = self.eval(v.value, cx)
                t = self.as_v(val)
                if v.conversion == 114:
                    parts.append(py_repr(t))
                    tpl.append("{!r}")
                elif v.conversion in (-1, 115):
                    # a value that already is text contributes itself
                    parts.append(t if getattr(val, "is_text", False) else py_str(t))
                    tpl.append("{}")
                else:
                    raise Unsupported("f-string conversion")
            else:
                tpl.append(v.value)
        r = PyObj(fstring_fn("".join(tpl), len(parts))(*parts))
        r.is_text = True
        return r

    def eval_Compare(self, e, cx):
        # == / != between two TEXTS (results of str() / repr() / f-strings) is plain string comparison
        if len(e.ops) == 1 and isinstance(e.ops[0], (ast.Eq, ast.NotEq)):
            a = self.eval(e.left, cx)
            b = self.eval(e.comparators[0], cx)
            if getattr(a, "is_text", False) and getattr(b, "is_text", False):
                r = a.t == b.t
                return PyBool(r if isinstance(e.ops[0], ast.Eq) else z3.Not(r))
        return super().eval_Compare(e, cx)

    def builtin_str(self, e, cx):
        v = self.eval(e.args[0], cx)
        r = PyObj(py_str(self.as_v(v)))
        r.is_text = True
        return r

    def builtin_repr(self, e, cx):
        v = self.eval(e.args[0], cx)
        r = PyObj(py_repr(self.as_v(v)))
        r.is_text = True
        return r

    def call_method(self, recv, name, e, cx, recv_node):
        if name == "startswith" and isinstance(recv, PyObj) and len(e.args) == 1 and isinstance(e.args[0], ast.Constant) and e.args[0].value == "-":
            return PyBool(starts_minus(recv.t))
        return super().call_method(recv, name, e, cx, recv_node)

    def getattr(self, obj, attr, cx, node=None):
        if attr == "_op_str" and isinstance(obj, (PyObj, PyRec)):
            r = PyObj(opstr_of(self.ident(obj)))
            r.is_text = True
            return r
        r = super().getattr(obj, attr, cx, node)
        return r

    def val_ite(self, c, a, b, cx):
        r = super().val_ite(c, a, b, cx)
        if getattr(a, "is_text", False) and getattr(b, "is_text", False):
            r.is_text = True
        return r


def _c(cname, post, requires=()):
    return Contract(module=M, qualname=f"{cname}.__repr__", params=dict(self=TObj(cname)), result=TV,
                    requires=[("is-ref", lambda s: is_ref(s.self.t))] + list(requires),
                    raises={"AssertionError": dict(when=None, post=[], no_frame=True)},
                    ensures=[("printing-rule", post)], min_obligations=1, extra=dict(engine=ReprEngine))


F = fstring_fn
me = lambda o: o.self.t
REPRS = [
    _c("Ref", lambda o, n, r: r.t == fld["_key"](me(o))),
    _c("AttrRef", lambda o, n, r: r.t == F("{}.{}", 2)(py_str(fld["_owner"](me(o))), py_str(fld["_key"](me(o))))),
    _c("ItemRef", lambda o, n, r: r.t == F("{!r}[{!r}]", 2)(py_repr(fld["_owner"](me(o))), py_repr(fld["_key"](me(o))))),
    _c("BinOpExpr", lambda o, n, r: r.t == F("({} {} {})", 3)(
        z3.If(starts_minus(py_str(fld["_lhs"](me(o)))), F("({})", 1)(py_str(fld["_lhs"](me(o)))), py_str(fld["_lhs"](me(o)))),
        opstr_of(me(o)), py_str(fld["_rhs"](me(o))))),
    _c("UnaryOpExpr", lambda o, n, r: r.t == F("({}{})", 2)(opstr_of(me(o)), py_str(fld["_arg"](me(o))))),
    _c("LiteralExpr", lambda o, n, r: r.t == py_repr(fld["_arg"](me(o)))),
    _c("EqExpr", lambda o, n, r: r.t == F("{!r}._eq({!r})", 2)(py_repr(fld["_lhs"](me(o))), py_repr(fld["_rhs"](me(o))))),
    _c("NeExpr", lambda o, n, r: r.t == F("{!r}._neq({!r})", 2)(py_repr(fld["_lhs"](me(o))), py_repr(fld["_rhs"](me(o))))),
]
CONTRACTS = REPRS


# ---- the operator token each class prints is the Python token of the operator the class evaluates (data-model table) -----------
from pyvc.engine import Obligation, StaleContract      # noqa: E402
from pyvc.refs_engine import ClassTable               # noqa: E402

OP_TOKEN = {"add": "+", "sub": "-", "mul": "*", "matmul": "@", "truediv": "/", "floordiv": "//", "mod": "%", "pow": "**", "and_": "&",
            "or_": "|", "xor": "^", "lt": "<", "le": "<=", "eq": "==", "ne": "!=", "ge": ">=", "gt": ">", "rshift": ">>", "lshift": "<<",
            "neg": "-", "pos": "+", "invert": "~"}


class OpTokenEngine:
    def __init__(self, registry, opts=None):
        self.reg = registry
        self.trivial_frames = 0

    def verify(self, c, fdef, classctx=None):
        ct = ClassTable()
        obls = []
        for cname, op in list(RS.BINARY_CLASSES.items()) + list(RS.UNARY_CLASSES.items()):
            got = ct.classes.get(cname, {}).get("attrs", {}).get("_op_str")
            obls.append(Obligation(f"{c.module}:{cname}#prints-operator-token:{OP_TOKEN[op]}", "post", [], z3.BoolVal(got == OP_TOKEN[op]),
                                   c.qualname, 0))
        return obls


OP_TOKENS = Contract(module=M, qualname="BinOpExpr.__repr__", params={}, min_obligations=22,
                     extra=dict(engine=OpTokenEngine, variant="operator-tokens"),
                     note="each generated operator class prints the Python token of the operator its _get_value applies (C04 ties the class to the operator)")
VARIANTS = [OP_TOKENS]
