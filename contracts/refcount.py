"""Contracts for xdeps.refs.RefCount (refs.py, bottom of the file).

Concrete representation (used when the methods themselves are verified): a dict
key -> int (PyMap with Int values) with the class invariant "every stored count
is >= 1".  Abstract view (used by callers, PyCount): total map key -> int,
absent == 0.  `cnt_of` reads either; the contracts are phrased over it, so one
contract serves both sides of the modular call.
"""
import z3
from pyvc.values import *          # noqa
from pyvc.contract import Contract, LoopSpec

M = "xdeps/refs.py"
x = z3.Const("x!rc", V)

TRefCountConcrete = TMap(TInt, cls="RefCount")


def cnt_of(c, k):
    k = term(k)
    if isinstance(c, PyCount):
        return c.cnt(k)
    return z3.If(c.has(k), c.get(k), 0)


def rc_inv(c):
    if isinstance(c, PyCount):
        return z3.ForAll([x], c.cnt(x) >= 0, patterns=[c.cnt(x)])
    return z3.ForAll([x], z3.Implies(c.has(x), c.get(x) >= 1))


APPEND = Contract(
    module=M, qualname="RefCount.append",
    params=dict(self=TRefCountConcrete, item=TV),
    requires=[("inv", lambda s: rc_inv(s.self))],
    ensures=[
        ("count+1", lambda o, n, r: cnt_of(n.self, o.item) == cnt_of(o.self, o.item) + 1),
        ("others-kept", lambda o, n, r: z3.ForAll([x], z3.Implies(x != o.item.t, cnt_of(n.self, x) == cnt_of(o.self, x)))),
        ("inv", lambda o, n, r: rc_inv(n.self)),
    ],
    modifies=("self",), min_obligations=3,
)

EXTEND = Contract(
    module=M, qualname="RefCount.extend",
    params=dict(self=TRefCountConcrete, other=TSet),
    requires=[("inv", lambda s: rc_inv(s.self))],
    ensures=[
        ("count+indicator", lambda o, n, r: z3.ForAll([x], cnt_of(n.self, x) == cnt_of(o.self, x) + z3.If(o.other.has(x), 1, 0))),
        ("inv", lambda o, n, r: rc_inv(n.self)),
    ],
    modifies=("self",),
    loops={0: LoopSpec(anchor="other", invariants=[
        ("prefix", lambda L: z3.ForAll([x], cnt_of(L.cur.self, x) == cnt_of(L.old.self, x)
                                       + z3.If(z3.And(L.old.other.has(x), L.idx(x) < L.k), 1, 0))),
        ("inv", lambda L: rc_inv(L.cur.self)),
        ("index", lambda L: z3.And(0 <= L.k, L.k <= L.n)),
    ])},
    min_obligations=6,
    extra=dict(param_note="`other` is declared a set: Manager.register passes task.targets; any duplicate-free iterable behaves the same"),
)

REMOVE = Contract(
    module=M, qualname="RefCount.remove",
    params=dict(self=TRefCountConcrete, item=TV),
    requires=[("inv", lambda s: rc_inv(s.self))],
    ensures=[
        ("count-1", lambda o, n, r: cnt_of(n.self, o.item) == cnt_of(o.self, o.item) - 1),
        ("others-kept", lambda o, n, r: z3.ForAll([x], z3.Implies(x != o.item.t, cnt_of(n.self, x) == cnt_of(o.self, x)))),
        ("inv", lambda o, n, r: rc_inv(n.self)),
    ],
    raises={"KeyError": dict(when=lambda s: cnt_of(s.self, s.item) <= 0, exact=True, post=[], modifies=())},
    modifies=("self",), min_obligations=6,
)

CONTRACTS = [APPEND, EXTEND, REMOVE]
