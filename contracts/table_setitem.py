"""C07: the class invariant CacheOK across the mutators of xdeps/table.py.

  CacheOK(t)  ==  t._index_cache is None, or (t._index_cache, t._count_cache) is RIGHT for the current index column
                  t._data[t._index]   (complete, sound, counts: contracts/table_cache.py)

Table.__setitem__ (also bound as __setattr__) is the one entry point of "whole-column assignment, cell assignment by position or
name, attribute-style assignment, new columns, re-pointing the index": it must give CacheOK back on every exit.  The proof is a
frame argument carried by the data model of pyvc/setitem_engine.py: a store into column k leaves every other column as it
was, so a cache that was right stays right unless k is the index column -- and on every path that stores into the index
column, or changes `_index`, the cache fields end up None (before the store when nothing rebuilds them in between, after it
otherwise).  prefix_count is a function of the column ARRAY, so "the column is unchanged" carries the whole of cache_ok over
by congruence.
"""
import z3
from pyvc.values import *          # noqa
from pyvc.contract import Contract
from pyvc.engine import str_term, none_term
from pyvc.setitem_engine import SetitemEngine, is_type, in_attrs
from pyvc.table_engine import is_pair
from contracts.table_cache import TTable, TCache, cache_field_ok, cntp_axioms, cntp, M
from pyvc.table_engine import TData, col_arr, col_len

# the record of table_cache.py plus the (opaque) list of column names
TTableM = TRec("Table", dict(_data=TData, _index=TV, _sep_count=TV, _index_cache=TOpt(TCache), _count_cache=TOpt(TCache),
                             _names_cache=TV, _col_names=TV, _name_cache=TV))


def content_lemma(s):
    """prefix_count is a function of the column CONTENT: two (data, key) pairs with the same column array and length have the
    same prefix counts.  (Induction over the defining equations of prefix_count, which mention the column only through
    col.at(i); stated as an axiom of the specification function, listed in the evidence.)"""
    D1, K1, D2, K2, nm = z3.Consts("D1!cl K1!cl D2!cl K2!cl nm!cl", V)
    i = z3.Int("i!cl")
    return z3.ForAll([D1, K1, D2, K2, nm, i], z3.Implies(
        z3.And(col_arr(D1, K1) == col_arr(D2, K2), col_len(D1, K1) == col_len(D2, K2)),
        cntp(D1, K1, nm, i) == cntp(D2, K2, nm, i)), patterns=[z3.MultiPattern(cntp(D1, K1, nm, i), col_arr(D2, K2))])

PRIVATE = ("_data", "_index_cache", "_count_cache", "_names_cache")
NAMES = PRIVATE + ("_index", "_sep_count", "_name_cache", "_col_names")


def _strings(s):
    return z3.Distinct(*([str_term(n) for n in NAMES] + [none_term()]))


def api_key(s):
    """attribute-style assignment is part of the API for the documented fields only: `t._data = ...` or poking the cache fields
    directly is outside it (and outside property C07's quantifier)"""
    return z3.And(*[s.key.t != str_term(n) for n in PRIVATE])


OPAQUE = ("_get_cache", "_get_row_cache_raise", "_split_name_count_offset", "_get_row_indices", "__len__")
_exc = dict(when=None, post=[("CacheOK", lambda o, n: cache_field_ok(n.self))],
            modifies=("self._data", "self._index", "self._sep_count", "self._index_cache", "self._count_cache", "self._names_cache", "self._col_names", "self._name_cache"))

SETITEM = Contract(
    module=M, qualname="Table.__setitem__", params=dict(self=TTableM, key=TV, val=TV),
    requires=[("CacheOK", lambda s: cache_field_ok(s.self)), ("api-key", api_key)],
    axioms=[lambda s: cntp_axioms(s.self), _strings, content_lemma],
    ensures=[("CacheOK", lambda o, n, r: cache_field_ok(n.self))],
    raises={"ValueError": _exc, "KeyError": _exc, "IndexError": _exc, "UserError": _exc},
    modifies=("self._data", "self._index", "self._sep_count", "self._index_cache", "self._count_cache", "self._names_cache", "self._col_names", "self._name_cache"),
    min_obligations=6,
    extra=dict(engine=SetitemEngine, class_invariant=cache_field_ok, cache_fields=("_index_cache", "_count_cache", "_names_cache"),
               opaque_self_calls=OPAQUE, opaque_results={"_get_cache": "cache-pair", "_split_name_count_offset": "triple"},
               # every store into a table's data in the module sits in one of these (checked on every run; the five mutators are
               # under contract here, __init__/_update run before any lookup table exists, __mul__ writes into a fresh copy)
               data_writers=("Table.__init__", "Table.__setitem__", "Table.__delitem__", "Table._concatenate_table", "Table.pop",
                             "Table._append_row", "Table._update", "Table.__mul__")),
    note="class invariant across the single mutating entry point; callees by one weak contract (requires/ensures CacheOK, modifies "
         "the cache fields only, may raise): implied by the proved contracts of _get_cache and _get_row_cache_raise, assumed for "
         "_split_name_count_offset (static parsing) and _get_row_indices (reads; its cache use goes through _get_cache)")

# ----------------------------------------------------------------------------- the row-appending mutators
from pyvc.contract import LoopSpec      # noqa: E402
_MODS = ("self._data", "self._index_cache", "self._count_cache")
_noclaim = dict(when=None, post=[], modifies=_MODS)
_loop = {0: LoopSpec(anchor="self._col_names", invariants=[], modifies=("self._data",))}

APPEND_ROW = Contract(
    module=M, qualname="Table._append_row", params=dict(self=TTableM, row=TV),
    requires=[("CacheOK", lambda s: cache_field_ok(s.self))], axioms=[lambda s: cntp_axioms(s.self), _strings],
    ensures=[("CacheOK", lambda o, n, r: cache_field_ok(n.self)), ("lookup-tables-dropped", lambda o, n, r: n.self._index_cache.is_none)],
    raises={"KeyError": _noclaim, "UserError": _noclaim}, modifies=_MODS, loops=_loop, min_obligations=2,
    extra=dict(engine=SetitemEngine, class_invariant=cache_field_ok, cache_fields=("_index_cache", "_count_cache", "_names_cache")),
    note="every column grows by one row, then the lookup tables are dropped; a row that lacks a column makes the loop raise half way "
         "and leaves a non-rectangular table: no claim on that exit (outside C07's quantifier, C14's business)")

CONCAT = Contract(
    module=M, qualname="Table._concatenate_table", params=dict(self=TTableM, table=TTableM), result=None,
    requires=[("CacheOK", lambda s: cache_field_ok(s.self))], axioms=[lambda s: cntp_axioms(s.self), _strings],
    ensures=[("CacheOK", lambda o, n, r: cache_field_ok(n.self)), ("lookup-tables-dropped", lambda o, n, r: n.self._index_cache.is_none)],
    raises={"KeyError": _noclaim, "UserError": _noclaim}, modifies=_MODS,
    loops={0: LoopSpec(anchor="table._col_names", invariants=[], modifies=("self._data",))}, min_obligations=2,
    extra=dict(engine=SetitemEngine, class_invariant=cache_field_ok, cache_fields=("_index_cache", "_count_cache", "_names_cache")))

# ----------------------------------------------------------------------------- removing a column
_del_req = [("CacheOK", lambda s: cache_field_ok(s.self)),
            ("not-the-index-column", lambda s: s.key.t != s.self._index.t)]
DELITEM = Contract(
    module=M, qualname="Table.__delitem__", params=dict(self=TTableM, key=TV),
    requires=_del_req, axioms=[lambda s: cntp_axioms(s.self), _strings, content_lemma],
    ensures=[("CacheOK", lambda o, n, r: cache_field_ok(n.self))],
    raises={"KeyError": dict(when=None, post=[("CacheOK", lambda o, n: cache_field_ok(n.self))], modifies=("self._data", "self._col_names"))},
    modifies=("self._data", "self._col_names"), min_obligations=2,
    extra=dict(engine=SetitemEngine, class_invariant=cache_field_ok, cache_fields=("_index_cache", "_count_cache", "_names_cache")),
    note="deleting a column other than the index column leaves the index column, hence the lookup tables, as they were "
         "(deleting the index column itself leaves a table without rows to name: outside C07)")
POP = Contract(
    module=M, qualname="Table.pop", params=dict(self=TTableM, key=TV), result=None,
    requires=_del_req, axioms=[lambda s: cntp_axioms(s.self), _strings, content_lemma],
    ensures=[("CacheOK", lambda o, n, r: cache_field_ok(n.self))],
    raises={"KeyError": dict(when=None, post=[("CacheOK", lambda o, n: cache_field_ok(n.self))], modifies=("self._data", "self._col_names"))},
    modifies=("self._data", "self._col_names"), min_obligations=2,
    extra=dict(engine=SetitemEngine, class_invariant=cache_field_ok, cache_fields=("_index_cache", "_count_cache", "_names_cache")))

CONTRACTS = [SETITEM, APPEND_ROW, CONCAT, DELITEM, POP]
