"""C08: Table._get_regexp_indices -- the regular-expression selectors 'regexp' and 'regexp::count<<offset' (block contracts).

Statement (C08): a string selector selects, in ascending table order, the rows whose index name is fully matched by the regular
expression; with '::count' the count-th occurrence (negative: from the last) of every matched name; '<<k' / '>>k' shift the positions.

The function is verified in two blocks, mechanically cut out of the real body:
  block "scan"    (from `iilst = []` to the end of the first loop): iilst = the matched row positions, ascending, exactly;
                   nnlst = the set of matched names
  block "combine" (from `if count is not None:` to the return): from that, the returned positions are, ascending and exactly,
                   those rows i with  match(col[i])  and (count is None or  occ(i) == norm(count, col[i])),  shifted by offset
What the cut drops: the first three statements (splitting the selector -- string parsing, run-time checked -- and the exact-name
shortcut, which is known finding K2).  `re` itself is trusted: match(pattern, name) is an uninterpreted predicate.
"""
import z3
from pyvc.values import *          # noqa
from pyvc.contract import Contract, LoopSpec
from pyvc.regexp_engine import RegexpEngine, matches
from pyvc.table_engine import TData
from pyvc.engine import NS
from contracts.table_cache import TTable, cache_field_ok, cntp_axioms, cp, col_of, GET_ROW_CACHE

M = "xdeps/table.py"
i, j, q, q2 = z3.Ints("i!rx j!rx q!rx q2!rx")
x = z3.Const("x!rx", V)
TSeqInt = TSeq(TInt)


def m_(s, name):
    return matches(s.regexpr.t, name)


TTableR = TRec("Table", dict(_data=TData, _index=TV, _sep_count=TV, _index_cache=TOpt(TMap(TInt)), _count_cache=TOpt(TMap(TInt)),
                             _names_cache=TV, _regex_flags=TV))


# ----------------------------------------------------------------------------- block "scan"
def _scan_inv():
    def hits(L):
        s, c = L.cur, L.cur
        col = col_of(L.old.self)
        il = c.iilst
        return z3.And(
            0 <= il.n, il.n <= L.k,
            z3.ForAll([q], z3.Implies(z3.And(0 <= q, q < il.n), z3.And(0 <= il.at(q), il.at(q) < L.k, m_(s, col.at(il.at(q))))),
                      patterns=[il.at(q)]),
            z3.ForAll([q, q2], z3.Implies(z3.And(0 <= q, q < q2, q2 < il.n), il.at(q) < il.at(q2)),
                      patterns=[z3.MultiPattern(il.at(q), il.at(q2))]),
            z3.ForAll([i], z3.Implies(z3.And(0 <= i, i < L.k, m_(s, col.at(i))),
                                      z3.And(0 <= c.gp.at(i), c.gp.at(i) < il.n, il.at(c.gp.at(i)) == i)), patterns=[c.gp.at(i)]))

    def names(L):
        s, c = L.cur, L.cur
        col = col_of(L.old.self)
        return z3.And(
            z3.ForAll([x], z3.Implies(c.nnlst.has(x), z3.And(m_(s, x), 0 <= c.gw.cnt(x), c.gw.cnt(x) < L.k, col.at(c.gw.cnt(x)) == x)),
                      patterns=[c.nnlst.has(x)]),
            z3.ForAll([i], z3.Implies(z3.And(0 <= i, i < L.k, m_(s, col.at(i))), c.nnlst.has(col.at(i))), patterns=[col.at(i)]))
    return [("hits-so-far: ascending, exactly the matched rows", hits), ("names-so-far: exactly the matched names", names),
            ("index", lambda L: z3.And(0 <= L.k, L.k <= L.n, L.n == col_of(L.old.self).n))]


def _scan_ghost(L, st):
    """ghost maps: gp[row] = place of the row in iilst; gw[name] = a row carrying the name"""
    col = col_of(L.old.self)
    hit = matches(st.env["regexpr"].t, col.at(L.k))
    il, gp, gw = st.env["iilst"], st.env["gp"], st.env["gw"]
    # (named by constants: terms with `if` cannot occur in quantifier patterns)
    gp2, gw2 = FreshConst(gp.arr.sort(), "gp"), FreshConst(gw.arr.sort(), "gw")
    st.hyps.append(gp2 == z3.If(hit, z3.Store(gp.arr, L.k, il.n - 1), gp.arr))
    st.hyps.append(gw2 == z3.If(hit, z3.Store(gw.arr, col.at(L.k), L.k), gw.arr))
    st.env["gp"] = PySeq(gp.n, gp2, TInt, gp.axioms)
    st.env["gw"] = PyCount(gw2)


def scan_post(o, n, pat=None):
    col = col_of(o.self)
    il = n.iilst
    o = NS(dict(regexpr=pat if pat is not None else n.regexpr))
    return z3.And(
        z3.ForAll([q], z3.Implies(z3.And(0 <= q, q < il.n), z3.And(0 <= il.at(q), il.at(q) < col.n, m_(o, col.at(il.at(q))))), patterns=[il.at(q)]),
        z3.ForAll([q, q2], z3.Implies(z3.And(0 <= q, q < q2, q2 < il.n), il.at(q) < il.at(q2)), patterns=[z3.MultiPattern(il.at(q), il.at(q2))]),
        z3.ForAll([i], z3.Implies(z3.And(0 <= i, i < col.n, m_(o, col.at(i))),
                                  z3.And(0 <= n.gp.at(i), n.gp.at(i) < il.n, il.at(n.gp.at(i)) == i)), patterns=[n.gp.at(i)]),
        z3.ForAll([x], z3.Implies(n.nnlst.has(x), z3.And(m_(o, x), 0 <= n.gw.cnt(x), n.gw.cnt(x) < col.n, col.at(n.gw.cnt(x)) == x)),
                  patterns=[n.nnlst.has(x)]),
        z3.ForAll([i], z3.Implies(z3.And(0 <= i, i < col.n, m_(o, col.at(i))), n.nnlst.has(col.at(i))), patterns=[col.at(i)]))


SCAN = Contract(
    module=M, qualname="Table._get_regexp_indices", params=dict(self=TTableR, name=TV), ghost=dict(gp=TSeqInt, gw=TCount),
    ensures=[("iilst = the matched rows, ascending, exactly; nnlst = the matched names, exactly", lambda o, n, r: scan_post(o, n))],
    loops={0: LoopSpec(anchor="enumerate(self._data[self._index])", invariants=_scan_inv(), ghost_step=_scan_ghost, modifies=("gp", "gw"))},
    modifies=("gp", "gw"), min_obligations=6,
    extra=dict(engine=RegexpEngine, variant="scan", local_types=dict(iilst=TSeqInt), frame_ghosts=False,
               block=dict(first="regexpr = re.compile(name, flags=self._regex_flags)", last="for ii, nn in enumerate(self._data[self._index]):")),
    note="every row is tested with fullmatch, hits are collected in table order")

# ----------------------------------------------------------------------------- block "combine"
def cc_of(s, name):
    """the occurrence number the statement assigns to (name, count): negative counts are taken from the last occurrence"""
    f = cp(s.self)
    c0 = s.count.value.t
    return z3.If(c0 < 0, c0 + f(name, col_of(s.self).n), c0)


def selected(s, pos, pat):
    """the statement's predicate: row `pos` is selected by  'regexp'  /  'regexp::count'"""
    col, f = col_of(s.self), cp(s.self)
    return z3.And(0 <= pos, pos < col.n, matches(pat, col.at(pos)),
                  z3.Or(s.count.is_none, f(col.at(pos), pos) == cc_of(s, col.at(pos))))


def _comb_inv():
    def g(L):
        s, c = L.old, L.cur
        col, f = col_of(s.self), cp(s.self)
        il, gn, gq = c.iilst, c.gn, c.gq
        return z3.And(
            0 <= il.n, il.n <= L.k,
            # every collected position is THE row of a visited matched name with the requested occurrence number
            z3.ForAll([q], z3.Implies(z3.And(0 <= q, q < il.n), z3.And(
                0 <= il.at(q), il.at(q) < col.n, col.at(il.at(q)) == gn.at(q), f(gn.at(q), il.at(q)) == cc_of(s, gn.at(q)),
                s.nnlst.has(gn.at(q)), 0 <= L.idx(gn.at(q)), L.idx(gn.at(q)) < L.k)), patterns=[il.at(q)]),
            # collected in visiting order: different places hold different names
            z3.ForAll([q, q2], z3.Implies(z3.And(0 <= q, q < q2, q2 < il.n), L.idx(gn.at(q)) < L.idx(gn.at(q2))),
                      patterns=[z3.MultiPattern(gn.at(q), gn.at(q2))]),
            # nothing missed: a visited name that has such a row has it collected
            z3.ForAll([x, i], z3.Implies(z3.And(s.nnlst.has(x), L.idx(x) < L.k, 0 <= i, i < col.n, col.at(i) == x, f(x, i) == cc_of(s, x)),
                                         z3.And(0 <= gq.cnt(x), gq.cnt(x) < il.n, il.at(gq.cnt(x)) == i)),
                      patterns=[z3.MultiPattern(s.nnlst.has(x), f(x, i))]))
    return [("collected: the requested occurrence of every visited name, each once", g),
            ("cache-invariant", lambda L: cache_field_ok(L.cur.self)),
            ("index", lambda L: z3.And(0 <= L.k, L.k <= L.n))]


def _comb_ghost(L, st):
    il, gn, gq, idx, nn = st.env["iilst"], st.env["gn"], st.env["gq"], st.env["idx"], st.env["nn"]
    hit = z3.Not(idx.is_none)
    gn2, gq2 = FreshConst(gn.arr.sort(), "gn"), FreshConst(gq.arr.sort(), "gq")
    st.hyps.append(gn2 == z3.If(hit, z3.Store(gn.arr, il.n - 1, nn.t), gn.arr))
    st.hyps.append(gq2 == z3.If(hit, z3.Store(gq.arr, nn.t, il.n - 1), gq.arr))
    st.env["gn"] = PySeq(gn.n, gn2, TV, gn.axioms)
    st.env["gq"] = PyCount(gq2)


def _comb_post(o, n, r):
    pat = o.regexpr.t
    col = col_of(o.self)
    if not (isinstance(r, PySeq) and hasattr(r, "shift_of") and hasattr(r.shift_of[0], "sorted_of")):
        return z3.BoolVal(False)
    srt = r.shift_of[0]
    arg, fw, bw = srt.sorted_of
    # where row i sits in the list handed to sorted(): through the scan's map (no count) or the loop's map (count)
    place = lambda pos: z3.If(o.count.is_none, o.gp.at(pos), n.gq.cnt(col.at(pos)))
    wit = lambda pos: z3.Select(bw, place(pos))
    off = o.offset.t
    return z3.And(
        z3.ForAll([q], z3.Implies(z3.And(0 <= q, q < r.n), selected(o, r.at(q) - off, pat)), patterns=[r.at(q)]),
        z3.ForAll([q, q2], z3.Implies(z3.And(0 <= q, q < q2, q2 < r.n), r.at(q) < r.at(q2)), patterns=[z3.MultiPattern(r.at(q), r.at(q2))]),
        z3.ForAll([i], z3.Implies(selected(o, i, pat), z3.And(0 <= wit(i), wit(i) < r.n, r.at(wit(i)) == i + off)), patterns=[col.at(i)]))


def _scan_facts(s):
    return scan_post(s, s, pat=s.regexpr)


COMBINE = Contract(
    module=M, qualname="Table._get_regexp_indices",
    params=dict(self=TTableR, iilst=TSeqInt, nnlst=TSet, count=TOpt(TInt), offset=TInt, regexpr=TV),
    ghost=dict(gp=TSeqInt, gw=TCount, gn=TSeq(TV), gq=TCount), result=TSeqInt,
    requires=[("the-scan-block's-postcondition", _scan_facts), ("CacheOK", lambda s: cache_field_ok(s.self))],
    axioms=[lambda s: cntp_axioms(s.self)],
    ensures=[("exactly-the-selected-rows, ascending, shifted by the offset", _comb_post),
             ("CacheOK", lambda o, n, r: cache_field_ok(n.self))],
    loops={0: LoopSpec(anchor="nnlst", invariants=_comb_inv(), ghost_step=_comb_ghost, modifies=("gn", "gq", "self._index_cache", "self._count_cache", "self._names_cache"))},
    modifies=("iilst", "gn", "gq", "self._index_cache", "self._count_cache", "self._names_cache"), min_obligations=8,
    extra=dict(engine=RegexpEngine, variant="combine", local_types=dict(iilst=TSeqInt), frame_ghosts=False,
               block=dict(first="if count is not None:", last="return np.array(sorted(iilst), dtype=int) + offset", nth=1, of=2)),
    note="with '::count': for every matched name the row of its count-th occurrence (via the proved _get_row_cache), each once; "
         "always: sorted ascending, shifted by the offset")

VARIANTS = [SCAN, COMBINE]
CONTRACTS = []
