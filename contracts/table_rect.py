"""Sidecar contracts for the Table derivations of xdeps/table.py (DESIGN.md section 4, C14).

Rect(t)  ==  t._index is one of t._col_names;  the names are pairwise distinct;  every listed name is a key of t._data and all
             listed columns have one common length (= len(t)).
Each deriving method: requires Rect(self); ensures Rect(result), the derived column list is a NEW list object with the expected
content, scalar entries (keys of _data that are not columns) carried over; frame: nothing of `self` is modified.
"""
import z3
from pyvc.values import *          # noqa
from pyvc.contract import Contract, LoopSpec
from pyvc.rect_engine import RectEngine, TNameList, PyNameList, alen, take, sel_len, WATERMARK
from pyvc.engine import NS

M = "xdeps/table.py"
i, j = z3.Ints("i!r j!r")
k = z3.Const("k!r", V)
TTab = TRec("Table", dict(_data=TMap(TV), _col_names=TNameList, _index=TV, _sep_count=TV, _sep_previous=TV, _sep_next=TV, _regex_flags=TV))
ENG = dict(engine=RectEngine)
nrows = z3.Function("table_len", V, IntS)      # helper symbol: the common column length, as a function of the index column array


def common_len(t):
    return alen(t._data.get(t._index.t))


def rect(t, L=None):
    L = common_len(t) if L is None else L
    nm = t._col_names
    return z3.And(
        nm.n >= 1, nm.has(t._index.t),
        z3.ForAll([i, j], z3.Implies(z3.And(0 <= i, i < j, j < nm.n), nm.at(i) != nm.at(j))),
        z3.ForAll([i], z3.Implies(z3.And(0 <= i, i < nm.n), z3.And(t._data.has(nm.at(i)), alen(t._data.get(nm.at(i))) == L)),
                  patterns=[nm.at(i)]))


def scalars_carried(src, dst):
    return z3.ForAll([k], z3.Implies(z3.And(src._data.has(k), z3.Not(src._col_names.has(k))),
                                     z3.And(dst._data.has(k), dst._data.get(k) == src._data.get(k))), patterns=[src._data.has(k)])


KEYS = Contract(
    module=M, qualname="Table.keys", params=dict(self=TTab, exclude_columns=TBool), result=TSet,
    ensures=[("non-column-keys", lambda o, n, r: z3.Implies(o.exclude_columns.t, z3.ForAll(
        [k], r.has(k) == z3.And(o.self._data.has(k), z3.Not(o.self._col_names.has(k))), patterns=[r.has(k)])))],
    defaults=dict(exclude_columns=lambda: PyBool(False)), min_obligations=1, extra=dict(ENG),
    note="keys(exclude_columns=True) == set(_data) - set(_col_names); the other branch returns the dict's key view (opaque, no claim)")


# ----------------------------------------------------------------------------- _select_rows
def _sr_inv0():
    def g(L):
        s, d = L.old.self, L.cur.data
        nm = s._col_names
        want = sel_len(L.old.rows.t, common_len(s))
        return z3.And(
            z3.ForAll([j], z3.Implies(z3.And(0 <= j, j < L.k), z3.And(d.has(nm.at(j)), alen(d.get(nm.at(j))) == want)), patterns=[nm.at(j)]),
            z3.ForAll([k], z3.Implies(d.has(k), z3.Exists([j], z3.And(0 <= j, j < L.k, nm.at(j) == k))), patterns=[d.has(k)]))
    return [("columns-so-far-selected-with-one-length", g), ("index", lambda L: z3.And(0 <= L.k, L.k <= L.n, L.n == L.old.self._col_names.n))]


def _sr_inv1():
    def g(L):
        s, d, d0 = L.old.self, L.cur.data, L.pre.data
        return z3.And(
            z3.ForAll([k], z3.Implies(d0.has(k), z3.And(d.has(k), d.get(k) == d0.get(k))), patterns=[d0.has(k)]),   # columns untouched
            z3.ForAll([k], z3.Implies(z3.And(s._data.has(k), z3.Not(s._col_names.has(k)), L.idx(k) < L.k),
                                      z3.And(d.has(k), d.get(k) == s._data.get(k))), patterns=[s._data.has(k)]))
    return [("scalars-so-far-carried-columns-kept", g), ("index", lambda L: z3.And(0 <= L.k, L.k <= L.n))]


def _derived_ok(o, r, new_len):
    return z3.And(rect(r, new_len), r._index.t == o.self._index.t)


SELECT_ROWS = Contract(
    module=M, qualname="Table._select_rows", params=dict(self=TTab, rows=TV), result=TTab,
    requires=[("Rect", lambda s: rect(s.self))],
    axioms=[lambda s: s.self._col_names.oid <= WATERMARK],
    ensures=[("Rect-of-the-result", lambda o, n, r: _derived_ok(o, r, sel_len(o.rows.t, common_len(o.self)))),
             ("same-columns-in-a-new-list", lambda o, n, r: z3.And(
                 r._col_names.oid != o.self._col_names.oid, r._col_names.n == o.self._col_names.n,
                 z3.ForAll([j], z3.Implies(z3.And(0 <= j, j < r._col_names.n), r._col_names.at(j) == o.self._col_names.at(j)),
                           patterns=[r._col_names.at(j)]))),
             ("scalars-carried", lambda o, n, r: scalars_carried(o.self, r))],
    loops={0: LoopSpec(anchor="self._col_names", invariants=_sr_inv0()),
           1: LoopSpec(anchor="self.keys(exclude_columns=True)", invariants=_sr_inv1())},
    min_obligations=8, extra=dict(ENG),
    note="every rows[...] / head / tail / reverse / -t goes through _select_rows")

CONTRACTS = [KEYS, SELECT_ROWS]


# ----------------------------------------------------------------------------- _select_cols
GETITEM_COL = Contract(
    module=M, qualname="Table.__getitem__", params=dict(self=TTab, args=TV), result=TV,
    ensures=[("a-column-or-an-element-wise-expression-of-columns-has-the-table's-length",
              lambda o, n, r: z3.And(alen(r.t) == common_len(o.self),
                                     z3.Implies(o.self._data.has(o.args.t), r.t == o.self._data.get(o.args.t))))],
    raises={"UserError": dict(when=None, post=[], modifies=())}, trusted=True,
    note="assumed for string arguments: t[name] is the stored column; t['expr'] is eval(expr, math, columns), element-wise by "
         "numpy's semantics (trusted), hence of the common length; anything else raises")


def _sc_inv0():
    def g(L):
        s, d, cols = L.old.self, L.cur.data, L.old.cols
        want = common_len(s)
        return z3.And(
            z3.ForAll([j], z3.Implies(z3.And(0 <= j, j < L.k), z3.And(d.has(cols.at(j)), alen(d.get(cols.at(j))) == want)),
                      patterns=[cols.at(j)]),
            z3.ForAll([k], z3.Implies(d.has(k), z3.Exists([j], z3.And(0 <= j, j < L.k, cols.at(j) == k))), patterns=[d.has(k)]))
    return [("requested-columns-so-far-with-the-table's-length", g), ("index", lambda L: z3.And(0 <= L.k, L.k <= L.n, L.n == L.old.cols.n))]


def _sc_inv1():
    def g(L):
        s, d, d0 = L.old.self, L.cur.data, L.pre.data
        cols = L.old.cols
        want = common_len(s)
        return z3.And(
            # requested columns keep a column of the right length (a scalar key never coincides with a requested name: precondition)
            z3.ForAll([j], z3.Implies(z3.And(0 <= j, j < cols.n), z3.And(d.has(cols.at(j)), alen(d.get(cols.at(j))) == want)),
                      patterns=[cols.at(j)]),
            z3.ForAll([k], z3.Implies(z3.And(s._data.has(k), z3.Not(s._col_names.has(k)), L.idx(k) < L.k),
                                      z3.And(d.has(k), d.get(k) == s._data.get(k))), patterns=[s._data.has(k)]))
    return [("scalars-so-far-carried-columns-kept", g), ("index", lambda L: z3.And(0 <= L.k, L.k <= L.n))]


def _cols_ok(s):
    c = s.cols
    return z3.And(c.n >= 0,
                  z3.ForAll([i, j], z3.Implies(z3.And(0 <= i, i < j, j < c.n), c.at(i) != c.at(j))),
                  # a requested name is a column or an expression, never a scalar entry of the table
                  z3.ForAll([j], z3.Implies(z3.And(0 <= j, j < c.n),
                                            z3.Or(z3.Not(s.self._data.has(c.at(j))), s.self._col_names.has(c.at(j)))), patterns=[c.at(j)]))


def _listed(o, r):
    off = z3.If(o.cols.has(o.self._index.t), 0, 1)
    return z3.And(r._col_names.n == o.cols.n + off,
                  z3.Implies(off == 1, r._col_names.at(0) == o.self._index.t),
                  z3.ForAll([j], z3.Implies(z3.And(0 <= j, j < o.cols.n), r._col_names.at(j + off) == o.cols.at(j)), patterns=[o.cols.at(j)]))


SELECT_COLS = Contract(
    module=M, qualname="Table._select_cols", params=dict(self=TTab, cols=TNameList), result=TTab,
    requires=[("Rect", lambda s: rect(s.self)), ("requested-names-distinct-and-column-like", _cols_ok)],
    axioms=[lambda s: z3.And(s.self._col_names.oid <= WATERMARK, s.cols.oid <= WATERMARK)],
    ensures=[("Rect-of-the-result", lambda o, n, r: _derived_ok(o, r, common_len(o.self))),
             ("column-list-is-a-new-object", lambda o, n, r: z3.And(r._col_names.oid != o.self._col_names.oid, r._col_names.oid != o.cols.oid)),
             ("requested-columns-listed-after-the-index", lambda o, n, r: _listed(o, r)),
             ("scalars-carried", lambda o, n, r: scalars_carried(o.self, r))],
    raises={"UserError": dict(when=None, post=[], modifies=("cols",))},
    modifies=("cols",),
    loops={0: LoopSpec(anchor="cols", invariants=_sc_inv0()),
           1: LoopSpec(anchor="self.keys(exclude_columns=True)", invariants=_sc_inv1())},
    min_obligations=8, extra=dict(ENG),
    note="every cols[...] goes through _select_cols (with a freshly built list); the argument list itself may get the index name "
         "inserted (declared in the frame), the source table is untouched")
CONTRACTS += [GETITEM_COL, SELECT_COLS]


# ----------------------------------------------------------------------------- _copy
COPY = Contract(
    module=M, qualname="Table._copy", params=dict(self=TTab), result=TTab,
    requires=[("Rect", lambda s: rect(s.self))],
    axioms=[lambda s: s.self._col_names.oid <= WATERMARK],
    ensures=[("Rect-of-the-result", lambda o, n, r: _derived_ok(o, r, common_len(o.self))),
             ("same-columns-in-a-new-list", lambda o, n, r: z3.And(
                 r._col_names.oid != o.self._col_names.oid, r._col_names.n == o.self._col_names.n,
                 z3.ForAll([j], z3.Implies(z3.And(0 <= j, j < r._col_names.n), r._col_names.at(j) == o.self._col_names.at(j)),
                           patterns=[r._col_names.at(j)]))),
             ("scalars-carried", lambda o, n, r: scalars_carried(o.self, r))],
    min_obligations=3, extra=dict(ENG),
    note="the checked constructor copies the dict and the column list (trusted: Table.__init__, verify branch)")
CONTRACTS += [COPY]


# ----------------------------------------------------------------------------- __mul__ / _append_row / _concatenate_table / __add__
def _names_same(a, b):
    return z3.And(a.oid == b.oid, a.n == b.n,
                  z3.ForAll([j], z3.Implies(z3.And(0 <= j, j < a.n), a.at(j) == b.at(j)), patterns=[a.at(j)]))


def _grow_inv(rec_of, names_of, old_len, new_len):
    """loop over the column names of a table whose columns are replaced one by one: the names visited so far have the new length,
    the others still the old one; the key set, the name list, the index and the scalar entries stay as at loop entry"""
    def g(L):
        cur, ent = rec_of(L.cur), rec_of(L.pre)
        nm = names_of(L)
        return z3.And(
            _names_same(cur._col_names, ent._col_names), cur._index.t == ent._index.t,
            z3.ForAll([k], cur._data.has(k) == ent._data.has(k), patterns=[cur._data.has(k)]),
            z3.ForAll([j], z3.Implies(z3.And(0 <= j, j < nm.n),
                                      alen(cur._data.get(nm.at(j))) == z3.If(j < L.k, new_len(L), old_len(L))), patterns=[nm.at(j)]),
            z3.ForAll([k], z3.Implies(z3.And(ent._data.has(k), z3.Not(ent._col_names.has(k))), cur._data.get(k) == ent._data.get(k)),
                      patterns=[ent._data.has(k)]))
    return g


MUL = Contract(
    module=M, qualname="Table.__mul__", params=dict(self=TTab, num=TInt), result=TTab,
    requires=[("Rect", lambda s: rect(s.self))],
    axioms=[lambda s: s.self._col_names.oid <= WATERMARK],
    ensures=[("Rect-of-the-result-with-num-times-the-rows", lambda o, n, r: _derived_ok(o, r, o.num.t * common_len(o.self))),
             ("same-columns-in-a-new-list", lambda o, n, r: z3.And(
                 r._col_names.oid != o.self._col_names.oid, r._col_names.n == o.self._col_names.n,
                 z3.ForAll([j], z3.Implies(z3.And(0 <= j, j < r._col_names.n), r._col_names.at(j) == o.self._col_names.at(j)),
                           patterns=[r._col_names.at(j)]))),
             ("scalars-carried", lambda o, n, r: scalars_carried(o.self, r))],
    raises={"ValueError": dict(when=lambda s: s.num.t <= 0, post=[], modifies=())},
    loops={0: LoopSpec(anchor="res._col_names", invariants=[
        ("visited-columns-repeated-num-times", _grow_inv(lambda e: e.res, lambda L: L.pre.res._col_names,
                                                         lambda L: common_len(L.old.self), lambda L: L.old.num.t * common_len(L.old.self))),
        ("index", lambda L: z3.And(0 <= L.k, L.k <= L.n, L.n == L.pre.res._col_names.n))])},
    min_obligations=6, extra=dict(ENG),
    note="t * num: every listed column of a copy is repeated num times along the rows (t * 0 raises: numpy refuses to concatenate nothing)")

APPEND_ROW_RECT = Contract(
    module=M, qualname="Table._append_row", params=dict(self=TTab, row=TV),
    requires=[("Rect", lambda s: rect(s.self))],
    ensures=[("Rect-with-one-more-row", lambda o, n, r: z3.And(rect(n.self, common_len(o.self) + 1), n.self._index.t == o.self._index.t)),
             ("same-column-list", lambda o, n, r: _names_same(n.self._col_names, o.self._col_names))],
    raises={"UserError": dict(when=None, post=[], modifies=("self._data",)), "KeyError": dict(when=None, post=[], modifies=("self._data",))},
    modifies=("self._data",),
    loops={0: LoopSpec(anchor="self._col_names", invariants=[
        ("visited-columns-one-row-longer", _grow_inv(lambda e: e.self, lambda L: L.old.self._col_names,
                                                     lambda L: common_len(L.old.self), lambda L: common_len(L.old.self) + 1)),
        ("index", lambda L: z3.And(0 <= L.k, L.k <= L.n, L.n == L.old.self._col_names.n))])},
    min_obligations=6, extra=dict(ENG, variant="rect"),
    note="no claim when `row` lacks a column (KeyError half way: the table is left with columns of two lengths)")

tpos = z3.Function("position_in_other_table", V, IntS)
spos = z3.Function("position_in_this_table", V, IntS)


def _same_columns(s):
    """`table` has the same columns as `self` (as sets; both lists are duplicate-free by Rect): tpos locates a name in table's list"""
    sn, tn = s.self._col_names, s.table._col_names
    return z3.And(sn.n == tn.n,
                  z3.ForAll([j], z3.Implies(z3.And(0 <= j, j < tn.n), tpos(tn.at(j)) == j), patterns=[tn.at(j)]),
                  z3.ForAll([j], z3.Implies(z3.And(0 <= j, j < sn.n), z3.And(0 <= tpos(sn.at(j)), tpos(sn.at(j)) < tn.n,
                                                                             tn.at(tpos(sn.at(j))) == sn.at(j))), patterns=[sn.at(j)]),
                  # ... and the other way round (with equal, duplicate-free lists this is the same statement; said explicitly)
                  z3.ForAll([j], z3.Implies(z3.And(0 <= j, j < tn.n), z3.And(0 <= spos(tn.at(j)), spos(tn.at(j)) < sn.n,
                                                                             sn.at(spos(tn.at(j))) == tn.at(j))), patterns=[tn.at(j)]))


def _cat_inv(L):
    s, t = L.old.self, L.old.table
    cur = L.cur.self
    sn = s._col_names
    L1, L2 = common_len(s), common_len(t)
    return z3.And(
        _names_same(cur._col_names, sn), cur._index.t == s._index.t,
        z3.ForAll([k], cur._data.has(k) == s._data.has(k), patterns=[cur._data.has(k)]),
        z3.ForAll([j], z3.Implies(z3.And(0 <= j, j < sn.n),
                                  alen(cur._data.get(sn.at(j))) == z3.If(tpos(sn.at(j)) < L.k, L1 + L2, L1)), patterns=[sn.at(j)]),
        z3.ForAll([k], z3.Implies(z3.And(s._data.has(k), z3.Not(sn.has(k))), cur._data.get(k) == s._data.get(k)), patterns=[s._data.has(k)]))


CONCAT_RECT = Contract(
    module=M, qualname="Table._concatenate_table", params=dict(self=TTab, table=TTab), result=TTab,
    requires=[("Rect", lambda s: rect(s.self)), ("Rect-of-the-other", lambda s: rect(s.table)), ("same-columns", _same_columns)],
    ensures=[("Rect-with-the-rows-of-both", lambda o, n, r: z3.And(rect(n.self, common_len(o.self) + common_len(o.table)),
                                                                 n.self._index.t == o.self._index.t)),
             ("same-column-list", lambda o, n, r: _names_same(n.self._col_names, o.self._col_names)),
             ("returns-self", lambda o, n, r: z3.And(_names_same(r._col_names, n.self._col_names), r._index.t == n.self._index.t,
                                                     z3.ForAll([k], z3.And(r._data.has(k) == n.self._data.has(k),
                                                                           r._data.get(k) == n.self._data.get(k)), patterns=[r._data.has(k)]))),
             ("scalars-kept", lambda o, n, r: scalars_carried(o.self, n.self))],
    raises={"ValueError": dict(when=None, post=[], modifies=("self._data",)), "KeyError": dict(when=None, post=[], modifies=("self._data",))},
    modifies=("self._data",),
    loops={0: LoopSpec(anchor="table._col_names", invariants=[
        ("columns-named-so-far-hold-both-tables'-rows", _cat_inv),
        ("index", lambda L: z3.And(0 <= L.k, L.k <= L.n, L.n == L.old.table._col_names.n))])},
    min_obligations=6, extra=dict(ENG, variant="rect"),
    note="in-place concatenation (used on a fresh copy by __add__); no claim when numpy refuses a column half way")

ADD = Contract(
    module=M, qualname="Table.__add__", params=dict(self=TTab, other=TTab), result=TTab,
    requires=[("Rect", lambda s: rect(s.self)), ("Rect-of-the-other", lambda s: rect(s.other)),
              ("same-columns", lambda s: _same_columns(NS(dict(self=s.self, table=s.other))))],
    axioms=[lambda s: s.self._col_names.oid <= WATERMARK],
    ensures=[("Rect-of-the-result-with-the-rows-of-both", lambda o, n, r: _derived_ok(o, r, common_len(o.self) + common_len(o.other))),
             ("column-list-is-a-new-object", lambda o, n, r: r._col_names.oid != o.self._col_names.oid),
             ("scalars-carried", lambda o, n, r: scalars_carried(o.self, r))],
    raises={"ValueError": dict(when=None, post=[], modifies=()), "KeyError": dict(when=None, post=[], modifies=())},
    min_obligations=3, extra=dict(ENG, callee_contracts={"_concatenate_table": CONCAT_RECT}),
    note="t1 + t2 = a copy of t1 concatenated in place with t2: neither operand is modified (empty frame)")

VARIANTS = [APPEND_ROW_RECT, CONCAT_RECT]
CONTRACTS += [MUL, ADD]


# ----------------------------------------------------------------------------- Table.__getitem__: which namespace an expression sees   (C14)
from pyvc.opaque_engine import OpaqueEngine      # noqa: E402
_TDM = TVCls("mapping")
TTabE = TRec("Table", dict(_data=_TDM))
_has = z3.Function("py_has_key", V, V, BoolS)
_get = z3.Function("py_getitem", V, V, V)
_eval3 = z3.Function("builtin_eval/3", V, V, V, V)
GBLMATH = z3.Const("py_global_gblmath", V)


def _col_or_expr(data, name):
    """a stored entry under that key, else the text evaluated with the math functions as GLOBALS and the table's entries as LOCALS:
    a column named like a function (sign, sin, exp) therefore means the column"""
    return z3.If(_has(data, name), _get(data, name), _eval3(name, GBLMATH, data))


GETITEM_STR = Contract(
    module=M, qualname="Table.__getitem__", params=dict(self=TTabE, args=TV), result=TV,
    requires=[("a-string", lambda s: z3.Function("py_isinstance_str", V, BoolS)(s.args.t))],
    ensures=[("the-entry-or-the-expression-over (math functions, columns-as-locals)", lambda o, n, r: r.t == _col_or_expr(o.self._data.t, o.args.t))],
    raises={"UserError": dict(when=None, post=[], modifies=())}, min_obligations=1,
    extra=dict(engine=OpaqueEngine, variant="string-argument", stable_reads=True, opaque_globals=("gblmath",),
               block=dict(first="if isinstance(args, str):", count=1)),
    note="block contract: t['name'] / t['expression'] -- the two-argument form t[col, row] resolves `col` the same way (next contract)")

GETITEM_COL2 = Contract(
    module=M, qualname="Table.__getitem__", params=dict(self=TTabE, col=TV), ghost=dict(),
    ensures=[("same-resolution-as-the-one-argument-form", lambda o, n, r: getattr(n, "@local:col").t == _col_or_expr(o.self._data.t, o.col.t))],   # (the block rebinds its local `col`)
    raises={"UserError": dict(when=None, post=[], modifies=("col",))}, modifies=("col",), min_obligations=1,
    extra=dict(engine=OpaqueEngine, variant="column-of-a-cell-access", stable_reads=True, opaque_globals=("gblmath",),
               block=dict(first="try:", count=1, nth=1, of=2)),
    note="block contract: the try statement of the two-argument branch")
VARIANTS += [GETITEM_STR, GETITEM_COL2]
