"""C07: the unique row labels -- the third result of Table._make_cache (what cols.get_index_unique returns and show() prints).

Statement: "the unique row labels the table reports (cols.get_index_unique, as printed by show) resolve back to their own row".
Proved here, on the real text of _make_cache (a second contract on the same function, variant `labels`; the lookup-table clauses of the first
contract are carried along as loop invariants because the label loop reads them):

    for every row i of the current index column:
        label[i] == col[i]                                  when the name occurs once in the column
        label[i] == format(col[i], _sep_count, occ(i))      otherwise         (occ(i) = number of earlier rows with the same name)

and `_ColView.get_index_unique` returns exactly that third result (syntactic forward).  `format` is the f-string f"{name}{sep}{count}" as an
uninterpreted function of its three values.  That such a label resolves back to row i is then a consequence of contracts proved elsewhere:
  * a plain name (occurring once) is spelling 1 of Table._split_name_count_offset@text -> (name, None, 0), and _get_row_cache_raise(name, None -> 0, 0)
    is the row with that name and occurrence number 0: row i, the only one;
  * format(name, '::', c) is the text name ++ '::' ++ str(c): spelling 2 -> (name, int(str(c)), 0), and the row with that name and occurrence
    number c is row i (prefix counts strictly increase on the rows carrying the name).
Trusted for this last step: an f-string of (text, text, int) is their concatenation with str(int); int(str(c)) == c; names are free of ':' '<' '>'.
"""
import ast
import z3
from pyvc.values import *          # noqa
from pyvc.contract import Contract, LoopSpec
from pyvc.engine import Obligation, Unsupported
from pyvc.table_engine import TableEngine, int_v
from contracts.table_cache import (M, TTable, TCache, cntp_axioms, col_of, cp, cache_complete, cache_sound, counts_right, _mc_inv0, _mc_inv1,
                                   strictness_is_derived)

i = z3.Int("i!lb")
_FMT = {}


def fmt(k):
    if k not in _FMT:
        _FMT[k] = z3.Function(f"py_fstring_{k}", *([V] * k + [V]))
    return _FMT[k]


class LabelEngine(TableEngine):
    """TableEngine + a LOCAL object array (np.zeros(n, dtype=object)) as a sequence of n values, and an f-string as an uninterpreted function of its parts"""

    def call_method(self, recv, name, e, cx, recv_node):
        if isinstance(recv_node, ast.Name) and recv_node.id == "np" and "np" not in cx.st.env and name == "zeros":
            if not (len(e.args) == 1 and len(e.keywords) == 1 and e.keywords[0].arg == "dtype" and ast.unparse(e.keywords[0].value) == "object"):
                raise Unsupported("np.zeros other than np.zeros(n, dtype=object)")
            n = self.eval(e.args[0], cx)
            if not isinstance(n, PyInt):
                raise Unsupported("np.zeros with a non-integer length")
            return PySeq(n.t, FreshConst(z3.ArraySort(IntS, V), "zeros"), TV, [n.t >= 0])
        return super().call_method(recv, name, e, cx, recv_node)

    def eval_JoinedStr(self, e, cx):
        parts = []
        for v in e.values:
            if isinstance(v, ast.FormattedValue):
                if v.conversion != -1 or v.format_spec is not None:
                    raise Unsupported("f-string with a conversion or a format spec")
                x = self.eval(v.value, cx)
                if isinstance(x, PyInt):
                    parts.append(int_v(x.t))
                elif isinstance(x, PyObj):
                    parts.append(x.t)
                else:
                    raise Unsupported("f-string part of type " + type(x).__name__)
            elif isinstance(v, ast.Constant) and isinstance(v.value, str):
                from pyvc.engine import str_term
                parts.append(str_term(v.value))
            else:
                raise Unsupported("f-string part")
        return PyObj(fmt(len(parts))(*parts))


def label_of(s, row, total_known_one):
    """the label the statement assigns to row `row` (a z3 Int term)"""
    col, f = col_of(s), cp(s)
    name = col.at(row)
    return z3.If(total_known_one, name, fmt(3)(name, s._sep_count.t, int_v(f(name, row))))


def _inv0():
    o = lambda L: L.old.self

    def labels(L):
        s = o(L)
        nn = L.cur.newnames
        return z3.And(nn.n == col_of(s).n,
                      z3.ForAll([i], z3.Implies(z3.And(0 <= i, i < L.k), nn.at(i) == label_of(s, i, z3.BoolVal(False))), patterns=[col_of(s).at(i)]))
    return _mc_inv0() + [("labels<k: name, separator, occurrence number", labels)]


def _inv1():
    o = lambda L: L.old.self

    def labels(L):
        s = o(L)
        col, f = col_of(s), cp(s)
        nn = L.cur.newnames
        once_and_visited = lambda r: z3.And(L.idx(col.at(r)) < L.k, f(col.at(r), col.n) == 1)
        return z3.And(nn.n == col.n,
                      z3.ForAll([i], z3.Implies(z3.And(0 <= i, i < col.n), nn.at(i) == label_of(s, i, once_and_visited(i))), patterns=[col.at(i)]))

    def tables(L):
        s = o(L)
        n = col_of(s).n
        return z3.And(cache_complete(s, L.cur.dct, n), cache_sound(s, L.cur.dct, n))
    return _mc_inv1() + [("lookup-table-right", tables), ("labels: plain name for the visited names occurring once", labels)]


def _post_labels(o, n, r):
    s = o.self
    col, f = col_of(s), cp(s)
    lab = r.items[2]
    return z3.And(lab.n == col.n,
                  z3.ForAll([i], z3.Implies(z3.And(0 <= i, i < col.n), lab.at(i) == label_of(s, i, f(col.at(i), col.n) == 1)), patterns=[col.at(i)]))


MAKE_CACHE_LABELS = Contract(
    module=M, qualname="Table._make_cache", params=dict(self=TTable),
    result=TTuple(TCache, TCache, TSeq(TV)),
    axioms=[lambda s: cntp_axioms(s.self)],
    ensures=[("labels: the plain name when it occurs once, else name + separator + occurrence number -- row by row on the current index column", _post_labels)],
    loops={0: LoopSpec(anchor="enumerate(col)", invariants=_inv0()),
           1: LoopSpec(anchor="count.items()", invariants=_inv1())},
    min_obligations=14, extra=dict(engine=LabelEngine, variant="labels", local_types=dict(dct=TCache, count=TCache),
                                   lemmas=[("prefix-count-strictness-is-derived", strictness_is_derived)]),
    note="second contract on _make_cache: the unique-label array")


class ForwardLabels:
    """syntactic: _ColView.get_index_unique is `_, _, names = self.table._make_cache(); return names` (after the docstring)"""

    def __init__(self, registry, opts=None):
        self.trivial_frames = 0

    def verify(self, c, fdef, classctx=None):
        body = [s for s in fdef.body if not (isinstance(s, ast.Expr) and isinstance(s.value, ast.Constant))]
        ok = False
        if len(body) == 2 and isinstance(body[0], ast.Assign) and isinstance(body[1], ast.Return) and len(body[0].targets) == 1:
            t, v = body[0].targets[0], body[0].value
            ok = (isinstance(t, ast.Tuple) and len(t.elts) == 3 and all(isinstance(x, ast.Name) for x in t.elts)
                  and isinstance(v, ast.Call) and ast.unparse(v.func) == "self.table._make_cache" and not v.args and not v.keywords
                  and isinstance(body[1].value, ast.Name) and body[1].value.id == t.elts[2].id and t.elts[2].id not in (t.elts[0].id, t.elts[1].id))
        if len(body) == 1 and isinstance(body[0], ast.Return):
            ok = ast.unparse(body[0].value) == "self.table._make_cache()[2]"
        return [Obligation(f"{c.module}:{c.qualname}#returns-the-third-result-of-_make_cache-of-its-table", "post", [], z3.BoolVal(bool(ok)), c.qualname, fdef.lineno)]


GET_INDEX_UNIQUE = Contract(module=M, qualname="_ColView.get_index_unique", params={}, min_obligations=1,
                            extra=dict(engine=ForwardLabels, variant="forwards-labels"),
                            note="cols.get_index_unique() IS the label array _make_cache builds for the current index column (nothing cached in between)")

CONTRACTS = []
VARIANTS = [MAKE_CACHE_LABELS, GET_INDEX_UNIQUE]
