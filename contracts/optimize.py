"""Sidecar contracts for xdeps/optimize/optimize.py and jacobian.py (DESIGN.md section 4: C09, C10, C15, C16).

Reals for floats (DESIGN 2.3(1)).  Knob i has effective weight W(i) (None = 1, positive by Vary's constructor assert),
optional max_step, optional limits, an active flag.  Knob stores `vv.container[vv.name] = v` are recorded in the ghost
write map (wrote, wval); stores to `vv.active` in the ghost flag map act_new.
"""
import z3
from pyvc.values import *          # noqa
from pyvc.contract import Contract, LoopSpec
from pyvc.num_engine import (NumEngine, TVec, TBVec, TLimits, TVaryList, PyVec, PyBVec, W, v_ms_none, v_ms, v_w_none, v_w, v_act,
                             v_lim_none, v_lo_none, v_hi_none, v_lo, v_hi)

MO = "xdeps/optimize/optimize.py"
MJ = "xdeps/optimize/jacobian.py"
i, j = z3.Ints("i!o j!o")
ENG = dict(engine=NumEngine)

TMerit = TRec("MeritFunctionForMatch", dict(vary=TVaryList))


def weights_positive(n):
    return z3.ForAll([i], z3.Implies(z3.And(0 <= i, i < n), z3.And(W(i) > 0, z3.Implies(z3.Not(v_w_none(i)), v_w(i) > 0))),
                     patterns=[v_w_none(i)])


def absr(x):
    return z3.If(x >= 0, x, -x)


# ----------------------------------------------------------------------------- _clip_to_max_steps   (C10)
def _clip_inv():
    def bound(L):
        out = L.cur.out
        return z3.ForAll([j], z3.Implies(z3.And(0 <= j, j < L.k, z3.Not(v_ms_none(j))),
                                         W(j) * absr(out.at(j)) <= v_ms(j)), patterns=[z3.Select(out.arr, j)])

    def scale(L):
        lam = L.cur.out.lam if L.cur.out.lam is not None else z3.RealVal(1)
        return z3.And(0 <= lam, lam <= 1, L.cur.out.n == L.old.x_step.n, L.cur.out.arr == L.old.x_step.arr)
    return [("bounded-so-far", bound), ("same-direction-only-shrunk", scale),
            ("index", lambda L: z3.And(0 <= L.k, L.k <= L.n, L.n == L.old.x_step.n))]


def _clip_post(o, n, r):
    lam = r.lam if r.lam is not None else z3.RealVal(1)
    return z3.And(
        r.n == o.x_step.n, r.arr == o.x_step.arr, 0 <= lam, lam <= 1,         # out == lam * x_step, 0 <= lam <= 1
        z3.ForAll([j], z3.Implies(z3.And(0 <= j, j < r.n, z3.Not(v_ms_none(j))), W(j) * absr(r.at(j)) <= v_ms(j)),
                  patterns=[z3.Select(r.arr, j)]))


CLIP = Contract(
    module=MO, qualname="MeritFunctionForMatch._clip_to_max_steps", params=dict(self=TMerit, x_step=TVec), result=TVec,
    requires=[("one-step-per-knob", lambda s: s.x_step.n == s.self.vary.n),
              ("weights-positive", lambda s: weights_positive(s.self.vary.n)),
              ("max-steps-nonnegative", lambda s: z3.ForAll([i], z3.Implies(z3.And(0 <= i, i < s.self.vary.n, z3.Not(v_ms_none(i))),
                                                                           v_ms(i) >= 0), patterns=[v_ms(i)]))],
    ensures=[("same-direction-and-every-knob-within-its-max_step-in-knob-units", _clip_post)],
    loops={0: LoopSpec(anchor="range(len(x_step))", invariants=_clip_inv())},
    min_obligations=6, extra=dict(ENG, scaled_vectors=("out",)),
    note="C10: the returned step is lam * x_step with 0 <= lam <= 1 and, for every knob with a max_step, "
         "weight * |step| <= max_step (x = knob / weight).  Later bisection (2^-alpha) and zeroing at limits only shrink.")


# ----------------------------------------------------------------------------- _x_to_knobs / _knobs_to_x   (C16, C10)
def _scale_inv(mul):
    def g(L):
        kv, x = L.cur.knob_values if mul else L.cur.x, (L.old.x if mul else L.old.knob_values)
        f = (lambda t, w: t * w) if mul else (lambda t, w: t / w)
        return z3.And(kv.n == x.n,
                      z3.ForAll([j], z3.Implies(z3.And(0 <= j, j < kv.n),
                                                kv.at(j) == z3.If(j < L.k, f(x.at(j), W(j)), x.at(j))), patterns=[z3.Select(kv.arr, j)]))
    return [("scaled-prefix", g), ("index", lambda L: z3.And(0 <= L.k, L.k <= L.n))]


X_TO_KNOBS = Contract(
    module=MO, qualname="MeritFunctionForMatch._x_to_knobs", params=dict(self=TMerit, x=TVec), result=TVec,
    requires=[("one-value-per-knob", lambda s: s.x.n == s.self.vary.n), ("weights-positive", lambda s: weights_positive(s.self.vary.n))],
    ensures=[("knob=x*weight", lambda o, n, r: z3.And(r.n == o.x.n, z3.ForAll([j], z3.Implies(
        z3.And(0 <= j, j < r.n), r.at(j) == o.x.at(j) * W(j)), patterns=[z3.Select(r.arr, j)])))],
    loops={0: LoopSpec(anchor="enumerate(self.vary)", invariants=_scale_inv(True))},
    min_obligations=4, extra=dict(ENG))

KNOBS_TO_X = Contract(
    module=MO, qualname="MeritFunctionForMatch._knobs_to_x", params=dict(self=TMerit, knob_values=TVec), result=TVec,
    requires=[("one-value-per-knob", lambda s: s.knob_values.n == s.self.vary.n),
              ("weights-positive", lambda s: weights_positive(s.self.vary.n))],
    ensures=[("x=knob/weight", lambda o, n, r: z3.And(r.n == o.knob_values.n, z3.ForAll([j], z3.Implies(
        z3.And(0 <= j, j < r.n), r.at(j) == o.knob_values.at(j) / W(j)), patterns=[z3.Select(r.arr, j)])))],
    loops={0: LoopSpec(anchor="enumerate(self.vary)", invariants=_scale_inv(False))},
    min_obligations=4,
    extra=dict(ENG, lemmas=[
        ("x_to_knobs-after-knobs_to_x-is-identity", lambda: z3.ForAll([j], z3.Implies(W(j) > 0, (z3.Real("k!l") / W(j)) * W(j) == z3.Real("k!l")))),
        ("knobs_to_x-after-x_to_knobs-is-identity", lambda: z3.ForAll([j], z3.Implies(W(j) > 0, (z3.Real("k!l") * W(j)) / W(j) == z3.Real("k!l")))),
        ("limits-commute-with-the-scaling", lambda: z3.ForAll([j], z3.Implies(W(j) > 0, (z3.Real("lo!l") <= z3.Real("k!l")) == (
            z3.Real("lo!l") / W(j) <= z3.Real("k!l") / W(j))))),
    ]))

CONTRACTS = [CLIP, X_TO_KNOBS, KNOBS_TO_X]

# ----------------------------------------------------------------------------- JacobianSolver.step: limit block   (C10)
TSolver = TRec("JacobianSolver", dict(x=TVec))


def _lim_inside(x, step, lim, upto):
    return z3.ForAll([j], z3.Implies(z3.And(0 <= j, j < upto), z3.And(
        z3.Select(lim.lo, j) <= x.at(j) - step.at(j), x.at(j) - step.at(j) <= z3.Select(lim.hi, j))), patterns=[z3.Select(step.arr, j)])


def _lim_inv():
    def g(L):
        o, c = L.old, L.cur
        return z3.And(
            c.this_xstep.n == o.this_xstep.n, c.mask_hit_limit.n == o.self.x.n,
            _lim_inside(o.self.x, c.this_xstep, o.limits, L.k),
            z3.ForAll([j], z3.Implies(z3.And(0 <= j, j < c.this_xstep.n), z3.And(
                z3.Or(c.this_xstep.at(j) == o.this_xstep.at(j), c.this_xstep.at(j) == 0),
                z3.Implies(j >= L.k, c.this_xstep.at(j) == o.this_xstep.at(j)),
                c.mask_hit_limit.at(j) == z3.And(j < L.k, z3.Or(
                    o.self.x.at(j) - o.this_xstep.at(j) < z3.Select(o.limits.lo, j),
                    o.self.x.at(j) - o.this_xstep.at(j) > z3.Select(o.limits.hi, j))))), patterns=[z3.Select(c.this_xstep.arr, j)]))
    return [("prefix-inside-limits", g), ("index", lambda L: z3.And(0 <= L.k, L.k <= L.n, L.n == L.old.self.x.n))]


LIMIT_BLOCK = Contract(
    module=MJ, qualname="JacobianSolver.step", params=dict(self=TSolver, this_xstep=TVec, limits=TLimits),
    ghost=dict(mask_hit_limit=TBVec),
    requires=[("sizes", lambda s: z3.And(s.this_xstep.n == s.self.x.n, s.limits.n == s.self.x.n)),
              ("x-inside-limits (solver invariant: started inside, only ever moved by a step that passed this block)",
               lambda s: z3.ForAll([j], z3.Implies(z3.And(0 <= j, j < s.self.x.n), z3.And(
                   z3.Select(s.limits.lo, j) <= s.self.x.at(j), s.self.x.at(j) <= z3.Select(s.limits.hi, j))), patterns=[z3.Select(s.self.x.arr, j)]))],
    ensures=[("candidate-x-minus-step-inside-closed-limits", lambda o, n, r: _lim_inside(o.self.x, n.this_xstep, o.limits, o.self.x.n)),
             ("step-components-kept-or-zeroed", lambda o, n, r: z3.ForAll([j], z3.Implies(
                 z3.And(0 <= j, j < n.this_xstep.n),
                 z3.Or(n.this_xstep.at(j) == o.this_xstep.at(j), n.this_xstep.at(j) == 0)), patterns=[z3.Select(n.this_xstep.arr, j)])),
             ("mask-marks-exactly-the-zeroed-ones", lambda o, n, r: z3.ForAll([j], z3.Implies(
                 z3.And(0 <= j, j < o.self.x.n),
                 n.mask_hit_limit.at(j) == z3.Or(o.self.x.at(j) - o.this_xstep.at(j) < z3.Select(o.limits.lo, j),
                                                o.self.x.at(j) - o.this_xstep.at(j) > z3.Select(o.limits.hi, j))),
                 patterns=[z3.Select(n.mask_hit_limit.arr, j)]))],
    modifies=("this_xstep", "mask_hit_limit"),
    loops={0: LoopSpec(anchor="range(len(self.x))", invariants=_lim_inv(), modifies=("mask_hit_limit",))},
    min_obligations=6,
    extra=dict(ENG, variant="limit-block", block=dict(first="mask_hit_limit = np.zeros(len(self.x), dtype=bool)", last="for ii in range(len(self.x)):"),
               frame_ghosts=False),
    note="block contract (2 statements of JacobianSolver.step): every point handed to eval(self.x - this_xstep), and hence every "
         "accepted self.x, lies within the closed x-limits")
VARIANTS = [LIMIT_BLOCK]

# ----------------------------------------------------------------------------- knob writers: only ACTIVE knobs are written   (C10)
TOptimize = TRec("Optimize", dict(vary=TVaryList, _err=TMerit))


def writes_exactly_active(wrote, wval, values, n, upto=None):
    """the ghost write map after the loop (or its first `upto` iterations): knob j written iff active, with values[j]"""
    upto = n if upto is None else upto
    return z3.ForAll([j], z3.Implies(z3.And(0 <= j, j < n), z3.And(
        wrote.at(j) == z3.And(j < upto, v_act(j)),
        z3.Implies(z3.And(j < upto, v_act(j)), wval.at(j) == values(j)))), patterns=[z3.Select(wrote.arr, j)])


def _skx_inv():
    def g(L):
        kn = L.x["knobs"]
        return z3.And(L.cur.wrote.n == L.old.wrote.n, L.cur.wval.n == L.old.wval.n,
                      writes_exactly_active(L.cur.wrote, L.cur.wval, lambda q: kn.at(q), L.old.self.vary.n, L.k))
    return [("written=active-prefix", g), ("index", lambda L: z3.And(0 <= L.k, L.k <= L.n, L.n == L.old.self.vary.n))]


def _skx_setup(L, st):
    # the second zip component is the value returned by _x_to_knobs (callee contract): knobs[j] == x[j] * W(j)
    return dict(knobs=L.enum.parts[1].src if hasattr(L.enum.parts[1], "src") else None)


SET_KNOBS_FROM_X = Contract(
    module=MO, qualname="Optimize.set_knobs_from_x", params=dict(self=TOptimize, x=TVec), ghost=dict(wrote=TBVec, wval=TVec),
    requires=[("sizes", lambda s: z3.And(s.x.n == s.self.vary.n, s.self._err.vary.n == s.self.vary.n, s.wrote.n == s.self.vary.n,
                                         s.wval.n == s.self.vary.n)),
              ("nothing-written-yet", lambda s: z3.ForAll([j], z3.Not(s.wrote.at(j)), patterns=[z3.Select(s.wrote.arr, j)])),
              ("weights-positive", lambda s: weights_positive(s.self.vary.n))],
    ensures=[("exactly-the-active-knobs-are-written-with-x*weight", lambda o, n, r: writes_exactly_active(
        n.wrote, n.wval, lambda q: o.x.at(q) * W(q), o.self.vary.n))],
    modifies=("wrote", "wval"),
    loops={0: LoopSpec(anchor="zip(self.vary, self._err._x_to_knobs(x))", invariants=_skx_inv(), setup=_skx_setup,
                       modifies=("wrote", "wval"))},
    min_obligations=5, extra=dict(ENG),
    note="C10: a disabled knob is never written by the optimizer's write-back of the solver state")
CONTRACTS += [SET_KNOBS_FROM_X]


# ----------------------------------------------------------------------------- MeritFunctionForMatch.__call__: the knob-setting loop (block)
def inside(jv, val):
    """val respects the (optional) closed limits of knob jv"""
    return z3.And(z3.Implies(z3.And(z3.Not(v_lim_none(jv)), z3.Not(v_lo_none(jv))), v_lo(jv) <= val),
                  z3.Implies(z3.And(z3.Not(v_lim_none(jv)), z3.Not(v_hi_none(jv))), val <= v_hi(jv)))


def _call_inv():
    def g(L):
        kv = L.old.knob_values
        return z3.And(L.cur.wrote.n == L.old.wrote.n, L.cur.wval.n == L.old.wval.n,
                      writes_exactly_active(L.cur.wrote, L.cur.wval, lambda q: kv.at(q), L.old.self.vary.n, L.k),
                      z3.Implies(L.old.check_limits.t, z3.ForAll([j], z3.Implies(z3.And(0 <= j, j < L.k, v_act(j)), inside(j, kv.at(j))),
                                                                 patterns=[z3.Select(kv.arr, j)])))
    return [("written=active-prefix-all-inside-limits", g), ("index", lambda L: z3.And(0 <= L.k, L.k <= L.n, L.n == L.old.self.vary.n))]


CALL_KNOB_BLOCK = Contract(
    module=MO, qualname="MeritFunctionForMatch.__call__", params=dict(self=TMerit, knob_values=TVec, check_limits=TBool),
    ghost=dict(wrote=TBVec, wval=TVec, kfail=TInt),
    requires=[("sizes", lambda s: z3.And(s.knob_values.n == s.self.vary.n, s.wrote.n == s.self.vary.n, s.wval.n == s.self.vary.n)),
              ("nothing-written-yet", lambda s: z3.ForAll([j], z3.Not(s.wrote.at(j)), patterns=[z3.Select(s.wrote.arr, j)]))],
    ensures=[("exactly-the-active-knobs-are-written", lambda o, n, r: writes_exactly_active(
        n.wrote, n.wval, lambda q: o.knob_values.at(q), o.self.vary.n)),
        ("with-check_limits-every-written-value-is-inside-the-closed-limits", lambda o, n, r: z3.Implies(o.check_limits.t, z3.ForAll(
            [j], z3.Implies(z3.And(0 <= j, j < o.self.vary.n, v_act(j)), inside(j, o.knob_values.at(j))),
            patterns=[z3.Select(o.knob_values.arr, j)])))],
    raises={"ValueError": dict(when=None, modifies=("wrote", "wval", "kfail"), post=[
        ("raised-before-writing-the-offending-knob", lambda o, n: z3.And(
            0 <= n.kfail.t, n.kfail.t < o.self.vary.n, o.check_limits.t, v_act(n.kfail.t),
            z3.Not(inside(n.kfail.t, o.knob_values.at(n.kfail.t))),
            writes_exactly_active(n.wrote, n.wval, lambda q: o.knob_values.at(q), o.self.vary.n, n.kfail.t)))])},
    modifies=("wrote", "wval"),
    loops={0: LoopSpec(anchor="zip(self.vary, knob_values)", invariants=_call_inv(), modifies=("wrote", "wval"),
                       on_raise=lambda L, st: st.env.__setitem__("kfail", PyInt(L.k)))},
    min_obligations=6,
    extra=dict(ENG, variant="knob-block", block=dict(first="for vv, val in zip(self.vary, knob_values):", count=1)),
    note="block contract (the knob-setting loop of __call__): only active knobs are written; with check_limits a value outside "
         "the closed limits raises ValueError before that knob (or any later one) is written")

# ----------------------------------------------------------------------------- Optimize._clip_to_limits
VARIANTS += [CALL_KNOB_BLOCK]

from pyvc.writeset import SelfCallShapeEngine      # noqa: E402


def _shape(meth):
    return Contract(module=MO, qualname=f"Optimize.{meth}", params={}, min_obligations=1,
                    extra=dict(engine=SelfCallShapeEngine, variant="self-calls"),
                    note="every self.<method>(...) call matches the real signature (keyword names, arity): a wrong keyword is a "
                         "TypeError on a path only taken with optional arguments")


SHAPES = [_shape(m) for m in ("step", "solve", "reload", "add_point_to_log", "clear_log", "tag", "run_jacobian", "_add_starting_point_to_log_and_print")]
VARIANTS += SHAPES


# ----------------------------------------------------------------------------- Optimize.solve: protocol   (C09)
from pyvc import extract as _extract      # noqa: E402
import ast as _ast                         # noqa: E402


def params_of(module, qualname, types=None, ghost=()):
    """parameter list read from the real `def` (so that keyword names at call sites are checked against the code)"""
    fdef, _ = _extract.module(module).find(qualname)
    names = [a.arg for a in fdef.args.posonlyargs + fdef.args.args + fdef.args.kwonlyargs]
    ndef = len(fdef.args.defaults)
    types = types or {}
    params = {n: types.get(n, TOpt(TV)) for n in names}
    defaults = {n: (lambda: PyNone()) for n in names[len(names) - ndef:] if n not in types}
    return params, defaults


TMeritP = TRec("MeritFunctionForMatch", dict(last_point_within_tol=TBool))
TSolverP = TRec("JacobianSolver", dict(x=TV, verbose=TV))
TOptP = TRec("Optimize", dict(_err=TMeritP, solver=TSolverP, assert_within_tol=TBool, restore_if_fail=TBool, n_steps_max=TV,
                              verbose=TV))
row_knobs = z3.Function("log_row_knobs", V, V)        # log row -> knob values recorded there
row_flags = z3.Function("log_row_flags", V, V)


def _step_contract():
    params, defaults = params_of(MO, "Optimize.step", types=dict(self=TOptP))
    return Contract(
        module=MO, qualname="Optimize.step", params=params, defaults=defaults, ghost=dict(knobs=TV, flags=TV), result=TV,
        raises={"UserError": dict(when=None, post=[], modifies=("self._err", "self.solver", "knobs", "flags"))},
        modifies=("self._err", "self.solver", "knobs", "flags"), trusted=True,
        note="assumed at the call in solve(): may move the knobs, change flags, set last_point_within_tol, raise anything; "
             "the log is append-only (row 0 is not in its frame); its take_best block and write-back are proved separately")


def _reload_contract():
    params, defaults = params_of(MO, "Optimize.reload", types=dict(self=TOptP))
    return Contract(
        module=MO, qualname="Optimize.reload", params=params, defaults=defaults, ghost=dict(knobs=TV, flags=TV, row0=TV),
        ensures=[("row-restored", lambda o, n, r: z3.Implies(
            z3.And(z3.Not(o.iteration.is_none), o.iteration.value.t == int0()),
            z3.And(n.knobs.t == row_knobs(o.row0.t), n.flags.t == row_flags(o.row0.t))))],
        raises={"UserError": dict(when=None, modifies=("self._err", "self.solver", "knobs", "flags"), post=[
            ("row-restored-before-the-failing-re-evaluation", lambda o, n: z3.Implies(
                z3.And(z3.Not(o.iteration.is_none), o.iteration.value.t == int0()),
                z3.And(n.knobs.t == row_knobs(o.row0.t), n.flags.t == row_flags(o.row0.t))))])},
        modifies=("self._err", "self.solver", "knobs", "flags"), trusted=True,
        note="assumed at the call in solve(): reload(iteration=i) writes row i's knobs and flags, then logs the point "
             "(its loops are proved as block contracts below)")


_INT0 = z3.Const("py_int_0", V)


def int0():
    return _INT0


TRUSTED_PROTO = [
    Contract(module=MO, qualname="Optimize._extract_knob_values", params=dict(self=TOptP), result=TV, trusted=True),
    Contract(module=MO, qualname="MeritFunctionForMatch._knobs_to_x", params=dict(self=TMeritP, knob_values=TV), result=TV, trusted=True,
             extra=dict(variant="opaque")),
]


def _solve_contract():
    params, defaults = params_of(MO, "Optimize.solve", types=dict(self=TOptP))
    restored = lambda o, n: z3.Implies(o.self.restore_if_fail.t, z3.And(n.knobs.t == row_knobs(o.row0.t), n.flags.t == row_flags(o.row0.t)))
    return Contract(
        module=MO, qualname="Optimize.solve", params=params, defaults=defaults, ghost=dict(knobs=TV, flags=TV, row0=TV), result=TV,
        ensures=[("returns-only-on-a-point-flagged-within-tolerance", lambda o, n, r: z3.Implies(
            o.self.assert_within_tol.t, n.self._err.last_point_within_tol.t))],
        raises={"RuntimeError": dict(when=None, post=[("knobs-and-flags-of-row-0", restored)],
                                     modifies=("self._err", "self.solver", "knobs", "flags")),
                "UserError": dict(when=None, post=[("knobs-and-flags-of-row-0", restored)],
                                  modifies=("self._err", "self.solver", "knobs", "flags"))},
        modifies=("self._err", "self.solver", "knobs", "flags"),
        call_ghost={("Optimize.step", None): lambda st, pre: dict(knobs=st.knobs, flags=st.flags),
                    ("Optimize.reload", None): lambda st, pre: dict(knobs=st.knobs, flags=st.flags, row0=pre.row0)},
        min_obligations=4,
        extra=dict(engine=ProtoEngine, ghost_writeback={"knobs": "knobs", "flags": "flags"},
                   callee_contracts={"step": _step_contract(), "reload": _reload_contract(), "_extract_knob_values": TRUSTED_PROTO[0],
                                     "_knobs_to_x": TRUSTED_PROTO[1]}),
        note="C09 at protocol level: a normal return implies the within-tolerance flag of the LAST evaluation (when "
             "assert_within_tol, the default); every exceptional exit with restore_if_fail passes through reload(iteration=0)")


from pyvc.tasks_engine import TasksEngine      # noqa: E402


class ProtoEngine(TasksEngine):
    """protocol level: opaque values, field stores, call-site specific callee contracts; integer literals as opaque constants"""

    def eval_Constant(self, e, cx):
        if isinstance(e.value, int) and not isinstance(e.value, bool) and e.value == 0:
            return PyObj(int0())
        return super().eval_Constant(e, cx)

    def getattr(self, obj, attr, cx, node=None):
        if isinstance(obj, PyRec) and attr not in obj.fields:
            return PyObj(FreshConst(V, "field_" + attr))          # an attribute the contract does not know: unconstrained
        if isinstance(obj, PyObj):
            return PyObj(FreshConst(V, "attr_" + attr))
        return super().getattr(obj, attr, cx, node)

    def truth_hook(self, v, cx):
        if isinstance(v, PyObj):
            return z3.Function("py_truth", V, BoolS)(v.t)
        return super().truth_hook(v, cx)

    def getitem_hook(self, obj, idx, cx, node):
        return PyObj(FreshConst(V, "item"))

    def builtin_len(self, e, cx):
        self.eval(e.args[0], cx)
        return PyObj(FreshConst(V, "len"))

    def binop_hook(self, op, a, b, cx, inplace, node):
        return PyObj(FreshConst(V, "binop"))

    def coerce(self, v, ty, cx, what):
        if isinstance(ty, TOpt) and isinstance(ty.inner, TVCls) and isinstance(v, (PyInt, PyBool, PyReal, PyStr)):
            v = PyObj(FreshConst(V, "lit"))
        return super().coerce(v, ty, cx, what)


SOLVE = _solve_contract()
VARIANTS += [SOLVE]


# ----------------------------------------------------------------------------- __call__: the within-tolerance flag (block)   (C09)
TMeritFlag = TRec("MeritFunctionForMatch", dict(last_point_within_tol=TBool, found_point_within_tol=TBool, mask_output=TBVec, verbose=TBool))

WTOL_BLOCK = Contract(
    module=MO, qualname="MeritFunctionForMatch.__call__",
    params=dict(self=TMeritFlag, targets_within_tol=TBVec, zero_if_met=TBool, err_values=TVec),
    requires=[("one-flag-per-target", lambda s: z3.And(s.targets_within_tol.n == s.self.mask_output.n, s.targets_within_tol.n >= 0))],
    ensures=[("flag <=> every ACTIVE target is within its tolerance at this evaluation", lambda o, n, r: n.self.last_point_within_tol.t == z3.ForAll(
        [j], z3.Implies(z3.And(0 <= j, j < o.targets_within_tol.n), z3.Or(o.targets_within_tol.at(j), z3.Not(o.self.mask_output.at(j))))))],
    modifies=("self.last_point_within_tol", "self.found_point_within_tol", "err_values"),
    min_obligations=2,
    extra=dict(ENG, variant="within-tol-flag", scaled_vectors=("err_values",),
               block=dict(first="if np.all(targets_within_tol | ~self.mask_output):", count=1)),
    note="block contract: both branches assign last_point_within_tol, to exactly 'all active targets within tolerance'; "
         "targets_within_tol itself is np.abs(err_values) < tols (numpy, trusted)")
VARIANTS += [WTOL_BLOCK]


# ----------------------------------------------------------------------------- Optimize.step: the take_best block   (C15)
from pyvc.num_engine import TLog      # noqa: E402
TMeritW = TRec("MeritFunctionForMatch", dict(last_point_within_tol=TBool))
TOptLog = TRec("Optimize", dict(_err=TMeritW, _log=TLog))


def _pen(s):
    return s._log.penalty


RELOAD_FOR_TAKE_BEST = Contract(
    module=MO, qualname="Optimize.reload", params=dict(self=TOptLog, iteration=TInt), ghost=dict(cur_pen=TReal),
    requires=[("row-exists", lambda s: z3.And(0 <= s.iteration.t, s.iteration.t < _pen(s.self).n))],
    ensures=[("point-of-that-row-restored-and-logged-again", lambda o, n, r: z3.And(
        n.cur_pen.t == _pen(o.self).at(o.iteration.t),
        _pen(n.self).n == _pen(o.self).n + 1,
        z3.ForAll([j], z3.Implies(z3.And(0 <= j, j < _pen(o.self).n), _pen(n.self).at(j) == _pen(o.self).at(j)),
                  patterns=[z3.Select(_pen(n.self).arr, j)]),
        _pen(n.self).at(_pen(o.self).n) == _pen(o.self).at(o.iteration.t)))],
    modifies=("self._log", "cur_pen"), trusted=True, extra=dict(variant="log-view"),
    note="assumed here: reload(i) restores row i (its loops are block-proved) and the re-evaluation reproduces the row's "
         "penalty (determinism of the user function; checked at run time for every row of every log)")

TAKE_BEST_BLOCK = Contract(
    module=MO, qualname="Optimize.step", params=dict(self=TOptLog, take_best=TBool, i_log_start=TInt), ghost=dict(cur_pen=TReal),
    requires=[("start-row-exists", lambda s: z3.And(0 <= s.i_log_start.t, s.i_log_start.t < _pen(s.self).n)),
              ("last-row-describes-the-current-point", lambda s: s.cur_pen.t == _pen(s.self).at(_pen(s.self).n - 1))],
    ensures=[("ends-within-tolerance-or-on-the-minimum-penalty-logged-during-this-call", lambda o, n, r: z3.Or(
        z3.Not(o.take_best.t), o.self._err.last_point_within_tol.t,
        z3.ForAll([j], z3.Implies(z3.And(o.i_log_start.t <= j, j < _pen(o.self).n), n.cur_pen.t <= _pen(o.self).at(j)),
                  patterns=[z3.Select(_pen(o.self).arr, j)])))],
    modifies=("self._log", "cur_pen"),
    call_ghost={("Optimize.reload", None): lambda st, pre: dict(cur_pen=st.cur_pen)},
    min_obligations=3,
    extra=dict(ENG, variant="take-best-block", ghost_writeback={"cur_pen": "cur_pen"},
               callee_contracts={"reload": RELOAD_FOR_TAKE_BEST},
               block=dict(first="if take_best and (not self._err.last_point_within_tol):", count=1)),
    note="block contract: the point left after step(take_best=True) is within tolerance or has the minimum penalty among the "
         "rows logged since (and including) the call's starting point, hence never worse than where the call started")
VARIANTS += [TAKE_BEST_BLOCK]

ADD_START = Contract(
    module=MO, qualname="Optimize._add_starting_point_to_log_and_print", params=dict(self=TOptLog, verbose=TOpt(TV)), ghost=dict(cur_pen=TReal),
    ensures=[("one-row-appended-for-the-current-point", lambda o, n, r: z3.And(
        _pen(n.self).n == _pen(o.self).n + 1,
        z3.ForAll([j], z3.Implies(z3.And(0 <= j, j < _pen(o.self).n), _pen(n.self).at(j) == _pen(o.self).at(j)),
                  patterns=[z3.Select(_pen(n.self).arr, j)]),
        _pen(n.self).at(_pen(o.self).n) == n.cur_pen.t))],
    modifies=("self._log", "cur_pen"), trusted=True, extra=dict(variant="log-view"),
    note="assumed: tag() = add_point_to_log() appends exactly one row describing the point currently in the containers")

START_ROW_BLOCK = Contract(
    module=MO, qualname="Optimize.step", params=dict(self=TOptLog, verbose=TOpt(TV)), ghost=dict(cur_pen=TReal, i_log_start=TInt),
    requires=[("log-length-nonnegative", lambda s: _pen(s.self).n >= 0)],
    ensures=[("i_log_start-is-the-row-of-this-call's-starting-point", lambda o, n, r: z3.And(
        n.i_log_start.t == _pen(o.self).n, n.i_log_start.t == _pen(n.self).n - 1,
        _pen(n.self).at(n.i_log_start.t) == n.cur_pen.t))],
    modifies=("self._log", "cur_pen", "i_log_start"),
    call_ghost={("Optimize._add_starting_point_to_log_and_print", None): lambda st, pre: dict(cur_pen=st.cur_pen)},
    min_obligations=1,
    extra=dict(ENG, variant="start-row-block", ghost_writeback={"cur_pen": "cur_pen"},
               callee_contracts={"_add_starting_point_to_log_and_print": ADD_START},
               block=dict(first="self._add_starting_point_to_log_and_print(verbose)", count=2)),
    note="block contract: the window take_best minimises over starts at the row logged for the call's starting point")
VARIANTS += [START_ROW_BLOCK]


# ----------------------------------------------------------------------------- Optimize.reload: the restoring loop (block)   (C09, C15)
def _rl_inv():
    def g(L):
        o, c = L.old, L.cur
        return z3.And(c.wrote.n == o.wrote.n, c.wval.n == o.wval.n, c.act_new.n == o.act_new.n,
                      z3.ForAll([j], z3.Implies(z3.And(0 <= j, j < o.self.vary.n), z3.And(
                          c.wrote.at(j) == (j < L.k),
                          z3.Implies(j < L.k, z3.And(c.wval.at(j) == o.knob_values.at(j), c.act_new.at(j) == o.mask_input.at(j))))),
                          patterns=[z3.Select(c.wrote.arr, j)]))
    return [("restored-prefix", g), ("index", lambda L: z3.And(0 <= L.k, L.k <= L.n, L.n == L.old.self.vary.n))]


TOptVary = TRec("Optimize", dict(vary=TVaryList))
RELOAD_KNOB_BLOCK = Contract(
    module=MO, qualname="Optimize.reload", params=dict(self=TOptVary, knob_values=TVec, mask_input=TBVec),
    ghost=dict(wrote=TBVec, wval=TVec, act_new=TBVec),
    requires=[("one-logged-value-and-flag-per-knob", lambda s: z3.And(
        s.knob_values.n == s.self.vary.n, s.mask_input.n == s.self.vary.n, s.wrote.n == s.self.vary.n, s.wval.n == s.self.vary.n,
        s.act_new.n == s.self.vary.n)),
        ("nothing-written-yet", lambda s: z3.ForAll([j], z3.Not(s.wrote.at(j)), patterns=[z3.Select(s.wrote.arr, j)]))],
    ensures=[("every-knob-gets-the-logged-value-and-the-logged-flag (also knobs inactive in that row)", lambda o, n, r: z3.ForAll(
        [j], z3.Implies(z3.And(0 <= j, j < o.self.vary.n), z3.And(
            n.wrote.at(j), n.wval.at(j) == o.knob_values.at(j), n.act_new.at(j) == o.mask_input.at(j))),
        patterns=[z3.Select(n.wrote.arr, j)]))],
    modifies=("wrote", "wval", "act_new"),
    loops={0: LoopSpec(anchor="zip(self.vary, knob_values, mask_input)", invariants=_rl_inv(), modifies=("wrote", "wval", "act_new"))},
    min_obligations=5,
    extra=dict(ENG, variant="restore-block", block=dict(first="for vv, rr, aa in zip(self.vary, knob_values, mask_input):", count=1)),
    note="block contract: reload writes the raw logged value (bit-exact: no weight conversion) and flag of EVERY knob")
VARIANTS += [RELOAD_KNOB_BLOCK]


# ----------------------------------------------------------------------------- Optimize._log: all columns stay aligned   (C15)
from pyvc.logshape import ColumnAlignEngine, store_methods      # noqa: E402


def _log_methods():
    _, cls = _extract.module(MO).find("Optimize.__init__")
    return sorted(store_methods(cls, "_log"))


LOG_METHODS = _log_methods()
# functions that do not raise on the values they are given here and do not touch the log (trusted; listed in the evidence)
LOG_TOTAL = ("len", "hasattr", "isinstance", "_bool_array_to_string", "''.join", "range",
             # after a successful solver.step the merit function has just written exactly these values to the containers:
             # writing them again / reading them back is assumed not to raise (deterministic containers)
             "self.set_knobs_from_x", "self._extract_knob_values")
LOG_ALIGNED = [Contract(module=MO, qualname=f"Optimize.{m}", params={}, min_obligations=1,
                        extra=dict(engine=ColumnAlignEngine, variant="log-aligned", store="_log", total_calls=LOG_TOTAL,
                                   **(dict(scan_package="xdeps") if m == "__init__" else {})),
                        note="class invariant Aligned: every column of self._log has the same length at every exit of the method, "
                             "normal or exceptional (a row is appended completely or not at all)")
               for m in LOG_METHODS]
VARIANTS += LOG_ALIGNED


# ----------------------------------------------------------------------------- get_jacobian: the finite-difference loop (block)   (C16)
from pyvc.fd_engine import FDEngine, PyMat, TMat, merit, nf_of      # noqa: E402
TMeritFD = TRec("MeritFunctionForMatch", dict(vary=TVaryList, steps_for_jacobian=TVec, mask_input=TBVec))


def _fd_col(s, jj):
    """column jj of the forward-difference Jacobian, in OPTIMIZER units: both the increment and the divisor are step_jj / weight_jj"""
    h = s.self.steps_for_jacobian.at(jj) / W(jj)
    xp = z3.Store(s.x.arr, jj, z3.Select(s.x.arr, jj) + h)
    return lambda kk: (z3.Select(merit(xp), kk) - s.f0.at(kk)) / h


def _fd_inv():
    kk = z3.Int("kk!fd")

    def g(L):
        s, c = L.old, L.cur
        return z3.And(
            c.x.n == s.x.n, c.x.arr == s.x.arr,                               # the evaluation point is put back after every column
            c.jac.n == s.x.n,
            z3.ForAll([j, kk], z3.Implies(z3.And(0 <= j, j < L.k, s.self.mask_input.at(j)),
                                          z3.Select(c.jac.col(j), kk) == _fd_col(s, j)(kk)),
                      patterns=[z3.Select(c.jac.col(j), kk)]))
    return [("columns-so-far-are-forward-differences-in-x-units; x-restored", g),
            ("index", lambda L: z3.And(0 <= L.k, L.k <= L.n, L.n == L.old.x.n))]


FD_BLOCK = Contract(
    module=MO, qualname="MeritFunctionForMatch.get_jacobian", params=dict(self=TMeritFD, x=TVec, f0=TVec), ghost=dict(jac=TMat),
    requires=[("one-step-and-flag-per-knob", lambda s: z3.And(s.self.steps_for_jacobian.n == s.self.vary.n, s.x.n == s.self.vary.n,
                                                             s.self.mask_input.n == s.self.vary.n, s.f0.n == nf_of())),
              ("weights-positive", lambda s: weights_positive(s.self.vary.n)),
              ("steps-nonzero", lambda s: z3.ForAll([j], z3.Implies(z3.And(0 <= j, j < s.x.n), s.self.steps_for_jacobian.at(j) != 0)))],
    ensures=[("every-active-column-is (merit(x + h e_j) - f0) / h  with  h = step_j / weight_j", lambda o, n, r: z3.ForAll(
        [j, z3.Int("kk!fd")], z3.Implies(z3.And(0 <= j, j < o.x.n, o.self.mask_input.at(j)),
                                         z3.Select(n.jac.col(j), z3.Int("kk!fd")) == _fd_col(o, j)(z3.Int("kk!fd"))),
        patterns=[z3.Select(n.jac.col(j), z3.Int("kk!fd"))])),
        ("evaluation-point-unchanged", lambda o, n, r: z3.And(n.x.n == o.x.n, n.x.arr == o.x.arr))],
    raises={"UserError": dict(when=None, post=[], modifies=("x", "jac")), "AssertionError": dict(when=None, post=[], modifies=("x", "jac"))},
    loops={0: LoopSpec(anchor="range(len(x))", invariants=_fd_inv())},
    modifies=("x", "jac"), min_obligations=4,
    extra=dict(engine=FDEngine, variant="finite-difference-block", frame_ghosts=False, local_types=dict(jac=TMat),
               block=dict(first="steps = self._knobs_to_x(self.steps_for_jacobian)", until="self._last_jac = jac")),
    note="block contract: the forward-difference quotient uses ONE step per knob, in optimizer units (knob step / weight), for the increment "
         "and for the divisor; the merit function is an uninterpreted deterministic map of the evaluation point")
VARIANTS += [FD_BLOCK]


# ----------------------------------------------------------------------------- MeritFunctionForMatch._get_x_limits   (C10, C16)
from pyvc.limits_engine import LimitsEngine, v_lim_none      # noqa: E402
from pyvc.num_engine import TLimits, v_lo, v_hi              # noqa: E402


def _kl(jj, side):
    """the knob limit the statement means: the Vary's own, or the module default when it has none"""
    lo_d, hi_d = [x.t for x in LimitsEngine(None).default_pair_of(MO)]
    return z3.If(v_lim_none(jj), lo_d if side == 0 else hi_d, v_lo(jj) if side == 0 else v_hi(jj))


def _xl_inv(L):
    kl = L.cur.knob_limits
    return z3.And(0 <= L.k, L.k <= L.n, L.n == L.old.self.vary.n, kl.n == L.k,
                  z3.ForAll([j], z3.Implies(z3.And(0 <= j, j < L.k), z3.And(z3.Select(kl.lo, j) == _kl(j, 0), z3.Select(kl.hi, j) == _kl(j, 1))),
                            patterns=[z3.Select(kl.lo, j)]))


GET_X_LIMITS_PROVED = Contract(
    module=MO, qualname="MeritFunctionForMatch._get_x_limits", params=dict(self=TMerit), result=TLimits,
    requires=[("weights-positive", lambda s: weights_positive(s.self.vary.n))],
    ensures=[("row j of the x-space limits is (lower_j / weight_j, upper_j / weight_j) of knob j (the module default where the knob has no limits)",
              lambda o, n, r: z3.And(r.n == o.self.vary.n, z3.ForAll([j], z3.Implies(z3.And(0 <= j, j < r.n), z3.And(
                  z3.Select(r.lo, j) == _kl(j, 0) / W(j), z3.Select(r.hi, j) == _kl(j, 1) / W(j))), patterns=[z3.Select(r.lo, j)])))],
    loops={0: LoopSpec(anchor="self.vary", invariants=[("pairs-so-far are the knob limits", _xl_inv)])},
    min_obligations=4,
    extra=dict(engine=LimitsEngine, variant="proved", pair_lists=("knob_limits",)),
    note="the link between the limit block of JacobianSolver.step (x inside the x-space limits) and the statement (knob = x * weight inside the knob "
         "limits): with the proved lemma 'limits commute with the scaling' of _knobs_to_x")
VARIANTS += [GET_X_LIMITS_PROVED]
