"""C09: JacobianSolver.step, the bisection block -- the point the solver ACCEPTS is the point the merit function was evaluated at LAST.

  `MeritFunctionForMatch.last_point_within_tol` (what Optimize.solve returns on, C09) describes the last evaluation.  The bisection
  loop must therefore end with an evaluation at exactly  self.x - this_xstep , the point written to self.x afterwards -- also when the
  limit check has cancelled every component of the sub-step (a skipped re-evaluation would leave the flag of an earlier
  finite-difference probe).  Values are irrelevant to this claim: everything numerical is opaque (pyvc/opaque_engine.py); the
  expression  self.x - this_xstep  is one term wherever it is evaluated.
  Exceptional exit (`error_on_penalty_increase`): the block re-evaluates at self.x ("put things back") before raising.
"""
import z3
from pyvc.values import *          # noqa
from pyvc.contract import Contract, LoopSpec
from pyvc.opaque_engine import OpaqueEngine, opfn

MJ = "xdeps/optimize/jacobian.py"
TSolverB = TRec("JacobianSolver", dict(x=TV, n_bisections=TInt, max_rel_penalty_increase=TV, error_on_penalty_increase=TV, func=TV,
                                       ncalls=TV, verbose=TV, mask_from_limits=TV, penalty_after_last_step=TV, alpha_last_step=TV))

EVAL = Contract(
    module=MJ, qualname="JacobianSolver.eval", params=dict(self=TSolverB, x=TV), ghost=dict(last_eval=TV), result=TTuple(TV, TV),
    ensures=[("evaluated-there", lambda o, n, r: n.last_eval.t == o.x.t)],
    raises={"UserError": dict(when=None, post=[], modifies=("last_eval",))},
    modifies=("last_eval",), trusted=True, extra=dict(variant="records-the-point"),
    note="assumed: eval(x) calls the merit function at x (two lines of code; its bookkeeping of the best point is not in the claim)")


def _inv(L):
    c = L.cur
    sub = opfn("sub")
    return z3.And(c.alpha.t >= -1,
                  z3.Implies(c.alpha.t >= 0, c.last_eval.t == sub(c.self.x.t, c.this_xstep.t)),
                  c.self.x.t == L.old.self.x.t, c.self.n_bisections.t == L.old.self.n_bisections.t)


BISECT = Contract(
    module=MJ, qualname="JacobianSolver.step", params=dict(self=TSolverB, xstep=TV, penalty=TV, step=TV),
    ghost=dict(last_eval=TV, this_xstep=TV, y=TV, mask_hit_limit=TV, scaling=TV),
    requires=[("at-least-one-bisection-round", lambda s: s.self.n_bisections.t >= -1)],
    ensures=[("the-accepted-point-is-the-last-evaluated-point", lambda o, n, r: n.self.x.t == n.last_eval.t)],
    raises={"ValueError": dict(when=None, post=[("things-put-back: last evaluation at the unchanged self.x", lambda o, n: z3.And(
        n.last_eval.t == o.self.x.t, n.self.x.t == o.self.x.t))], modifies=("last_eval", "self.ncalls", "this_xstep", "y", "mask_hit_limit", "scaling", "penalty")),
            "UserError": dict(when=None, post=[], modifies=("last_eval", "self.ncalls", "this_xstep", "y", "mask_hit_limit", "scaling", "penalty")),
            "TypeError": dict(when=None, post=[], modifies=("last_eval", "self.ncalls", "this_xstep", "y", "mask_hit_limit", "scaling", "penalty"))},
    modifies=("self.x", "self.ncalls", "last_eval", "this_xstep", "y", "mask_hit_limit", "scaling", "penalty"),
    loops={0: LoopSpec(anchor="True", invariants=[("last-evaluation-at self.x - this_xstep (once a round has run)", _inv)],
                       modifies=("last_eval", "this_xstep", "y", "mask_hit_limit", "scaling", "self.ncalls")),
           1: LoopSpec(anchor="range(len(self.x))", invariants=[("outer-facts-kept", lambda L: z3.And(
               L.cur.self.x.t == L.old.self.x.t, L.cur.alpha.t == L.pre.alpha.t, L.cur.last_eval.t == L.pre.last_eval.t))],
               modifies=("this_xstep", "mask_hit_limit"))},
    call_ghost={("JacobianSolver.eval", None): lambda st, pre: dict(last_eval=st.last_eval)},
    min_obligations=4,
    extra=dict(engine=OpaqueEngine, variant="bisection-block", frame_ghosts=False,
               ghost_writeback={"last_eval": "last_eval"}, callee_contracts={"eval": EVAL},
               local_types=dict(alpha=TInt), pure_methods=("_get_x_limits",),
               block=dict(first="alpha = -1", count=7)),
    note="block contract: from `alpha = -1` to `self.x -= this_xstep`")

VARIANTS = [BISECT]
CONTRACTS = []
