"""C09: JacobianSolver.step, the bisection block -- the point the solver ACCEPTS is the point the merit function was evaluated at LAST.

  `MeritFunctionForMatch.last_point_within_tol` (what Optimize.solve returns on, C09) describes the last evaluation.  The bisection
  loop must therefore end with an evaluation at exactly  self.x - this_xstep , the point written to self.x afterwards -- also when the
  limit check has cancelled every component of the sub-step (a skipped re-evaluation would leave the flag of an earlier
  finite-difference probe).  Values are irrelevant to this claim: everything numerical is opaque (pyvc/opaque_engine.py); the
  expression  self.x - this_xstep  is one term wherever it is evaluated.
  Exceptional exit (`error_on_penalty_increase`): the block re-evaluates at self.x ("put things back") before raising.
"""
import z3
from pyvc.values import *          # noqa
from pyvc.contract import Contract, LoopSpec
from pyvc.opaque_engine import OpaqueEngine, opfn

MJ = "xdeps/optimize/jacobian.py"
TSolverB = TRec("JacobianSolver", dict(x=TV, n_bisections=TInt, max_rel_penalty_increase=TV, error_on_penalty_increase=TV, func=TV,
                                       ncalls=TV, verbose=TV, mask_from_limits=TV, penalty_after_last_step=TV, alpha_last_step=TV))

EVAL = Contract(
    module=MJ, qualname="JacobianSolver.eval", params=dict(self=TSolverB, x=TV), ghost=dict(last_eval=TV), result=TTuple(TV, TV),
    ensures=[("evaluated-there", lambda o, n, r: n.last_eval.t == o.x.t)],
    raises={"UserError": dict(when=None, post=[], modifies=("last_eval",))},
    modifies=("last_eval",), trusted=True, extra=dict(variant="records-the-point"),
    note="call-site view of eval(x): the merit function is called at x; proved on eval's own body as JacobianSolver.eval@calls-the-merit-function-at-x")


TSolverE = TRec("JacobianSolver", dict(func=TV, verbose=TV, _penalty_best=TV, _step_best=TV, _step=TV, _xbest=TV))
EVAL_PROVED = Contract(
    module=MJ, qualname="JacobianSolver.eval", params=dict(self=TSolverE, x=TV), ghost=dict(last_eval=TV, n_evals=TInt), result=TTuple(TV, TV),
    ensures=[("the-merit-function-is-called-exactly-once, at x", lambda o, n, r: z3.And(n.last_eval.t == o.x.t, n.n_evals.t == o.n_evals.t + 1))],
    raises={"UserError": dict(when=None, post=[("no-call-elsewhere", lambda o, n: z3.And(
        z3.Or(n.n_evals.t == o.n_evals.t, z3.And(n.n_evals.t == o.n_evals.t + 1, n.last_eval.t == o.x.t))))],
        modifies=("last_eval", "n_evals", "self._penalty_best", "self._step_best", "self._xbest"))},
    modifies=("last_eval", "n_evals", "self._penalty_best", "self._step_best", "self._xbest"), min_obligations=2,
    extra=dict(engine=OpaqueEngine, variant="calls-the-merit-function-at-x", frame_ghosts=False, records_calls={"func": ("last_eval", "n_evals")},
               pure_methods=("copy",)),
    note="what the bisection-block contract assumes about eval (records-the-point), proved on eval's own body")


def _inv(L):
    c = L.cur
    sub = opfn("sub")
    return z3.And(c.alpha.t >= -1,
                  z3.Implies(c.alpha.t >= 0, c.last_eval.t == sub(c.self.x.t, c.this_xstep.t)),
                  c.self.x.t == L.old.self.x.t, c.self.n_bisections.t == L.old.self.n_bisections.t)


BISECT = Contract(
    module=MJ, qualname="JacobianSolver.step", params=dict(self=TSolverB, xstep=TV, penalty=TV, step=TV),
    ghost=dict(last_eval=TV, this_xstep=TV, y=TV, mask_hit_limit=TV, scaling=TV),
    requires=[("at-least-one-bisection-round", lambda s: s.self.n_bisections.t >= -1)],
    ensures=[("the-accepted-point-is-the-last-evaluated-point", lambda o, n, r: n.self.x.t == n.last_eval.t)],
    raises={"ValueError": dict(when=None, post=[("things-put-back: last evaluation at the unchanged self.x", lambda o, n: z3.And(
        n.last_eval.t == o.self.x.t, n.self.x.t == o.self.x.t))], modifies=("last_eval", "self.ncalls", "this_xstep", "y", "mask_hit_limit", "scaling", "penalty")),
            "UserError": dict(when=None, post=[], modifies=("last_eval", "self.ncalls", "this_xstep", "y", "mask_hit_limit", "scaling", "penalty")),
            "TypeError": dict(when=None, post=[], modifies=("last_eval", "self.ncalls", "this_xstep", "y", "mask_hit_limit", "scaling", "penalty"))},
    modifies=("self.x", "self.ncalls", "last_eval", "this_xstep", "y", "mask_hit_limit", "scaling", "penalty"),
    loops={0: LoopSpec(anchor="True", invariants=[("last-evaluation-at self.x - this_xstep (once a round has run)", _inv)],
                       modifies=("last_eval", "this_xstep", "y", "mask_hit_limit", "scaling", "self.ncalls")),
           1: LoopSpec(anchor="range(len(self.x))", invariants=[("outer-facts-kept", lambda L: z3.And(
               L.cur.self.x.t == L.old.self.x.t, L.cur.alpha.t == L.pre.alpha.t, L.cur.last_eval.t == L.pre.last_eval.t))],
               modifies=("this_xstep", "mask_hit_limit"))},
    call_ghost={("JacobianSolver.eval", None): lambda st, pre: dict(last_eval=st.last_eval)},
    min_obligations=4,
    extra=dict(engine=OpaqueEngine, variant="bisection-block", frame_ghosts=False,
               ghost_writeback={"last_eval": "last_eval"}, callee_contracts={"eval": EVAL},
               local_types=dict(alpha=TInt), pure_methods=("_get_x_limits",),
               block=dict(first="alpha = -1", until="self.mask_from_limits = ~mask_hit_limit")),
    note="block contract: from `alpha = -1` up to (not including) `self.mask_from_limits = ~mask_hit_limit`")

VARIANTS = [BISECT, EVAL_PROVED]
CONTRACTS = []


# ----------------------------------------------------------------------------- the Newton-step block  (C10)
# Statement (C10): a disabled knob is never changed and a disabled TARGET has no influence on the steps taken; between Jacobian steps
# no knob moves by more than its max_step.  In JacobianSolver.step this is carried by ONE expression, which the block must compute:
#
#   xstep  ==  clip( scatter( zeros(len x),  mi,  lstsq( SVD( jac[mo, :][:, mi] ),  y[mo] ) ) )
#       mi = func.mask_input & self.mask_from_limits        (active knobs not frozen at a limit in the previous step)
#       mo = func.mask_output                               (active targets: rows of the Jacobian AND entries of the residual)
#       clip = func._clip_to_max_steps applied to the FULL-length vector (max_step is matched to knobs by position)
#
# Everything numerical is opaque; reads are functions of their operands inside the block (no collaborator is mutated there), so the
# code is compared with this specification TERM: renaming, temporaries and reordering of independent statements keep the term, dropping
# a mask, clipping the compressed vector, or scattering into another vector change it.
_f = lambda name, n: z3.Function(name, *([V] * n + [V]))
SL_ALL = z3.Const("py_slice_all", V)


def _spec_xstep(s):
    func = s.self.func.t
    x, jac, y = s.self.x.t, s.jac.t, s.y.t
    attr = lambda nm, o: z3.Function("py_attr_" + nm, V, V)(o)
    mi = opfn("bitand")(attr("mask_input", func), s.self.mask_from_limits.t)
    mo = attr("mask_output", func)
    pair = _f("py_index_pair", 2)
    getitem = _f("py_getitem", 2)
    sel = getitem(getitem(jac, pair(mo, SL_ALL)), pair(SL_ALL, mi))
    svd = _f("call_SVD/1", 1)(sel)
    newton = _f("meth_lstsq,rcond,sing_val_cutoff/4", 4)(svd, getitem(y, mo), s.rcond.t, s.sing_val_cutoff.t)
    from pyvc.opaque_engine import int_val
    zeros = _f("np_zeros/1", 1)(int_val(z3.Function("py_len", V, IntS)(x)))
    scattered = _f("py_setitem", 3)(zeros, mi, newton)
    return _f("meth__clip_to_max_steps/2", 2)(s.myf.t, scattered), svd


TSolverS = TRec("JacobianSolver", dict(x=TV, func=TV, mask_from_limits=TV, _last_jac_svd=TV))
NEWTON = Contract(
    module=MJ, qualname="JacobianSolver.step", params=dict(self=TSolverS, myf=TV, jac=TV, y=TV, rcond=TV, sing_val_cutoff=TV),
    ghost=dict(xstep=TV),
    requires=[("myf-is-the-merit-function", lambda s: s.myf.t == s.self.func.t)],
    ensures=[("the-step-is  clip(scatter(zeros, mi, lstsq(SVD(jac[mo, :][:, mi]), y[mo])))", lambda o, n, r: n.xstep.t == _spec_xstep(o)[0]),
             ("the-decomposition-kept-for-the-log-is-that-of-the-masked-Jacobian", lambda o, n, r: n.self._last_jac_svd.t == _spec_xstep(o)[1])],
    raises={"UserError": dict(when=None, post=[], modifies=("self._last_jac_svd", "xstep")),
            "AssertionError": dict(when=None, post=[], modifies=("xstep",))},
    modifies=("self._last_jac_svd", "xstep"), min_obligations=2,
    extra=dict(engine=OpaqueEngine, variant="newton-step-block", frame_ghosts=False, stable_reads=True,
               pure_methods=("lstsq", "_clip_to_max_steps", "copy"), pure_functions=("SVD",),
               block=dict(first="xstep = np.zeros(len(self.x))", until="self.mask_from_limits[:] = True")),
    note="block contract: from `xstep = np.zeros(len(self.x))` up to (not including) `self.mask_from_limits[:] = True`")

VARIANTS += [NEWTON]
