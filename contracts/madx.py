"""Sidecar contracts for xdeps/madxutils.py (DESIGN.md section 4, C19).

The deferred and the immediate evaluator are the SAME Transformer class (MadxEval) instantiated over references or over
plain data, so both walk one parse tree with the same callbacks.  What is decided here, on the real source at every run:
  * each arithmetic callback is bound to the function of the `operator` module the grammar rule stands for (add -> operator.add,
    div -> operator.truediv, pow -> operator.pow, ...), number -> float;
  * the grammar maps each operator token to that callback with the documented nesting (sum < product < power < atom).
With C04's overload contracts (operator.f(a, b) with a reference operand builds the node whose value is f of the operand
values, NaN only for a zero division) this gives, rule by rule, deferred value == immediate value.
Trusted: lark (LALR construction; both Lark instances parse a string to the same tree), the Transformer's bottom-up walk.
"""
from pyvc.contract import Contract
from pyvc.writeset import BindingTableEngine, TokenKeysEngine

M = "xdeps/madxutils.py"
BINDINGS = {"add": "operator.add", "sub": "operator.sub", "mul": "operator.mul", "div": "operator.truediv", "neg": "operator.neg",
            "pos": "operator.pos", "pow": "operator.pow", "number": "float", "call": "<method>", "getitem": "<method>", "getattr": "<method>",
            "var": "<method>", "assign_var": "<method>"}
RULES = [('NAME "=" sum', "assign_var"), ('sum "+" product', "add"), ('sum "-" product', "sub"), ('product "*" power', "mul"),
         ('product "/" power', "div"), ('power "^" atom', "pow"), ('power "**" atom', "pow"), ("NUMBER", "number"), ('"-" atom', "neg"),
         ('"+" atom', "pos"), ("NAME", "var"), ('NAME "->" NAME', "getitem"), ('NAME "(" sum ("," sum)* ")"', "call")]

CALLBACKS = Contract(module=M, qualname="MadxEval.__init__", params={}, min_obligations=len(BINDINGS) + len(RULES),
                     extra=dict(engine=BindingTableEngine, variant="callbacks", bindings=BINDINGS, grammar=dict(name="calc_grammar", rules=RULES)))
def _tok(meth, params, n, getattr_too=False):
    return Contract(module=M, qualname=f"MadxEval.{meth}", params={}, min_obligations=n,
                    extra=dict(engine=TokenKeysEngine, variant="token-keys", token_params=params, check_getattr=getattr_too),
                    note="NAME tokens are used as keys through .value only (a lark Token is a str subclass with its own repr: a reference keyed "
                         "by the token is not the path keyed by the text)")


TOKEN_KEYS = [_tok("assign_var", ("name",), 1), _tok("var", ("name",), 1), _tok("getitem", ("name", "key"), 2),
              _tok("getattr", ("name", "key"), 2, getattr_too=True)]
VARIANTS = [CALLBACKS] + TOKEN_KEYS
CONTRACTS = []
