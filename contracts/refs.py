"""Sidecar contracts for xdeps/refs.py -- C04 (evaluation), generated from the data-model
tables of contracts/refspec.py, one contract per real method."""
import z3
from pyvc.values import *          # noqa
from pyvc.contract import Contract, LoopSpec
from pyvc.refs_engine import RefsEngine, truthy, tuple_term
from contracts import refspec as RS
from contracts.refspec import val, valx, ev, ex, OK, is_ref, cls_of, C, fld, mk

M = "xdeps/refs.py"
x = z3.Const("x!rf", V)
y = z3.Const("y!rf", V)


def background(s=None):
    return z3.And(*(RS.global_facts() + [z3.Not(truthy(RS.NONE))]))


def at(t, goal):
    """goal under the ground class axioms instantiated at node t"""
    return z3.Implies(z3.And(*RS.class_axioms_at(t)), goal)


def exc_term(ns):
    return ns._exc.term if "_exc" in ns else None


def raises_pyexc(xterm):
    """raises the opaque Python exception `xterm(pre)` exactly when it is not OK"""
    return {"PyExc": dict(when=lambda s: xterm(s) != OK, exact=True, no_frame=True,
                          post=[("same-exception", lambda o, n: n._exc.term == xterm(o))],
                          term=lambda s: xterm(s))}


ENG = dict(engine=RefsEngine)

# ---------------------------------------------------------------- _mk_value / generic _get_value
MK_VALUE = Contract(
    module=M, qualname="BaseRef._mk_value", params=dict(value=TV), result=TV,
    axioms=[background, lambda s: z3.And(*RS.class_axioms_at(s.value.t))],
    ensures=[("value-of-operand", lambda o, n, r: r.t == val(o.value.t)),
             ("no-exception-pending", lambda o, n, r: valx(o.value.t) == OK)],
    raises=raises_pyexc(lambda s: valx(s.value.t)),
    min_obligations=3, extra=dict(ENG),
)

GET_VALUE = Contract(
    module=M, qualname="BaseRef._get_value", params=dict(self=TObj("BaseRef")), result=TV,
    requires=[("is-ref", lambda s: is_ref(s.self.t))],
    ensures=[("eval", lambda o, n, r: z3.And(r.t == ev(o.self.t), ex(o.self.t) == OK))],
    raises=raises_pyexc(lambda s: ex(s.self.t)),
    virtual="_get_value", trusted=True,
    note="interface contract (abstract method): every override below is proved against it",
)


def get_value_contract(cname):
    return Contract(
        module=M, qualname=f"{cname}._get_value", params=dict(self=TObj(cname)), result=TV,
        requires=[("class", lambda s: cls_of(s.self.t) == C[cname])],
        axioms=[background, lambda s: z3.And(*RS.class_axioms_at(s.self.t))],
        ensures=[("eval", lambda o, n, r: r.t == ev(o.self.t)),
                 ("no-exception-pending", lambda o, n, r: ex(o.self.t) == OK)],
        raises=raises_pyexc(lambda s: ex(s.self.t)),
        min_obligations=2, extra=dict(ENG),
    )


GETVALS = [get_value_contract(c) for c in list(RS.BINARY_CLASSES) + list(RS.UNARY_CLASSES)
           + ["LiteralExpr", "BuiltinRef", "CallRef", "AttrRef", "ItemRef", "Ref"]]


# ---------------------------------------------------------------- operator overloads
def overload_contract(meth, op, reflected):
    def post(o, n, r):
        l, rr = (o.other.t, o.self.t) if reflected else (o.self.t, o.other.t)
        xe, xv = RS.bin_spec(op, l, rr)
        return at(r.t, z3.And(is_ref(r.t), ex(r.t) == xe, z3.Implies(xe == OK, ev(r.t) == xv)))
    return Contract(
        module=M, qualname=f"BaseRef.{meth}", params=dict(self=TObj("BaseRef"), other=TV), result=TV,
        requires=[("is-ref", lambda s: is_ref(s.self.t))],
        axioms=[background],
        ensures=[(f"deferred-{op}{'-reflected' if reflected else ''}", post)],
        min_obligations=1, extra=dict(ENG),
    )


def unary_contract(meth, op):
    def post(o, n, r):
        xe, xv = RS.un_spec(op, o.self.t)
        return at(r.t, z3.And(is_ref(r.t), ex(r.t) == xe, z3.Implies(xe == OK, ev(r.t) == xv)))
    return Contract(
        module=M, qualname=f"BaseRef.{meth}", params=dict(self=TObj("BaseRef")), result=TV,
        requires=[("is-ref", lambda s: is_ref(s.self.t))], axioms=[background],
        ensures=[(f"deferred-{op}", post)], min_obligations=1, extra=dict(ENG),
    )


OVERLOADS = [overload_contract(m, op, refl) for m, (op, refl) in RS.BINARY_DUNDERS.items()] + \
            [overload_contract(m, op, False) for m, op in RS.NAMED_BINARY.items()] + \
            [unary_contract(m, op) for m, op in RS.UNARY_DUNDERS.items()]


# ---------------------------------------------------------------- builtin hooks
def builtin_contract(meth, fn, arity, variant=None):
    def post(o, n, r):
        if arity == 0 or variant == "omitted":
            params = RS.EMPTY_TUPLE
        elif meth == "__round__":
            # round(x, None) is round(x) in Python: no second argument is passed on
            params = z3.If(o.other.t == RS.NONE, RS.EMPTY_TUPLE, tuple_term([o.other.t]))
        else:
            params = tuple_term([o.other.t])
        return z3.And(cls_of(r.t) == C["BuiltinRef"], fld["_arg"](r.t) == o.self.t,
                      fld["_op"](r.t) == RS.BUILTIN_FN[fn], fld["_params"](r.t) == params)
    params = dict(self=TObj("BaseRef"))
    if arity != 0:
        params["other"] = TV
    return Contract(
        module=M, qualname=f"BaseRef.{meth}", params=params, result=TV,
        requires=[("is-ref", lambda s: is_ref(s.self.t))], axioms=[background],
        ensures=[(f"deferred-{fn}" + ("-one-argument-form" if variant == "omitted" else ""), post)],
        min_obligations=1,
        extra=dict(ENG, variant=variant, bind_defaults=["other"] if variant == "omitted" else []),
    )


BUILTINS = []
for _m, (_fn, _ar) in RS.BUILTIN_DUNDERS.items():
    if _ar == "opt":
        BUILTINS.append(builtin_contract(_m, _fn, 1))
        BUILTINS.append(builtin_contract(_m, _fn, 1, variant="omitted"))
    else:
        BUILTINS.append(builtin_contract(_m, _fn, _ar))

# ---------------------------------------------------------------- in-place operators
EXPR_PROP = Contract(
    module=M, qualname="MutableRef._expr", params=dict(self=TObj("MutableRef")), result=TV,
    ensures=[("current-expression", lambda o, n, r: z3.And(
        r.t == RS.expr_of(o.self.t), z3.Or(r.t == RS.NONE, is_ref(r.t))))],
    trusted=True, note="property reading Manager.tasks; assumed: returns the registered expression or None",
)


def inplace_contract(meth, op):
    cname = next(c for c, o in RS.BINARY_CLASSES.items() if o == op)

    def post(o, n, r):
        e0 = RS.expr_of(o.self.t)
        return z3.If(e0 != RS.NONE, r.t == mk[cname](e0, o.other.t),
                     z3.And(r.t == RS.opv[op](ev(o.self.t), o.other.t)))
    return Contract(
        module=M, qualname=f"MutableRef.{meth}", params=dict(self=TObj("MutableRef"), other=TV), result=TV,
        requires=[("is-ref", lambda s: is_ref(s.self.t)),
                  ("operand-is-a-plain-value", lambda s: z3.Not(is_ref(s.other.t))),
                  ("current-value-is-plain", lambda s: z3.Not(is_ref(ev(s.self.t))))],
        axioms=[background],
        ensures=[(f"old-expression-or-old-value-{op}", post)],
        raises={"PyExc": dict(when=None, no_frame=True, post=[])},
        min_obligations=2, extra=dict(ENG, must_exist=True),
    )


INPLACE = [inplace_contract(m, op) for m, op in RS.INPLACE_DUNDERS.items()]

# ---------------------------------------------------------------- _set_value: exactly one store, at the evaluated owner / key
def set_value_contract(cname, kind):
    def stores(n):
        if "__stores" not in n:
            return []
        return getattr(n, "__stores").items

    def post(o, n, r):
        me = o.self.t
        st = stores(n)
        if len(st) != 1:
            return z3.BoolVal(False)
        k_, ow, ky, vv = st[0].items
        return z3.And(z3.BoolVal(k_.s == kind), ow.t == val(fld["_owner"](me)), ky.t == val(fld["_key"](me)), vv.t == o.value.t,
                      valx(fld["_owner"](me)) == OK, valx(fld["_key"](me)) == OK)
    return Contract(
        module=M, qualname=f"{cname}._set_value", params=dict(self=TObj(cname), value=TV),
        requires=[("class", lambda s: cls_of(s.self.t) == C[cname])],
        axioms=[background, lambda s: z3.And(*RS.class_axioms_at(s.self.t))],
        ensures=[("one-store-at-evaluated-owner-and-key", post)],
        raises={"PyExc": dict(when=lambda s: z3.Or(valx(fld["_owner"](s.self.t)) != OK, valx(fld["_key"](s.self.t)) != OK),
                              exact=True, no_frame=True,
                              post=[("nothing-stored", lambda o, n: z3.BoolVal("__stores" not in n))])},
        min_obligations=2, extra=dict(ENG),
        note="the location written is the one _get_value reads: owner and key are evaluated when they are references "
             "(computed keys included); evaluation failures propagate before anything is stored")


SETVALS = [set_value_contract("AttrRef", "attr"), set_value_contract("ItemRef", "item")]

CONTRACTS = [MK_VALUE, GET_VALUE] + GETVALS + OVERLOADS + BUILTINS + [EXPR_PROP] + INPLACE + SETVALS
