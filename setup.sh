#!/bin/bash
# Offline setup: overlay venv (python 3.12 + z3/cvc5 wheels from the local wheelhouse,
# /venv's site-packages added through a .pth so numpy/scipy/lark/Cython resolve).
set -e
cd "$(dirname "$0")"
if [ ! -x .venv/bin/python ] || ! .venv/bin/python -c "import z3, jsonschema, numpy, Cython" 2>/dev/null; then
  rm -rf .venv
  /root/.pyenv/versions/3.12.1/bin/python -m venv .venv
  .venv/bin/pip install -q --no-index --find-links /opt/veriftools/wheels \
      z3-solver cvc5 crosshair-tool deal icontract jsonschema
  echo "import site; site.addsitedir('/venv/lib/python3.12/site-packages')" \
      > .venv/lib/python3.12/site-packages/zz_repo_deps.pth
fi
mkdir -p .work evidence
.venv/bin/python -c "import z3, numpy, scipy, lark, Cython, jsonschema; print('setup ok: z3', z3.get_version_string())"
