"""Engine specialisation for protocol-level block contracts over numerical code whose VALUES are irrelevant to the claim
(JacobianSolver.step, bisection block: "the last point the merit function was evaluated at is the point the solver accepts").

  every array / float / object is an opaque value (sort V); Python ints and None are kept
  a OP b, a OP= b      : the uninterpreted function  py_<op>(a, b)  -- the SAME expression evaluated twice is the same value (what the
                         claim needs: eval(self.x - this_xstep) and  self.x -= this_xstep  meet in one term); OP= is OP followed by a store
  a < b, truth of a value, x[i], len(x), np.<f>(...) : arbitrary (fresh) results
  x[i] = v on a local   : the local becomes an arbitrary new value (its content is outside the claim)
  self.<m>(...)         : by the call-site specific contracts of contract.extra['callee_contracts']
"""
import ast
import z3

from .engine import *          # noqa
from .engine import Engine, Ctx, Outcome, BoundMethod, none_term
from .values import *          # noqa
from .tasks_engine import TasksEngine

_OPS = {}


def opfn(name):
    if name not in _OPS:
        _OPS[name] = z3.Function("py_" + name, V, V, V)
    return _OPS[name]


int_val = z3.Function("py_int_value", IntS, V)
real_val = z3.Function("py_float_value", z3.RealSort(), V)


class OpaqueEngine(TasksEngine):
    def as_v(self, v, cx=None):
        if isinstance(v, PyObj):
            return v.t
        if isinstance(v, PyInt):
            return int_val(v.t)
        if isinstance(v, PyReal):
            return real_val(v.t)
        if isinstance(v, PyNone):
            return none_term()
        if isinstance(v, PyBool):
            return int_val(z3.If(v.t, 1, 0))
        if isinstance(v, PyOpt):
            return z3.If(v.is_none, none_term(), self.as_v(v.value))
        raise Unsupported("opaque view of " + type(v).__name__)

    def assign(self, tgt, v, cx, rebind=False):
        if isinstance(tgt, ast.Name) and isinstance(v, PyNone):
            v = PyObj(none_term())          # a local that starts as None and is re-assigned in a loop: an opaque value that is None now
        return super().assign(tgt, v, cx, rebind=rebind)

    def binop(self, op, a, b, cx, inplace=False, node=None):
        if isinstance(a, (PyInt,)) and isinstance(b, (PyInt,)) and isinstance(op, (ast.Add, ast.Sub, ast.Mult)):
            return super().binop(op, a, b, cx, inplace=inplace, node=node)
        return PyObj(opfn(type(op).__name__.lower())(self.as_v(a), self.as_v(b)))

    def binop_hook(self, op, a, b, cx, inplace, node):
        return PyObj(opfn(type(op).__name__.lower())(self.as_v(a), self.as_v(b)))

    def unop_hook(self, op, v, cx, node):
        return PyObj(z3.Function("py_unary_" + type(op).__name__.lower(), V, V)(self.as_v(v)))

    def eval_UnaryOp(self, e, cx):
        v = self.eval(e.operand, cx)
        if isinstance(v, PyObj):
            if isinstance(e.op, ast.Not):
                return PyBool(z3.Not(self.truth(v, cx)))
            return self.unop_hook(e.op, v, cx, e)
        return super().eval_UnaryOp(e, cx)

    def compare(self, op, a, b, cx, node):
        if isinstance(op, (ast.Lt, ast.LtE, ast.Gt, ast.GtE)) and (isinstance(a, PyObj) or isinstance(b, PyObj)
                                                                 or isinstance(a, PyOpt) or isinstance(b, PyOpt)):
            return FreshConst(BoolS, "cmp")
        return super().compare(op, a, b, cx, node)

    def val_ite(self, c, a, b, cx):
        if {type(a), type(b)} == {PyBool, PyObj}:
            return PyBool(z3.If(c, self.truth(a, cx), self.truth(b, cx)))      # only its truth value is used
        return super().val_ite(c, a, b, cx)

    def truth_hook(self, v, cx):
        if isinstance(v, PyObj):
            return FreshConst(BoolS, "truth")
        return super().truth_hook(v, cx)

    # contract.extra['stable_reads']: within the verified block no collaborator is mutated, so attribute reads, subscripts, len,
    # stores into locals and pure calls are FUNCTIONS of their operands (uninterpreted): the block can be compared with a
    # specification TERM.  Without it every such read is an arbitrary fresh value.
    def stable(self):
        return bool(self.c.extra.get("stable_reads"))

    def getattr(self, obj, attr, cx, node=None):
        if isinstance(obj, PyRec) and attr not in obj.fields:
            return PyObj(FreshConst(V, "field_" + attr))
        if isinstance(obj, PyObj):
            if self.stable():
                return PyObj(z3.Function("py_attr_" + attr, V, V)(obj.t))
            return PyObj(FreshConst(V, "attr_" + attr))
        return super().getattr(obj, attr, cx, node)

    def eval_Slice(self, e, cx):
        if e.lower is None and e.upper is None and e.step is None:
            return PyObj(z3.Const("py_slice_all", V))
        parts = [self.as_v(self.eval(p, cx)) if p is not None else none_term() for p in (e.lower, e.upper, e.step)]
        return PyObj(z3.Function("py_slice", V, V, V, V)(*parts))

    def eval_index(self, sl, cx):
        if isinstance(sl, ast.Slice):
            return self.eval_Slice(sl, cx)
        if isinstance(sl, ast.Tuple):
            items = [self.eval_index(x, cx) for x in sl.elts]
            if len(items) == 2:
                return PyObj(z3.Function("py_index_pair", V, V, V)(self.as_v(items[0]), self.as_v(items[1])))
            raise Unsupported("index tuple of length %d" % len(items))
        return super().eval_index(sl, cx)

    def getitem_hook(self, obj, idx, cx, node):
        if self.stable() and isinstance(obj, PyObj) and obj.cls == "mapping":
            # a dict-like collaborator: KeyError exactly when the key is absent
            k = self.as_v(idx)
            cx.raise_if(z3.Not(z3.Function("py_has_key", V, V, BoolS)(obj.t, k)), "KeyError")
            return PyObj(z3.Function("py_getitem", V, V, V)(obj.t, k))
        if self.stable() and isinstance(obj, PyObj):
            return PyObj(z3.Function("py_getitem", V, V, V)(obj.t, self.as_v(idx)))
        return PyObj(FreshConst(V, "item"))

    def setitem_hook(self, obj, idx, v, cx, node):
        # x[i] = v : x is a local holding an opaque array
        tgt = node.value
        if isinstance(tgt, ast.Name):
            if self.stable() and isinstance(obj, PyObj):
                cx.st.env[tgt.id] = PyObj(z3.Function("py_setitem", V, V, V, V)(obj.t, self.as_v(idx), self.as_v(v)))
            else:
                cx.st.env[tgt.id] = PyObj(FreshConst(V, tgt.id))      # an arbitrary new value (its content is outside the claim)
            return
        if self.stable() and isinstance(tgt, ast.Attribute) and isinstance(tgt.value, ast.Name) and tgt.value.id == "self":
            me = cx.st.env["self"]
            cur = me.fields.get(tgt.attr)
            if isinstance(cur, PyObj):
                cx.st.env["self"] = me.with_field(tgt.attr, PyObj(z3.Function("py_setitem", V, V, V, V)(cur.t, self.as_v(idx), self.as_v(v))))
                return
        raise Unsupported("item store through " + type(tgt).__name__)

    def builtin_eval(self, e, cx):
        if self.stable():
            args = [self.as_v(self.eval(a, cx)) for a in e.args]
            cx.raise_if(FreshConst(BoolS, "eval_raises"), "UserError")
            return PyObj(self.pure_term("builtin_eval", args, []))
        return super().builtin_eval(e, cx)

    def isinstance_hook(self, v, clsnode, cx):
        if isinstance(clsnode, ast.Name) and isinstance(v, PyObj):
            return PyBool(z3.Function("py_isinstance_" + clsnode.id, V, BoolS)(v.t))
        return super().isinstance_hook(v, clsnode, cx)

    def builtin_len(self, e, cx):
        v = self.eval(e.args[0], cx)
        if self.stable() and isinstance(v, PyObj):
            n = z3.Function("py_len", V, IntS)(v.t)
        else:
            n = FreshConst(IntS, "len")
        cx.assume(n >= 0)
        return PyInt(n)

    def builtin_range(self, e, cx):
        args = [self.eval(a, cx) for a in e.args]
        if len(args) == 1 and isinstance(args[0], PyInt):
            n = args[0].t
            return PyEnum(n, lambda j: j, TInt, axioms=[n >= 0])
        raise Unsupported("range form")

    def global_name(self, name, cx, node):
        if name in ("np", "_print", "print", "bool", "int", "float") or name in self.c.extra.get("opaque_globals", ()):
            return PyObj(z3.Const("py_global_" + name, V))
        return super().global_name(name, cx, node)

    def call_method(self, recv, name, e, cx, recv_node):
        rec = self.c.extra.get("records_calls", {})
        if isinstance(recv, PyRec) and name in rec and isinstance(recv.fields.get(name), PyObj):
            # self.<field>(arg, ...): a call of a collaborator held in a field; the contract observes it through ghosts
            #   records_calls = {field: (ghost receiving the first argument, ghost counting the calls)}
            args = [self.eval(a, cx) for a in e.args]
            for kw in e.keywords:
                self.eval(kw.value, cx)
            g_arg, g_cnt = rec[name]
            cx.st.env[g_arg] = PyObj(self.as_v(args[0])) if args else PyObj(none_term())
            cx.st.env[g_cnt] = PyInt(cx.st.env[g_cnt].t + 1)
            cx.raise_if(FreshConst(BoolS, name + "_raises"), "UserError")
            return PyObj(FreshConst(V, "result_of_" + name))
        if isinstance(recv_node, ast.Name) and recv_node.id == "np" and "np" not in cx.st.env:
            args = [self.as_v(self.eval(a, cx)) for a in e.args]
            kws = sorted((kw.arg, self.as_v(self.eval(kw.value, cx))) for kw in e.keywords)
            if self.stable():
                return PyObj(self.pure_term("np_" + name, args, kws))
            return PyObj(FreshConst(V, "np_" + name))
        return super().call_method(recv, name, e, cx, recv_node)

    def pure_term(self, fname, args, kws):
        """uninterpreted application  fname[k1,k2,...](args..., kwvalues...)  (keyword NAMES are part of the symbol)"""
        sym = fname + "".join("," + k for k, _ in kws)
        vals = list(args) + [v for _, v in kws]
        return z3.Function(f"{sym}/{len(vals)}", *([V] * len(vals) + [V]))(*vals) if vals else z3.Const(sym + "/0", V)

    def method_hook(self, recv, name, e, cx, recv_node):
        if isinstance(recv, PyObj) and name in self.c.extra.get("pure_methods", ()):
            # a method of an opaque collaborator declared pure for this contract (listed as assumption): may raise; its result is
            # arbitrary, or -- with stable reads -- a function of the receiver and the arguments
            args = [self.as_v(self.eval(a, cx)) for a in e.args]
            kws = sorted((kw.arg, self.as_v(self.eval(kw.value, cx))) for kw in e.keywords)
            cx.raise_if(FreshConst(BoolS, name + "_raises"), "UserError")
            if self.stable():
                if name == "copy" and not args and not kws:
                    return recv                     # a copy has the same VALUE
                return PyObj(self.pure_term("meth_" + name, [recv.t] + args, kws))
            return PyObj(FreshConst(V, name))
        return super().method_hook(recv, name, e, cx, recv_node)

    def call_hook(self, e, cx):
        if self.stable() and isinstance(e.func, ast.Name) and e.func.id in self.c.extra.get("pure_functions", ()):
            args = [self.as_v(self.eval(a, cx)) for a in e.args]
            kws = sorted((kw.arg, self.as_v(self.eval(kw.value, cx))) for kw in e.keywords)
            cx.raise_if(FreshConst(BoolS, e.func.id + "_raises"), "UserError")
            return PyObj(self.pure_term("call_" + e.func.id, args, kws))
        if isinstance(e.func, ast.Name) and e.func.id in ("_print", "print"):
            for a in e.args:
                self.eval(a, cx)
            return PyNone()
        return super().call_hook(e, cx)

    def eval_JoinedStr(self, e, cx):
        for v in e.values:
            if isinstance(v, ast.FormattedValue):
                self.eval(v.value, cx)
        return PyObj(FreshConst(V, "text"))

    def coerce(self, v, ty, cx, what):
        if isinstance(ty, TVCls) and not isinstance(v, PyObj) and isinstance(v, (PyInt, PyReal, PyNone, PyBool)):
            return PyObj(self.as_v(v))
        return super().coerce(v, ty, cx, what)
