"""pyvc.logshape -- the column-alignment invariant of a dict-of-lists log (Optimize._log), on every exit.

Invariant  Aligned(self) :  all columns of self.<store> have the same length.

For every method of the class that touches the store (directly, or through a self-call to one that does) the engine
walks the REAL body path by path and tracks, per column, its length relative to the length on entry.  Obligations:

  column-exists      every constant key used on the store is a column created by the initialiser
  aligned@<site>     at every point where control can leave the function -- return, fall-through, raise, assert, and every
                     call that may raise (any call that is not an append/clear on a column and is not on the contract's
                     list of total functions) -- and at every subscript load/store outside the store (IndexError/KeyError)
                     all columns have the same length
  aligned@loop       at every loop head and back edge (the invariant is its own loop invariant), at break / continue
  callee             a self-call to another store-touching method requires Aligned and gives back Aligned on every exit
                     (that method is verified against the same contract: modular)

so  Aligned  holds on entry => it holds on every normal AND exceptional exit.  The statement forms the store may appear in
are fixed (below); any other use (aliasing a column, passing the dict away, nested functions) makes the contract stale
instead of silently passing.

Allowed forms:   self.S = dict(col=[], ...)                 (initialiser; every column empty: aligned)
                 self.S[<const>].append(e)  as a statement   (length of that column + 1; calls inside e are evaluated first)
                 self.S[<const>].clear()    as a statement
                 for k in self.S: <body using self.S[k]>      (unrolled over the known columns; tests comparing k with constants
                                                             are decided per column)
                 self.S[<const>][i] = e ,  reads  self.S[<const>]... , len(self.S[<const>]), <x> in self.S[<const>]
"""
import ast
import os
import z3

from .engine import Obligation, StaleContract, _norm


class _Stale(Exception):
    pass


def store_methods(classnode, store):
    """names of the methods of the class that touch self.<store>, directly or through self-calls (transitive)"""
    defs = {n.name: n for n in classnode.body if isinstance(n, ast.FunctionDef)}
    direct = {m for m, d in defs.items() if any(isinstance(x, ast.Attribute) and x.attr == store for x in ast.walk(d))}
    lt = set(direct)
    changed = True
    while changed:
        changed = False
        for m, d in defs.items():
            if m in lt:
                continue
            for x in ast.walk(d):
                if isinstance(x, ast.Call) and isinstance(x.func, ast.Attribute) and isinstance(x.func.value, ast.Name) \
                        and x.func.value.id == "self" and x.func.attr in lt:
                    lt.add(m)
                    changed = True
                    break
    return lt


def columns_of(classnode, store, init="__init__"):
    for n in classnode.body:
        if isinstance(n, ast.FunctionDef) and n.name == init:
            for x in ast.walk(n):
                if isinstance(x, ast.Assign) and len(x.targets) == 1 and _is_store(x.targets[0], store):
                    v = x.value
                    if isinstance(v, ast.Call) and isinstance(v.func, ast.Name) and v.func.id == "dict" and not v.args:
                        if all(isinstance(k.value, ast.List) and not k.value.elts for k in v.keywords):
                            return [k.arg for k in v.keywords]
                    if isinstance(v, ast.Dict) and all(isinstance(k, ast.Constant) for k in v.keys) \
                            and all(isinstance(e, ast.List) and not e.elts for e in v.values):
                        return [k.value for k in v.keys]
                    raise StaleContract(f"initialiser of self.{store} is not a literal dict of empty lists")
    raise StaleContract(f"no initialiser of self.{store} found in {init}")


def _is_store(node, store):
    return isinstance(node, ast.Attribute) and node.attr == store and isinstance(node.value, ast.Name) and node.value.id == "self"


def _col_of(node, store):
    """self.S[<const>] -> column name; self.S[<name>] -> ('var', name); else None"""
    if isinstance(node, ast.Subscript) and _is_store(node.value, store):
        if isinstance(node.slice, ast.Constant) and isinstance(node.slice.value, str):
            return node.slice.value
        if isinstance(node.slice, ast.Name):
            return ("var", node.slice.id)
        raise _Stale("computed column key " + ast.unparse(node))
    return None


class ColumnAlignEngine:
    def __init__(self, registry, opts=None):
        self.reg = registry
        self.trivial_frames = 0

    def verify(self, c, fdef, classctx=None):
        if classctx is None:
            raise StaleContract(f"{c.qualname}: not a method")
        self.c = c
        self.store = c.extra.get("store", "_log")
        self.total = set(c.extra.get("total_calls", ()))
        self.cols = columns_of(classctx, self.store, c.extra.get("init", "__init__"))
        self.lt = store_methods(classctx, self.store)
        self.sites = {}
        self.order = []
        self.is_init = fdef.name == c.extra.get("init", "__init__")
        self.parents = {}
        for n in ast.walk(fdef):
            for ch in ast.iter_child_nodes(n):
                self.parents[id(ch)] = n
        try:
            start = {k: (("none" if self.is_init else "n"), 0) for k in self.cols}
            outs = self.block(fdef.body, start)
            for st in outs:
                self.site("exit", fdef, "fall-through", st, line=fdef.body[-1].lineno)
        except _Stale as ex:
            raise StaleContract(f"{c.qualname}: use of self.{self.store} outside the supported forms: {ex}")
        obls = []
        for key in self.order:
            ok, node, why, line = self.sites[key]
            name = f"{c.module}:{c.qualname}#{key}"
            ob = Obligation(name, "invariant", [], z3.BoolVal(ok), c.qualname, line)
            ob.why = why
            obls.append(ob)
        if c.extra.get("scan_package"):
            obls += self.scan_package(c, classctx)
        if not obls:
            raise StaleContract(f"{c.qualname}: nothing to check")
        return obls

    # ---- obligations --------------------------------------------------------------------------------------------
    def aligned(self, st):
        # (before the initialiser has created the store there is nothing to misalign: the object is not constructed yet)
        return len(set(st.values())) == 1

    def describe(self, st):
        groups = {}
        for k, v in st.items():
            groups.setdefault(v, []).append(k)
        return "; ".join(f"{'+'.join(ks)}: {'not created' if b == 'none' else ('len0' if b == 'n' else b)}{d:+d}" for (b, d), ks in groups.items())

    def site(self, kind, node, what, st, line=None, ok=None):
        src = _norm(ast.unparse(node))[:60] if not isinstance(node, ast.FunctionDef) else node.name
        key = f"aligned@{kind}:{what}:{src}" if ok is None else f"{kind}:{what}:{src}"
        good = self.aligned(st) if ok is None else ok
        if key not in self.sites:
            base, n = key, 0
            self.order.append(key)
            self.sites[key] = (good, node, "" if good else self.describe(st), line or getattr(node, "lineno", 0))
        elif not good and self.sites[key][0]:
            self.sites[key] = (False, node, self.describe(st), self.sites[key][3])

    def fresh_aligned(self, tag):
        return {k: (tag, 0) for k in self.cols}

    # ---- expressions ----------------------------------------------------------------------------------------------
    def calls_in(self, expr, st, skip=None):
        """raise points inside an expression, children first"""
        if expr is None:
            return st
        for node in self.postorder(expr):
            if node is skip:
                continue
            if isinstance(node, (ast.Lambda, ast.GeneratorExp, ast.ListComp, ast.SetComp, ast.DictComp)):
                if any(_is_store(x, self.store) for x in ast.walk(node)):
                    raise _Stale("store inside a nested scope: " + ast.unparse(node)[:50])
            if _is_store(node, self.store):
                self.check_store_use(node)
            if isinstance(node, ast.Subscript):
                col = None
                try:
                    col = _col_of(node, self.store)
                except _Stale:
                    raise
                if col is not None:
                    if isinstance(col, str):
                        self.site("column-exists", node, col, st, ok=col in self.cols)
                    continue
                self.site("subscript", node, "may-raise", st)
            if isinstance(node, ast.Call):
                fn = ast.unparse(node.func)
                if isinstance(node.func, ast.Attribute) and _col_of(node.func.value, self.store) is not None:
                    if node.func.attr in ("append", "clear", "extend", "insert", "pop", "remove", "sort", "reverse"):
                        raise _Stale("column mutation inside an expression: " + ast.unparse(node)[:50])
                    continue          # count / index ...: reads
                if isinstance(node.func, ast.Attribute) and isinstance(node.func.value, ast.Name) and node.func.value.id == "self" \
                        and node.func.attr in self.lt:
                    self.site("call", node, "callee-requires-aligned", st)
                    st = self.fresh_aligned(("after", node.lineno, node.col_offset))
                    continue
                if fn in self.total:
                    continue
                self.site("call", node, "may-raise", st)
        return st

    def postorder(self, node):
        for ch in ast.iter_child_nodes(node):
            yield from self.postorder(ch)
        yield node

    def check_store_use(self, node):
        par = self.parents.get(id(node))
        if isinstance(par, ast.Subscript) and par.value is node:
            g = self.parents.get(id(par))
            # self.S[k] used as: receiver of a method call, base of a subscript, argument of len/np.array/list, operand of `in`
            if isinstance(g, ast.Attribute) and isinstance(self.parents.get(id(g)), ast.Call) and self.parents[id(g)].func is g:
                return
            if isinstance(g, ast.Subscript) and g.value is par:
                return
            if isinstance(g, ast.Call) and ast.unparse(g.func) in ("len", "np.array", "list", "tuple", "np.asarray"):
                return
            if isinstance(g, ast.Compare):
                return
            raise _Stale("column escapes: " + ast.unparse(g if g is not None else par)[:60])
        if isinstance(par, ast.For) and par.iter is node:
            return
        if isinstance(par, ast.Assign) and node in par.targets:
            return
        raise _Stale("store escapes: " + ast.unparse(par if par is not None else node)[:60])

    # ---- statements -----------------------------------------------------------------------------------------------
    def block(self, stmts, st):
        """-> list of states at normal completion"""
        states = [st]
        for s in stmts:
            nxt = []
            for cur in states:
                nxt += self.stmt(s, dict(cur))
            # merge identical states
            uniq = []
            for x in nxt:
                if x not in uniq:
                    uniq.append(x)
            states = uniq
            if not states:
                break
        return states

    def stmt(self, s, st):
        if isinstance(s, ast.Expr):
            v = s.value
            if isinstance(v, ast.Call) and isinstance(v.func, ast.Attribute):
                col = _col_of(v.func.value, self.store)
                if col is not None and v.func.attr in ("append", "clear"):
                    if not isinstance(col, str):
                        col = getattr(self, "kenv", {}).get(col[1])
                        if col is None:
                            raise _Stale("variable column outside a loop over the store")
                    self.site("column-exists", v.func.value, col, st, ok=col in self.cols)
                    for a in list(v.args) + [k.value for k in v.keywords]:
                        st = self.calls_in(a, st)
                    if col in st:
                        b, d = st[col]
                        st[col] = (b, d + 1) if v.func.attr == "append" else ("zero", 0)
                    return [st]
                if col is not None and v.func.attr in ("extend", "insert", "pop", "remove"):
                    raise _Stale("unsupported column mutation " + ast.unparse(v)[:50])
            return [self.calls_in(v, st)]
        if isinstance(s, (ast.Assign, ast.AnnAssign, ast.AugAssign)):
            tgts = s.targets if isinstance(s, ast.Assign) else [s.target]
            if any(_is_store(t, self.store) for t in tgts):
                if not self.is_init:
                    raise _Stale("store rebound outside the initialiser")
                st = self.calls_in(s.value, st)
                return [{k: ("zero", 0) for k in self.cols}]
            st = self.calls_in(s.value, st)
            for t in tgts:
                st = self.calls_in(t, st)
            return [st]
        if isinstance(s, ast.Return):
            st = self.calls_in(s.value, st)
            self.site("exit", s, "return", st)
            return []
        if isinstance(s, ast.Raise):
            st = self.calls_in(s.exc, st)
            self.site("exit", s, "raise", st)
            return []
        if isinstance(s, ast.Assert):
            st = self.calls_in(s.test, st)
            self.site("exit", s, "assert", st)
            return [st]
        if isinstance(s, (ast.Pass, ast.Import, ast.ImportFrom, ast.Global, ast.Nonlocal)):
            return [st]
        if isinstance(s, ast.Delete):
            for t in s.targets:
                st = self.calls_in(t, st)
            return [st]
        if isinstance(s, ast.If):
            st = self.calls_in(s.test, st)
            known = self.static_test(s.test)
            if known is True:
                return self.block(s.body, dict(st))
            if known is False:
                return self.block(s.orelse, dict(st))
            return self.block(s.body, dict(st)) + self.block(s.orelse, dict(st))
        if isinstance(s, (ast.For, ast.While)):
            if isinstance(s, ast.For) and _is_store(s.iter, self.store):
                # for k in self.S: ...   the set of columns is known: unrolled, k bound to each column name in turn
                if not isinstance(s.target, ast.Name) or s.orelse:
                    raise _Stale("loop over the store with a non-trivial target")
                states = [st]
                for col in self.cols:
                    self.kenv = dict(getattr(self, "kenv", {}), **{s.target.id: col})
                    nxt = []
                    for cur in states:
                        nxt += self.block(s.body, dict(cur))
                    states = [x for i, x in enumerate(nxt) if x not in nxt[:i]]
                    self.kenv = {k: v for k, v in self.kenv.items() if k != s.target.id}
                return states
            head = s.iter if isinstance(s, ast.For) else s.test
            st = self.calls_in(head, st)
            self.site("loop", s, "head-on-entry", st, line=s.lineno)
            inv = st if self.aligned(st) else self.fresh_aligned(("loop", s.lineno))
            inv = self.fresh_aligned(("loop", s.lineno)) if self.touches(s) else inv
            self.loop_stack = getattr(self, "loop_stack", []) + [s]
            body_start = dict(inv)
            if isinstance(s, ast.While):
                body_start = self.calls_in(s.test, body_start)
            outs = self.block(s.body, body_start)
            self.loop_stack = self.loop_stack[:-1]
            for o in outs:
                self.site("loop", s, "back-edge", o, line=s.lineno)
            after = self.fresh_aligned(("after-loop", s.lineno)) if self.touches(s) else dict(inv)
            res = self.block(s.orelse, dict(after)) if s.orelse else [after]
            return res
        if isinstance(s, (ast.Break, ast.Continue)):
            self.site("loop", s, "break" if isinstance(s, ast.Break) else "continue", st)
            return []
        if isinstance(s, ast.With):
            for it in s.items:
                st = self.calls_in(it.context_expr, st)
            return self.block(s.body, st)
        if isinstance(s, ast.Try):
            outs = self.block(s.body, dict(st))
            if s.orelse:
                outs = [o2 for o in outs for o2 in self.block(s.orelse, dict(o))]
            # every raise point inside the body was required aligned: handlers start from an aligned log of unknown length
            for h in s.handlers:
                outs += self.block(h.body, self.fresh_aligned(("handler", h.lineno)) if self.touches_list(s.body) else dict(st))
            if s.finalbody:
                fin = []
                for o in outs + [self.fresh_aligned(("finally-on-raise", s.lineno)) if self.touches_list(s.body) else dict(st)]:
                    fin += self.block(s.finalbody, dict(o))
                outs = fin
            return outs
        if isinstance(s, (ast.FunctionDef, ast.ClassDef, ast.AsyncFunctionDef)):
            if any(_is_store(x, self.store) for x in ast.walk(s)):
                raise _Stale("store inside a nested definition")
            return [st]
        raise _Stale("statement form " + type(s).__name__)

    def static_test(self, t):
        """value of a test that only compares a store-loop variable with constants, else None"""
        env = getattr(self, "kenv", {})
        try:
            if isinstance(t, ast.Compare) and len(t.ops) == 1 and isinstance(t.left, ast.Name) and t.left.id in env:
                rhs = ast.literal_eval(t.comparators[0])
                v = env[t.left.id]
                op = t.ops[0]
                if isinstance(op, ast.Eq):
                    return v == rhs
                if isinstance(op, ast.NotEq):
                    return v != rhs
                if isinstance(op, ast.In):
                    return v in rhs
                if isinstance(op, ast.NotIn):
                    return v not in rhs
            if isinstance(t, ast.UnaryOp) and isinstance(t.op, ast.Not):
                r = self.static_test(t.operand)
                return None if r is None else not r
        except (ValueError, TypeError):
            pass
        return None

    def touches(self, node):
        for x in ast.walk(node):
            if _is_store(x, self.store):
                return True
            if isinstance(x, ast.Call) and isinstance(x.func, ast.Attribute) and isinstance(x.func.value, ast.Name) \
                    and x.func.value.id == "self" and x.func.attr in self.lt:
                return True
        return False

    def touches_list(self, stmts):
        return any(self.touches(s) for s in stmts)

    # ---- nobody else touches the store ----------------------------------------------------------------------------------
    def scan_package(self, c, classctx):
        from . import extract
        root = os.path.join(extract.REPO, c.extra["scan_package"])
        bad = []
        for dp, _, files in os.walk(root):
            for f in files:
                if not f.endswith(".py"):
                    continue
                path = os.path.join(dp, f)
                try:
                    tree = ast.parse(open(path).read())
                except SyntaxError:
                    continue
                inside = set()
                for n in ast.walk(tree):
                    if isinstance(n, ast.ClassDef) and n.name == classctx.name and os.path.samefile(path, os.path.join(extract.REPO, c.module)):
                        inside = {id(x) for x in ast.walk(n)}
                for n in ast.walk(tree):
                    if isinstance(n, ast.Attribute) and n.attr == self.store and id(n) not in inside:
                        bad.append(f"{os.path.relpath(path, extract.REPO)}:{n.lineno}")
                    if isinstance(n, ast.Attribute) and n.attr == self.store and id(n) in inside and not _is_store(n, self.store):
                        bad.append(f"{os.path.relpath(path, extract.REPO)}:{n.lineno} (not through self)")
        ob = Obligation(f"{c.module}:{c.qualname}#store-only-touched-by-methods-of-{classctx.name}", "frame", [], z3.BoolVal(not bad),
                        c.qualname, classctx.lineno)
        ob.why = ", ".join(bad[:5])
        return [ob]
