"""Engine specialisation for LinearKnob (C01: "each target of a linear-knob task holds what that task prescribes").

On top of the tasks engine:
  a - b, a + b, a * b on opaque values -> uninterpreted py_sub / py_add / py_mul (the arithmetic itself is C04's; what the contract pins
                                          down is WHICH values are combined and WHERE the result is stored)
  zip(xs, ys) of two sequences        -> pairs by position (the contract requires equal lengths)
  {x}                                  -> the singleton set
  enumerate(zip(xs, ys))              -> (position, (x, y)) by position;   [x] * n -> the list of n copies of x
"""
import ast
import z3

from .engine import *          # noqa
from .engine import Engine, Ctx
from .values import *          # noqa
from .tasks_engine import TasksEngine

py_sub = z3.Function("py_sub", V, V, V)
py_add = z3.Function("py_add", V, V, V)
py_mul = z3.Function("py_mul", V, V, V)
_OPS = {ast.Sub: py_sub, ast.Add: py_add, ast.Mult: py_mul}


class PyZip2(PyEnum):
    pass


class KnobEngine(TasksEngine):
    def binop(self, op, a, b, cx, inplace=False, node=None):
        if isinstance(op, ast.Mult) and isinstance(a, PySeq) and isinstance(b, PyInt) and z3.is_int_value(z3.simplify(a.n)) and z3.simplify(a.n).as_long() == 1 and not inplace:
            # [x] * n : the list of n copies of x
            arr = z3.K(IntS, a.at(0))
            n = z3.If(b.t < 0, 0, b.t)
            return PySeq(n, arr, a.elty, [n >= 0])
        if isinstance(a, PyObj) and isinstance(b, PyObj) and type(op) in _OPS and not inplace:
            return PyObj(_OPS[type(op)](a.t, b.t))
        return super().binop(op, a, b, cx, inplace=inplace, node=node)

    def builtin_zip(self, e, cx):
        if len(e.args) != 2 or e.keywords:
            raise Unsupported("zip form")
        parts = [self.iterate(self.eval(a, cx), cx) for a in e.args]
        self.emit("zip-equal-lengths", "pre@call", cx.st, parts[0].n == parts[1].n, getattr(e, "lineno", 0))
        en = PyZip2(parts[0].n, lambda j: j, TInt, axioms=parts[0].axioms + parts[1].axioms)
        en.parts = parts
        return en

    def builtin_enumerate(self, e, cx):
        if len(e.args) != 1 or e.keywords:
            raise Unsupported("enumerate form")
        inner = self.iterate(self.eval(e.args[0], cx), cx)
        en = PyZip2(inner.n, lambda j: j, TInt, axioms=inner.axioms)
        en.parts = None
        en.inner = inner
        return en

    def loop_elem(self, it, k, s):
        if isinstance(it, PyZip2) and it.parts is None:
            return PyTuple([PyInt(k), self.loop_elem(it.inner, k, s)])
        if isinstance(it, PyZip2):
            return PyTuple([p.elem(k) for p in it.parts])
        return super().loop_elem(it, k, s)

    def unpack(self, v, n, cx):
        if isinstance(v, PyTuple):
            return Engine.unpack(self, v, n, cx)
        return super().unpack(v, n, cx)

    def eval_Set(self, e, cx):
        s = PySet.empty()
        for x in e.elts:
            _, s = s.m_add(cx, self.eval(x, cx))
        return s
