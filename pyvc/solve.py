r"""pyvc.solve -- discharge obligations.  z3 (Python API, in worker processes via
SMT-LIB text) first; cvc5 CLI on `unknown`.  A verdict is one of
  unsat   (discharged)
  sat     (refuted: the solver produced a model of hyps /\ not goal)
  unknown (undecided: timeout / incomplete quantifier reasoning)
"""
import os
import subprocess
import tempfile
import time
from concurrent.futures import ProcessPoolExecutor
import z3


def to_smt2(ob):
    s = z3.Solver()
    s.add(ob.formula())
    return s.to_smt2()


def _cvc5(text, timeout_ms, strings=False):
    """-> (verdict, model text or None); anything but a clean sat / unsat answer is `unknown`"""
    path = None
    try:
        with tempfile.NamedTemporaryFile("w", suffix=".smt2", delete=False) as fh:
            fh.write("(set-logic ALL)\n" + text + ("\n(get-model)\n" if strings else ""))
            path = fh.name
        cmd = ["/usr/bin/cvc5", f"--tlimit={timeout_ms}"] + (["--strings-exp", "--produce-models"] if strings else []) + [path]
        p = subprocess.run(cmd, capture_output=True, text=True, timeout=timeout_ms / 1000 + 5)
        out = p.stdout.strip().splitlines()
        if out and out[0] in ("unsat", "sat"):
            return out[0], ("\n".join(out[1:])[:4000] if out[0] == "sat" and len(out) > 1 else None)
    except Exception:
        pass
    finally:
        try:
            if path:
                os.unlink(path)
        except Exception:
            pass
    return "unknown", None


def _solve_text(args):
    name, text, timeout_ms, use_cvc5 = args
    t0 = time.time()
    verdict, backend, model = "unknown", "z3", None
    if use_cvc5 and "String" in text:
        # obligations over SMT-LIB strings: cvc5 --strings-exp decides them in seconds, z3's sequence solver does not terminate
        # on them within the budget (measured) -- cvc5 first, z3 only for what cvc5 leaves open
        v, m = _cvc5(text, timeout_ms, strings=True)
        if v in ("unsat", "sat"):
            return name, v, "cvc5", round(time.time() - t0, 3), m
    try:
        s = z3.Solver()
        s.set("timeout", timeout_ms)
        s.from_string(text)
        r = s.check()
        verdict = str(r)
        if verdict == "sat":
            try:
                model = s.model().sexpr()[:4000]
            except Exception:
                model = None
    except Exception as ex:  # parser/solver crash: undecided, never a violation
        verdict, model = "unknown", f"z3 error: {ex}"
    if verdict == "unknown" and use_cvc5 and "String" not in text:
        v, m = _cvc5(text, timeout_ms)
        if v in ("unsat", "sat"):
            verdict, backend = v, "cvc5"
    return name, verdict, backend, round(time.time() - t0, 3), model


def discharge(obls, timeout_ms=10000, jobs=None, use_cvc5=True, dump_dir=None):
    """-> {name: dict(verdict, backend, time, model)}"""
    jobs = jobs or min(16, os.cpu_count() or 4)
    work = []
    for ob in obls:
        text = to_smt2(ob)
        if dump_dir:
            os.makedirs(dump_dir, exist_ok=True)
            fn = ob.name.replace("/", "_").replace(":", "_").replace("#", "__")[:180] + ".smt2"
            with open(os.path.join(dump_dir, fn), "w") as fh:
                fh.write(text)
        # vacuity probes are expected to be unprovable: keep their budget small
        work.append((ob.name, text, 1500 if ob.expect_fail else timeout_ms, use_cvc5 and not ob.expect_fail))
    res = {}
    if not work:
        return res
    if jobs == 1 or len(work) == 1:
        it = map(_solve_text, work)
        for name, verdict, backend, t, model in it:
            res[name] = dict(verdict=verdict, backend=backend, time=t, model=model)
        return res
    with ProcessPoolExecutor(max_workers=jobs) as ex:
        for name, verdict, backend, t, model in ex.map(_solve_text, work, chunksize=1):
            res[name] = dict(verdict=verdict, backend=backend, time=t, model=model)
    return res
