"""Engine specialisation for Table._get_regexp_indices (regular-expression row selectors, C08).

  re.compile(text, flags=...)   : an opaque pattern object
  pattern.fullmatch(name)       : truth value  matches(pattern, name)  -- an uninterpreted predicate (Python's `re` is trusted;
                                  what the contract pins down is WHICH rows are tested and HOW the hits are combined)
  []  with a declared element type (contract.extra['local_types']), list.append, set(), set.add, iteration over a set
  x is not None  on an optional integer; appending it under that guard appends its value
  sorted(list of int)           : ascending rearrangement (ghost permutation maps both ways)
  np.array(list, dtype=int) + k : the list shifted by k, element-wise
"""
import ast
import z3

from .engine import *          # noqa
from .engine import Engine, Ctx, Outcome, BoundMethod, none_term
from .values import *          # noqa
from .table_engine import TableEngine, PyData

matches = z3.Function("regex_fullmatch", V, V, BoolS)


class PyIdxList(PySeq):
    """a sequence of row positions that carries an inverse position map (row -> place in the sequence)"""

    def __init__(self, n, arr, inv, axioms=()):
        super().__init__(n, arr, TInt, axioms)
        self.inv = inv

    def pos(self, i):
        return z3.Select(self.inv, i)


class RegexpEngine(TableEngine):
    def assign(self, tgt, v, cx, rebind=False):
        if isinstance(tgt, ast.Name) and isinstance(v, PySeq) and z3.is_int_value(v.n) and v.n.as_long() == 0:
            ty = self.c.extra.get("local_types", {}).get(tgt.id)
            if ty is not None:
                v = PySeq.empty(ty.elty)
        return super().assign(tgt, v, cx, rebind=rebind)

    def call_method(self, recv, name, e, cx, recv_node):
        if isinstance(recv_node, ast.Name) and recv_node.id == "re" and name == "compile" and "re" not in cx.st.env:
            for a in e.args:
                self.eval(a, cx)
            for kw in e.keywords:
                self.eval(kw.value, cx)
            return PyObj(FreshConst(V, "pattern"), "re.Pattern")
        if isinstance(recv, PyObj) and name == "fullmatch" and len(e.args) == 1:
            x = self.eval(e.args[0], cx)
            if not isinstance(x, PyObj):
                raise Unsupported("fullmatch argument")
            return PyBool(matches(recv.t, x.t))
        if isinstance(recv, PySeq) and name == "append" and len(e.args) == 1:
            x = self.eval(e.args[0], cx)
            if isinstance(x, PyOpt):
                # reached under `x is not None` only: otherwise the list would hold a None (TypeError later in sorted / np.array)
                cx.raise_if(x.is_none, "TypeError")
                x = x.value
            res, new = recv.m_append(cx, x)
            from .engine import _as_store
            self.assign(_as_store(recv_node), new, cx)
            return res
        if isinstance(recv_node, ast.Name) and recv_node.id == "np" and name == "array" and "np" not in cx.st.env:
            v = self.eval(e.args[0], cx)
            for kw in e.keywords:
                pass
            if isinstance(v, PySeq):
                return v
            raise Unsupported("np.array of " + type(v).__name__)
        return super().call_method(recv, name, e, cx, recv_node)

    def eval_Name(self, e, cx):
        if e.id in ("re", "int") and e.id not in cx.st.env:
            return PyObj(z3.Const("py_global_" + e.id, V))
        return super().eval_Name(e, cx)

    def builtin_sorted(self, e, cx):
        v = self.eval(e.args[0], cx)
        if not (isinstance(v, PySeq) and isinstance(v.elty, type(TInt))) or e.keywords or len(e.args) != 1:
            raise Unsupported("sorted form")
        n = v.n
        s = FreshConst(z3.ArraySort(IntS, IntS), "sorted")
        fw = FreshConst(z3.ArraySort(IntS, IntS), "perm")        # place in the sorted list -> place in the argument
        bw = FreshConst(z3.ArraySort(IntS, IntS), "perm_inv")    # place in the argument   -> place in the sorted list
        j, k = z3.Ints("j!so k!so")
        cx.assume(z3.ForAll([j, k], z3.Implies(z3.And(0 <= j, j < k, k < n), z3.Select(s, j) <= z3.Select(s, k)),
                            patterns=[z3.MultiPattern(z3.Select(s, j), z3.Select(s, k))]))
        cx.assume(z3.ForAll([j], z3.Implies(z3.And(0 <= j, j < n), z3.And(0 <= z3.Select(fw, j), z3.Select(fw, j) < n,
                                                                       z3.Select(s, j) == z3.Select(v.arr, z3.Select(fw, j)),
                                                                       z3.Select(bw, z3.Select(fw, j)) == j)), patterns=[z3.Select(s, j)]))
        cx.assume(z3.ForAll([j], z3.Implies(z3.And(0 <= j, j < n), z3.And(0 <= z3.Select(bw, j), z3.Select(bw, j) < n,
                                                                       z3.Select(s, z3.Select(bw, j)) == z3.Select(v.arr, j),
                                                                       z3.Select(fw, z3.Select(bw, j)) == j)), patterns=[z3.Select(v.arr, j)]))
        r = PySeq(n, s, TInt, [n >= 0])
        r.sorted_of = (v, fw, bw)
        return r

    def binop(self, op, a, b, cx, inplace=False, node=None):
        if isinstance(op, ast.Add) and isinstance(a, PySeq) and isinstance(b, PyInt) and isinstance(a.elty, type(TInt)):
            arr = FreshConst(z3.ArraySort(IntS, IntS), "shifted")
            j = z3.Int("j!sh")
            cx.assume(z3.ForAll([j], z3.Select(arr, j) == z3.Select(a.arr, j) + b.t, patterns=[z3.Select(arr, j)]))
            r = PySeq(a.n, arr, TInt, [a.n >= 0])
            r.shift_of = (a, b)
            return r
        return super().binop(op, a, b, cx, inplace=inplace, node=node)
