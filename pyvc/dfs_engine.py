"""Engine specialisation for the iterative depth-first search of xdeps/sorting.py (C02).

The explicit DFS stack `path` is a list of (node, iterator-over-the-node's-neighbours) pairs.  Model:
  PyPath(n, node[], ptr[])   ptr[j] = how many neighbours of node[j] its iterator has already yielded
  path[-1]                   -> (node[n-1], reference to the iterator stored at position n-1)
  for x in <that iterator>   -> resumes at ptr[n-1]; every yielded element advances ptr[n-1] (also the one on which the
                                loop body breaks): the iterator object is SHARED between the local variable and the list
  path.append((v, iter(graph.get(v, []))))  -> push with ptr 0;   path.pop() -> drop the last pair
  iter(graph.get(v, []))     -> a fresh iterator over adj(v) at position 0
"""
import ast
import z3

from .engine import *          # noqa
from .engine import Engine, Ctx, Outcome, BoundMethod
from .values import *          # noqa

A_IV = z3.ArraySort(IntS, V)
A_II = z3.ArraySort(IntS, IntS)


class TPathCls(Ty):
    single = False

    def fresh(self, hint="path"):
        n = FreshConst(IntS, hint + "_n")
        return PyPath(n, FreshConst(A_IV, hint + "_node"), FreshConst(A_II, hint + "_ptr"), None)


class PyPath(Val):
    ty = TPathCls()

    def __init__(self, n, node, ptr, graph):
        self.n, self.node, self.ptr, self.graph = n, node, ptr, graph
        self.axioms = [n >= 0]

    def same(self, other):
        return z3.BoolVal(False)

    def ident(self, other):
        return isinstance(other, PyPath) and self.n.eq(other.n) and self.node.eq(other.node) and self.ptr.eq(other.ptr)

    def at_node(self, j):
        return z3.Select(self.node, j)

    def at_ptr(self, j):
        return z3.Select(self.ptr, j)

    def py_getitem(self, cx, i):
        if not (isinstance(i, PyInt) and z3.is_int_value(i.t) and i.t.as_long() == -1):
            raise Unsupported("path index")
        cx.raise_if(self.n <= 0, "IndexError")
        top = self.n - 1
        return PyTuple([PyObj(self.at_node(top)), PyIterRef(top)])

    def m_append(self, cx, item):
        if not (isinstance(item, PyTuple) and len(item.items) == 2 and isinstance(item.items[0], PyObj) and isinstance(item.items[1], PyIterFresh)):
            raise Unsupported("path.append form")
        v, it = item.items
        # the iterator pushed must iterate over the neighbours of the node pushed with it
        cx.eng.emit("pushed-iterator-is-over-the-pushed-node's-neighbours", "pre@call", cx.st, it.vertex == v.t, 0)
        return PyNone(), PyPath(self.n + 1, z3.Store(self.node, self.n, v.t), z3.Store(self.ptr, self.n, z3.IntVal(0)), self.graph)

    def m_pop(self, cx):
        cx.raise_if(self.n <= 0, "IndexError")
        return PyNone(), PyPath(self.n - 1, self.node, self.ptr, self.graph)


class PyIterRef(Val):
    """the iterator object stored in path[idx] (aliased by a local variable)"""
    ty = None

    def __init__(self, idx):
        self.idx = idx


class PyIterFresh(Val):
    ty = None

    def __init__(self, vertex):
        self.vertex = vertex


class DfsEngine(Engine):
    def builtin_iter(self, e, cx):
        a = e.args[0]
        # iter(graph.get(v, []))
        if isinstance(a, ast.Call) and isinstance(a.func, ast.Attribute) and a.func.attr == "get" and len(a.args) == 2:
            g = self.eval(a.func.value, cx)
            v = self.eval(a.args[0], cx)
            if isinstance(g, PyGraph) and isinstance(v, PyObj) and isinstance(a.args[1], ast.List) and not a.args[1].elts:
                return PyIterFresh(v.t)
        raise Unsupported("iter(...) form")

    def eval_List(self, e, cx):
        if len(e.elts) == 1 and isinstance(e.elts[0], ast.Tuple):
            item = self.eval(e.elts[0], cx)
            if isinstance(item, PyTuple) and len(item.items) == 2 and isinstance(item.items[1], PyIterFresh):
                g = next((v for v in cx.st.env.values() if isinstance(v, PyGraph)), None)
                empty = PyPath(z3.IntVal(0), FreshConst(A_IV, "path0_node"), FreshConst(A_II, "path0_ptr"), g)
                return empty.m_append(cx, item)[1]
        return super().eval_List(e, cx)

    def eval_UnaryOp(self, e, cx):
        if isinstance(e.op, ast.USub) and isinstance(e.operand, ast.Constant) and isinstance(e.operand.value, int):
            return PyInt(-e.operand.value)
        return super().eval_UnaryOp(e, cx)

    def truth(self, v, cx):
        if isinstance(v, PyPath):
            return v.n > 0
        return super().truth(v, cx)

    def iterate(self, v, cx):
        if isinstance(v, PyIterRef):
            path = cx.st.env.get("path")
            g = next((x for x in cx.st.env.values() if isinstance(x, PyGraph)), None)
            if not isinstance(path, PyPath) or g is None:
                raise Unsupported("iterator reference without its path / graph")
            top = v.idx
            vert = path.at_node(top)
            p0 = path.at_ptr(top)
            en = PyEnum(g.n(vert) - p0, lambda j: g.at(vert, p0 + j), TV, axioms=[])
            en.iterref = (top, p0)
            return en
        return super().iterate(v, cx)

    def exec_for(self, s, st, cx):
        # an iterator stored in the path is advanced by every element the loop takes: before the body of iteration k runs,
        # ptr[top] == p0 + k + 1
        self._pending_iterref = None
        return super().exec_for(s, st, cx)

    def loop_elem(self, it, k, s):
        ref = getattr(it, "iterref", None)
        if ref is not None:
            self._advance = (ref, k)
        return super().loop_elem(it, k, s)

    def assign(self, tgt, v, cx, rebind=False):
        r = super().assign(tgt, v, cx, rebind=rebind)
        adv = getattr(self, "_advance", None)
        if adv is not None:
            # (called right after the loop variable was bound for iteration k)
            self._advance = None
            (top, p0), k = adv
            path = cx.st.env.get("path")
            cx.st.env["path"] = PyPath(path.n, path.node, z3.Store(path.ptr, top, p0 + k + 1), path.graph)
        return r


TPath = TPathCls()
