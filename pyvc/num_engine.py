"""Engine specialisation for the optimizer (xdeps/optimize/*.py): real arithmetic over knob vectors (C09, C10, C15, C16).

numpy-lite model (only what the verified functions / blocks use; everything else is outside the subset):
  PyVec      real vector  (n, Int -> Real array); element read/write, copy, in-place scaling `v *= f` (kept as a scalar
             factor over a base array: no quantifier needed), np.abs of an element, len, range(len(v)), np.zeros / np.array
  PyBVec     boolean vector; np.zeros(n, dtype=bool), element write
  PyLimits   n x 2 real matrix read as limits[i][0] / limits[i][1]
  vary list  `self.vary` = sequence of opaque Vary objects; their attributes are uninterpreted functions of the position:
             max_step / weight / limits (optional reals), active (bool), container[name] stores recorded in the ghost
             write map  (wrote: Int -> Bool, wval: Int -> Real)
Floats are REALS (DESIGN 2.3(1)): every "up to rounding" clause stays an assumption.

Block contracts: contract.extra["block"] = dict(first=<source of the first statement (first line)>, count=<n>) selects a
contiguous statement sequence of the real function; it is verified as a unit whose free variables are the contract's
parameters (mechanical extraction on every run; what is dropped is the rest of the function).
"""
import ast
import z3

from .engine import *          # noqa
from .engine import Engine, Ctx, Outcome, BoundMethod, PyExc, StaleContract, _norm
from .values import *          # noqa

A_IR = z3.ArraySort(IntS, RealS)
A_IB = z3.ArraySort(IntS, BoolS)

v_ms_none = z3.Function("vary_max_step_is_None", IntS, BoolS)
v_ms = z3.Function("vary_max_step", IntS, RealS)
v_w_none = z3.Function("vary_weight_is_None", IntS, BoolS)
v_w = z3.Function("vary_weight", IntS, RealS)
v_act = z3.Function("vary_active", IntS, BoolS)
v_lim_none = z3.Function("vary_limits_is_None", IntS, BoolS)
v_lo_none = z3.Function("vary_lower_is_None", IntS, BoolS)
v_hi_none = z3.Function("vary_upper_is_None", IntS, BoolS)
v_lo = z3.Function("vary_lower", IntS, RealS)
v_hi = z3.Function("vary_upper", IntS, RealS)


def W(i):
    """effective weight of knob i (None means 1)"""
    return z3.If(v_w_none(i), z3.RealVal(1), v_w(i))


class TVecCls(Ty):
    single = False

    def fresh(self, hint="vec"):
        n = FreshConst(IntS, hint + "_n")
        return PyVec(n, FreshConst(A_IR, hint + "_a"), axioms=[n >= 0])


class PyVec(Val):
    """real vector; value at i is lam * arr[i] (lam = 1 unless scaled in place)"""
    ty = TVecCls()

    def __init__(self, n, arr, lam=None, axioms=()):
        self.n, self.arr, self.lam = n, arr, lam
        self.axioms = list(axioms)

    def at(self, i):
        v = z3.Select(self.arr, _t(i))
        return v if self.lam is None else self.lam * v

    def same(self, other):
        i = z3.Int("i!v")
        return z3.And(self.n == other.n, z3.ForAll([i], z3.Implies(z3.And(0 <= i, i < self.n), self.at(i) == other.at(i))))

    def ident(self, other):
        return isinstance(other, PyVec) and self.n.eq(other.n) and self.arr.eq(other.arr) and \
            ((self.lam is None and other.lam is None) or (self.lam is not None and other.lam is not None and self.lam.eq(other.lam)))

    def py_len(self, cx):
        return PyInt(self.n)

    def py_getitem(self, cx, i):
        if isinstance(i, PySliceFrom):
            # Python clamps slice bounds; the contracts keep 0 <= start <= n (obligation)
            cx.eng.emit("slice-start-in-range", "pre@call", cx.st, z3.And(0 <= i.start, i.start <= self.n), 0)
            return self.slice_from(cx, i.start)
        if not isinstance(i, PyInt):
            raise Unsupported("vector index")
        cx.raise_if(z3.Or(i.t < 0, i.t >= self.n), "IndexError")
        return PyReal(self.at(i.t))

    def slice_from(self, cx, start):
        """v[start:] for 0 <= start <= n"""
        n2 = FreshConst(IntS, "sl_n")
        a2 = FreshConst(A_IR, "sl_a")
        k = z3.Int("k!sl")
        cx.assume(n2 == self.n - start)
        cx.assume(z3.ForAll([k], z3.Select(a2, k) == z3.Select(self.arr, k + start), patterns=[z3.Select(a2, k)]))
        cx.assume(z3.ForAll([k], z3.Select(self.arr, k) == z3.Select(a2, k - start), patterns=[z3.Select(self.arr, k)]))
        return PyVec(n2, a2, self.lam, [n2 >= 0])

    def py_setitem(self, cx, i, v):
        if self.lam is not None:
            raise Unsupported("element store into a scaled vector")
        cx.raise_if(z3.Or(i.t < 0, i.t >= self.n), "IndexError")
        return PyVec(self.n, z3.Store(self.arr, i.t, _real(v)), None, self.axioms)

    def m_copy(self, cx):
        return PyVec(self.n, self.arr, self.lam, self.axioms), None

    def py_iter(self, cx):
        en = PyEnum(self.n, lambda j: self.at(j), TReal, axioms=[self.n >= 0])
        en.src = self
        return en

    def fresh_scaled(self, hint):
        """havoc of a vector that may be scaled in place: the scale factor is unknown too"""
        n = FreshConst(IntS, hint + "_n")
        return PyVec(n, FreshConst(A_IR, hint + "_a"), FreshConst(RealS, hint + "_lam"), [n >= 0])

    def scaled(self, f):
        return PyVec(self.n, self.arr, f if self.lam is None else self.lam * f, self.axioms)


class PySliceFrom(Val):
    def __init__(self, start):
        self.start = start
        self.ty = None


def _t(x):
    return x.t if isinstance(x, Val) else x


def _real(v):
    if isinstance(v, PyInt):
        return z3.ToReal(v.t)
    if isinstance(v, PyReal):
        return v.t
    raise Unsupported("real value expected, got " + type(v).__name__)


class TBVecCls(Ty):
    single = False

    def fresh(self, hint="bvec"):
        n = FreshConst(IntS, hint + "_n")
        return PyBVec(n, FreshConst(A_IB, hint + "_a"))


class PyBVec(Val):
    ty = TBVecCls()

    def __init__(self, n, arr):
        self.n, self.arr = n, arr

    def at(self, i):
        return z3.Select(self.arr, _t(i))

    def same(self, other):
        i = z3.Int("i!b")
        return z3.And(self.n == other.n, z3.ForAll([i], z3.Implies(z3.And(0 <= i, i < self.n), self.at(i) == other.at(i))))

    def ident(self, other):
        return isinstance(other, PyBVec) and self.n.eq(other.n) and self.arr.eq(other.arr)

    def py_getitem(self, cx, i):
        cx.raise_if(z3.Or(i.t < 0, i.t >= self.n), "IndexError")
        return PyBool(self.at(i.t))

    def py_setitem(self, cx, i, v):
        cx.raise_if(z3.Or(i.t < 0, i.t >= self.n), "IndexError")
        return PyBVec(self.n, z3.Store(self.arr, i.t, v.t))

    def py_len(self, cx):
        return PyInt(self.n)

    def py_iter(self, cx):
        return PyEnum(self.n, lambda j: self.at(j), TBool, axioms=[])


class TLimitsCls(Ty):
    single = False

    def fresh(self, hint="lim"):
        return PyLimits(FreshConst(IntS, hint + "_n"), FreshConst(A_IR, hint + "_lo"), FreshConst(A_IR, hint + "_hi"))


class PyLimits(Val):
    ty = TLimitsCls()

    def __init__(self, n, lo, hi):
        self.n, self.lo, self.hi = n, lo, hi

    def same(self, other):
        return z3.And(self.n == other.n, self.lo == other.lo, self.hi == other.hi)

    def ident(self, other):
        return isinstance(other, PyLimits) and self.lo.eq(other.lo) and self.hi.eq(other.hi)

    def py_getitem(self, cx, i):
        cx.raise_if(z3.Or(i.t < 0, i.t >= self.n), "IndexError")
        return PyTuple([PyReal(z3.Select(self.lo, i.t)), PyReal(z3.Select(self.hi, i.t))])


class TVaryListCls(Ty):
    single = False

    def fresh(self, hint="vary"):
        n = FreshConst(IntS, hint + "_n")
        return PyVaryList(n)


class PyVaryList(Val):
    """`self.vary`: the i-th element is the opaque Vary object number i"""
    ty = TVaryListCls()

    def __init__(self, n):
        self.n = n
        self.axioms = [n >= 0]

    def same(self, other):
        return self.n == other.n

    def ident(self, other):
        return isinstance(other, PyVaryList) and self.n.eq(other.n)

    def py_len(self, cx):
        return PyInt(self.n)

    def py_getitem(self, cx, i):
        cx.raise_if(z3.Or(i.t < 0, i.t >= self.n), "IndexError")
        return PyVary(i.t)

    def py_iter(self, cx):
        en = PyEnum(self.n, lambda j: j, TInt, axioms=[self.n >= 0])
        en.vary = True
        return en


class PyVary(Val):
    def __init__(self, idx):
        self.idx = idx
        self.ty = None

    def same(self, other):
        return self.idx == other.idx


class PyFieldVec(Val):
    """np.array([vv.<field> for vv in self.vary])"""

    def __init__(self, vl, field):
        self.vl, self.field = vl, field
        self.ty = None

    def py_getitem(self, cx, i):
        cx.raise_if(z3.Or(i.t < 0, i.t >= self.vl.n), "IndexError")
        return vary_field(PyVary(i.t), self.field)

    def py_len(self, cx):
        return PyInt(self.vl.n)


def vary_field(v, name):
    i = v.idx
    if name == "max_step":
        return PyOpt(v_ms_none(i), PyReal(v_ms(i)), TReal)
    if name == "weight":
        return PyOpt(v_w_none(i), PyReal(v_w(i)), TReal)
    if name == "active":
        return PyBool(v_act(i))
    if name == "limits":
        return PyVaryLimits(i)
    if name in ("container", "name"):
        return PyVaryPart(i, name)
    raise Unsupported("Vary attribute " + name)


class PyVaryLimits(Val):
    def __init__(self, i):
        self.i = i
        self.ty = None

    def py_getitem(self, cx, k):
        if not (isinstance(k, PyInt) and z3.is_int_value(k.t)):
            raise Unsupported("limits index")
        if k.t.as_long() == 0:
            return PyOpt(v_lo_none(self.i), PyReal(v_lo(self.i)), TReal)
        return PyOpt(v_hi_none(self.i), PyReal(v_hi(self.i)), TReal)


class PyVaryPart(Val):
    def __init__(self, i, part):
        self.i, self.part = i, part
        self.ty = None


class PyZip(PyEnum):
    pass


class TLogCls(Ty):
    single = False

    def fresh(self, hint="log"):
        return PyLog(TVec.fresh(hint + "_penalty"))


class PyLog(Val):
    """Optimize._log: dict of per-column lists; only the 'penalty' column is modelled (real vector), other columns opaque"""
    ty = TLogCls()

    def __init__(self, penalty):
        self.penalty = penalty
        self.axioms = list(penalty.axioms)

    def same(self, other):
        return self.penalty.same(other.penalty)

    def ident(self, other):
        return isinstance(other, PyLog) and self.penalty.ident(other.penalty)

    def py_getitem(self, cx, k):
        if isinstance(k, PyStr) and k.s == "penalty":
            return self.penalty
        if isinstance(k, PyStr):
            return PyObj(FreshConst(V, "logcol_" + k.s), "opaque-list")
        raise Unsupported("log column")


class NumEngine(Engine):
    # ---- vary objects -------------------------------------------------------------------------------------
    def getattr(self, obj, attr, cx, node=None):
        if isinstance(obj, PyVary):
            return vary_field(obj, attr)
        if isinstance(obj, PyVec) and attr == "T":
            raise Unsupported("transpose")
        return super().getattr(obj, attr, cx, node)

    def is_same(self, a, b, cx):
        if isinstance(a, PyVaryLimits) or isinstance(b, PyVaryLimits):
            o, n = (a, b) if isinstance(a, PyVaryLimits) else (b, a)
            if isinstance(n, PyNone):
                return v_lim_none(o.i)
        return super().is_same(a, b, cx)

    def setitem_hook(self, obj, idx, v, cx, node):
        if self.setitem_hook_opaque(obj):
            return          # store into a log column other than 'penalty' (tags ...): outside the contract
        # vv.container[vv.name] = value : one knob store, recorded in the ghost write map
        if isinstance(obj, PyVaryPart) and obj.part == "container" and isinstance(idx, PyVaryPart) and idx.part == "name":
            st = cx.st
            wrote, wval = st.env.get("wrote"), st.env.get("wval")
            if wrote is None or wval is None:
                raise Unsupported("knob store without ghost write map (declare ghost wrote / wval)")
            cx.assume(z3.BoolVal(True))
            # a second store to the same knob is visible as a changed count
            cnt = st.env.get("nwrites")
            st.env["wrote"] = PyBVec(wrote.n, z3.Store(wrote.arr, obj.i, z3.BoolVal(True)))
            st.env["wval"] = PyVec(wval.n, z3.Store(wval.arr, obj.i, _real(v)), None, wval.axioms)
            if cnt is not None:
                st.env["nwrites"] = PyInt(cnt.t + 1)
            return
        return super().setitem_hook(obj, idx, v, cx, node)

    def setitem_hook_opaque(self, obj):
        return isinstance(obj, PyObj) and obj.cls == "opaque-list"

    def setattr_hook(self, obj, attr, v, cx, node):
        if isinstance(obj, PyVary) and attr == "active":
            act = cx.st.env.get("act_new")
            if act is None:
                raise Unsupported("store to vv.active without ghost act_new")
            cx.st.env["act_new"] = PyBVec(act.n, z3.Store(act.arr, obj.idx, v.t))
            return
        return super().setattr_hook(obj, attr, v, cx, node)

    # ---- numpy-lite ---------------------------------------------------------------------------------------------
    def eval_Name(self, e, cx):
        if e.id == "np" and "np" not in cx.st.env:
            return PyObj(z3.Const("py_global_np", V), "numpy")
        return super().eval_Name(e, cx)

    def call_method(self, recv, name, e, cx, recv_node):
        if isinstance(recv, PyObj) and recv.cls == "numpy":
            return self.numpy_call(name, e, cx)
        return super().call_method(recv, name, e, cx, recv_node)

    def numpy_call(self, name, e, cx):
        if name == "abs" and len(e.args) == 1:
            v = self.eval(e.args[0], cx)
            r = _real(v)
            return PyReal(z3.If(r >= 0, r, -r))
        if name == "argmin" and len(e.args) == 1:
            v = self.eval(e.args[0], cx)
            if not isinstance(v, PyVec):
                raise Unsupported("np.argmin of " + type(v).__name__)
            cx.raise_if(v.n <= 0, "ValueError")
            ib = FreshConst(IntS, "argmin")
            k = z3.Int("k!am")
            cx.assume(z3.And(0 <= ib, ib < v.n))
            cx.assume(z3.ForAll([k], z3.Implies(z3.And(0 <= k, k < v.n), z3.And(
                v.at(ib) <= v.at(k), z3.Implies(k < ib, v.at(ib) < v.at(k)))), patterns=[z3.Select(v.arr, k)]))
            return PyInt(ib)
        if name == "argmax" and len(e.args) == 1:
            v = self.eval(e.args[0], cx)
            if not isinstance(v, PyVec):
                raise Unsupported("np.argmax of " + type(v).__name__)
            cx.raise_if(v.n <= 0, "ValueError")
            ib = FreshConst(IntS, "argmax")
            k = z3.Int("k!ax")
            cx.assume(z3.And(0 <= ib, ib < v.n))
            cx.assume(z3.ForAll([k], z3.Implies(z3.And(0 <= k, k < v.n), v.at(ib) >= v.at(k)), patterns=[z3.Select(v.arr, k)]))
            return PyInt(ib)
        if name in ("all", "any") and len(e.args) == 1:
            v = self.eval(e.args[0], cx)
            if isinstance(v, PyBVec):
                k = z3.Int("k!all")
                rng = z3.And(0 <= k, k < v.n)
                return PyBool(z3.ForAll([k], z3.Implies(rng, v.at(k))) if name == "all" else z3.Exists([k], z3.And(rng, v.at(k))))
            raise Unsupported("np.all/any of " + type(v).__name__)
        if name == "array" and len(e.args) == 1:
            a = e.args[0]
            if isinstance(a, ast.ListComp) and len(a.generators) == 1 and isinstance(a.elt, ast.Attribute) \
                    and isinstance(a.elt.value, ast.Name) and isinstance(a.generators[0].target, ast.Name) \
                    and a.elt.value.id == a.generators[0].target.id and not a.generators[0].ifs:
                src = self.eval(a.generators[0].iter, cx)
                if isinstance(src, PyVaryList):
                    return PyFieldVec(src, a.elt.attr)
            v = self.eval(a, cx)
            if isinstance(v, PyVec):
                return PyVec(v.n, v.arr, v.lam, v.axioms)
            raise Unsupported("np.array form")
        if name == "zeros" and e.args:
            n = self.eval(e.args[0], cx)
            dt = next((k.value for k in e.keywords if k.arg == "dtype"), None)
            if isinstance(n, PyInt) and dt is not None and isinstance(dt, ast.Name) and dt.id == "bool":
                return PyBVec(n.t, z3.K(IntS, z3.BoolVal(False)))
            if isinstance(n, PyInt) and dt is None:
                return PyVec(n.t, z3.K(IntS, z3.RealVal(0)), None, [n.t >= 0])
        raise Unsupported(f"np.{name}")

    def builtin_range(self, e, cx):
        if len(e.args) != 1:
            raise Unsupported("range form")
        n = self.eval(e.args[0], cx)
        if not isinstance(n, PyInt):
            raise Unsupported("range of non-int")
        return PyEnum(n.t, lambda j: j, TInt, axioms=[])

    def builtin_enumerate(self, e, cx):
        src = self.iterate(self.eval(e.args[0], cx), cx)
        en = PyZip(src.n, lambda j: j, TInt, axioms=src.axioms)
        en.parts = ["index", src]
        return en

    def builtin_zip(self, e, cx):
        parts = [self.iterate(self.eval(a, cx), cx) for a in e.args]
        n = parts[0].n
        for p in parts[1:]:
            # zip stops at the shortest: the contracts require equal lengths (obligation at the call)
            self.emit(f"zip-equal-lengths", "pre@call", cx.st, p.n == n, getattr(e, "lineno", 0))
        en = PyZip(n, lambda j: j, TInt, axioms=sum((p.axioms for p in parts), []))
        en.parts = parts
        return en

    def loop_elem(self, it, k, s):
        if isinstance(it, PyZip):
            return PyTuple([PyInt(k) if p == "index" else self.loop_elem(p, k, s) for p in it.parts])
        if getattr(it, "vary", False):
            return PyVary(k)
        return super().loop_elem(it, k, s)

    def _exec_stmt(self, s, st, cx):
        # v *= f  on a vector: in-place scaling
        if isinstance(s, ast.AugAssign) and isinstance(s.op, ast.Mult) and isinstance(s.target, ast.Name):
            cur = st.env.get(s.target.id)
            if isinstance(cur, PyVec):
                if s.target.id not in self.c.extra.get("scaled_vectors", ()):
                    # loop havoc must know which vectors can acquire a scale factor
                    raise Unsupported(f"in-place scaling of vector {s.target.id!r} not declared in scaled_vectors")
                f = self.eval(s.value, cx)
                st.env[s.target.id] = cur.scaled(_real(f))
                return [(st, Outcome("normal"))]
        return super()._exec_stmt(s, st, cx)

    def unop_hook(self, op, v, cx, node):
        if isinstance(op, ast.Invert) and isinstance(v, PyBVec):
            new = FreshConst(A_IB, "inv")
            k = z3.Int("k!inv")
            cx.assume(z3.ForAll([k], z3.Select(new, k) == z3.Not(z3.Select(v.arr, k)), patterns=[z3.Select(new, k)]))
            return PyBVec(v.n, new)
        return super().unop_hook(op, v, cx, node)

    def bvec_binop(self, op, a, b, cx):
        new = FreshConst(A_IB, "bop")
        k = z3.Int("k!bop")
        f = z3.Or if isinstance(op, ast.BitOr) else z3.And
        cx.assume(z3.ForAll([k], z3.Select(new, k) == f(z3.Select(a.arr, k), z3.Select(b.arr, k)), patterns=[z3.Select(new, k)]))
        self.emit("elementwise-operands-have-equal-length", "pre@call", cx.st, a.n == b.n, 0)
        return PyBVec(a.n, new)

    def eval_Slice(self, e, cx):
        if e.upper is None and e.step is None and e.lower is not None:
            lo = self.eval(e.lower, cx)
            if isinstance(lo, PyInt):
                return PySliceFrom(lo.t)
        raise Unsupported("slice form")

    def getitem_hook(self, obj, idx, cx, node):
        if isinstance(obj, PyObj) and obj.cls == "opaque-list":
            return PyObj(FreshConst(V, "elem"))
        if isinstance(obj, PyTuple) and isinstance(idx, PyInt) and z3.is_int_value(idx.t):
            return obj.items[idx.t.as_long()]
        return super().getitem_hook(obj, idx, cx, node)

    def fresh_like(self, old, hint):
        if isinstance(old, PyVec) and hint in self.c.extra.get("scaled_vectors", ()):
            return old.fresh_scaled(hint)
        return super().fresh_like(old, hint)

    def binop_hook(self, op, a, b, cx, inplace, node):
        raise Unsupported(f"binary {type(op).__name__} on {type(a).__name__},{type(b).__name__}")

    def binop(self, op, a, b, cx, inplace=False, node=None):
        if isinstance(op, (ast.BitOr, ast.BitAnd)) and isinstance(a, PyBVec) and isinstance(b, PyBVec):
            return self.bvec_binop(op, a, b, cx)
        if isinstance(op, ast.Mult) and isinstance(a, PyVec) and isinstance(b, (PyInt, PyReal)):
            return a.scaled(_real(b))
        if isinstance(op, ast.Mult) and isinstance(b, PyVec) and isinstance(a, (PyInt, PyReal)):
            return b.scaled(_real(a))
        if isinstance(op, ast.Div) and isinstance(a, (PyInt, PyReal)) and isinstance(b, (PyInt, PyReal)) and \
                self.c.extra.get("float_division", True):
            # numpy / float division: x / 0.0 does not raise for numpy scalars; the contracts require non-zero divisors
            self.emit("division-by-nonzero", "pre@call", cx.st, _real(b) != 0, getattr(node, "lineno", 0))
            return PyReal(_real(a) / _real(b))
        return super().binop(op, a, b, cx, inplace, node)


TVec, TBVec, TLimits, TVaryList = TVecCls(), TBVecCls(), TLimitsCls(), TVaryListCls()
TLog = TLogCls()


# ---- block extraction ------------------------------------------------------------------------------------------------
def extract_block(fdef, spec, params):
    """-> synthetic FunctionDef whose body is `count` statements of `fdef` starting at the statement whose first source
    line equals `first` (whitespace-insensitive).  Raises StaleContract when not found or ambiguous."""
    if "inside" in spec:
        # the block is a prefix of the BODY of a compound statement (anchored like a block of its own): from the body's first statement
        # up to the `until` / `last` anchor -- statements at the start of the body may change freely
        outer = extract_block(fdef, dict(spec["inside"], count=1), params).body[0]
        stmts = list(getattr(outer, "body", []))
        inner = {k: v for k, v in spec.items() if k in ("until", "last")}
        if not stmts or not inner:
            raise StaleContract("block `inside` needs a compound statement and an end anchor")
        key = "until" if "until" in inner else "last"
        want_end = _norm(inner[key])
        ends = [m for m in range(len(stmts)) if _norm(ast.unparse(stmts[m]).splitlines()[0]) == want_end]
        if not ends:
            raise StaleContract(f"block end anchor {inner[key]!r} not found inside {spec['inside']['first']!r} in {fdef.name}")
        body = stmts[:ends[0]] if key == "until" else stmts[:ends[0] + 1]
        if not body:
            raise StaleContract("empty block")
        args = ast.arguments(posonlyargs=[], args=[ast.arg(arg=p) for p in params], kwonlyargs=[], kw_defaults=[], defaults=[])
        return ast.FunctionDef(name=fdef.name + "#block", args=args, body=body, decorator_list=[], lineno=body[0].lineno,
                               col_offset=0, end_lineno=body[-1].end_lineno)
    want = _norm(spec["first"])
    hits = []
    for node in ast.walk(fdef):
        for fld in ("body", "orelse", "finalbody"):
            stmts = getattr(node, fld, None)
            if isinstance(stmts, list):
                for k, st in enumerate(stmts):
                    if isinstance(st, ast.stmt) and _norm(ast.unparse(st).splitlines()[0]) == want:
                        hits.append((stmts, k))
    # several statements may start with the same line (e.g. the same test twice): `nth` picks one of `of` matches, in source order
    if "nth" in spec:
        if len(hits) != spec["of"]:
            raise StaleContract(f"block anchor {spec['first']!r}: {len(hits)} matches in {fdef.name}, contract expects {spec['of']}")
        hits = [sorted(hits, key=lambda h: h[0][h[1]].lineno)[spec["nth"]]]
    if len(hits) != 1:
        raise StaleContract(f"block anchor {spec['first']!r}: {len(hits)} matches in {fdef.name}")
    stmts, k = hits[0]
    if "until" in spec:
        # the block ends just BEFORE the first later statement whose first source line is `until` (that statement is not part of it)
        want_until = _norm(spec["until"])
        ends = [m for m in range(k + 1, len(stmts)) if _norm(ast.unparse(stmts[m]).splitlines()[0]) == want_until]
        if not ends:
            raise StaleContract(f"block end anchor {spec['until']!r} not found after {spec['first']!r} in {fdef.name}")
        body = stmts[k:ends[0]]
    elif "last" in spec:
        # the block ends with the first later statement (same statement list) whose first source line is `last`: statements added or
        # removed INSIDE the block (temporaries) keep it one block
        want_last = _norm(spec["last"])
        ends = [m for m in range(k, len(stmts)) if _norm(ast.unparse(stmts[m]).splitlines()[0]) == want_last]
        if not ends:
            raise StaleContract(f"block end anchor {spec['last']!r} not found after {spec['first']!r} in {fdef.name}")
        body = stmts[k:ends[0] + 1]
    else:
        body = stmts[k:k + spec["count"]]
        if len(body) != spec["count"]:
            raise StaleContract("block shorter than declared")
    args = ast.arguments(posonlyargs=[], args=[ast.arg(arg=p) for p in params], kwonlyargs=[], kw_defaults=[], defaults=[])
    fn = ast.FunctionDef(name=fdef.name + "#block", args=args, body=body, decorator_list=[], lineno=body[0].lineno,
                         col_offset=0, end_lineno=body[-1].end_lineno)
    return fn
