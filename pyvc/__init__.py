"""pyvc: verification-condition generator for the Python subset used by xdeps (see DESIGN.md 2)."""
