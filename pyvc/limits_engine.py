"""Engine specialisation for MeritFunctionForMatch._get_x_limits (C10 / C16: the x-space limits are the knob limits divided by the weight).

On top of the numeric engine:
  knob_limits = [] ; knob_limits.append(<pair>)   : a growing list of (lower, upper) pairs (PyLimits); the pair is LIMITS_DEFAULT (the module
                                                    constant, read from the real source) or vv.limits of the loop's Vary
  vv.limits is None                               : the predicate vary_limits_is_None(i); a Vary whose limits are not None has two numbers
                                                    (assumption: a one-sided limit is written with an explicit +-inf / large number, not None)
  np.array(list of pairs)                         : the same pairs as an (n x 2) array
  a[:, 0] / a[:, 1]                               : the vector of lower / upper ends
  np.atleast_1d(np.squeeze(v))                    : v  (for a 1-d vector of any length, 1 included: squeeze makes it 0-d, atleast_1d undoes it)
  [[h, l] for h, l in zip(u, v)]                  : the list of pairs (u[i], v[i])
"""
import ast
import z3

from .engine import *          # noqa
from .engine import Engine, Ctx
from .values import *          # noqa
from .num_engine import NumEngine, PyVec, PyLimits, PyVaryLimits, v_lo, v_hi, A_IR
from . import extract

v_lim_none = z3.Function("vary_limits_is_None", IntS, BoolS)


class LimitsEngine(NumEngine):
    def default_pair(self):
        return self.default_pair_of(self.c.module)

    @staticmethod
    def default_pair_of(module):
        mod = extract.module(module)
        for node in mod.tree.body:
            if isinstance(node, ast.Assign) and any(isinstance(t, ast.Name) and t.id == "LIMITS_DEFAULT" for t in node.targets):
                v = ast.literal_eval(node.value)
                if isinstance(v, tuple) and len(v) == 2:
                    return [PyReal(z3.RealVal(repr(float(x)))) for x in v]
        raise StaleContract("LIMITS_DEFAULT is no longer a literal pair at module level")

    def eval_Name(self, e, cx):
        if e.id == "LIMITS_DEFAULT" and e.id not in cx.st.env:
            return PyTuple(self.default_pair())
        return super().eval_Name(e, cx)

    def is_same(self, a, b, cx):
        if isinstance(b, PyVaryLimits):
            a, b = b, a
        if isinstance(a, PyVaryLimits) and isinstance(b, PyNone):
            return v_lim_none(a.i)
        return super().is_same(a, b, cx)

    def assign(self, tgt, v, cx, rebind=False):
        if isinstance(tgt, ast.Name) and tgt.id in self.c.extra.get("pair_lists", ()) and isinstance(v, PySeq) \
                and z3.is_int_value(z3.simplify(v.n)) and z3.simplify(v.n).as_long() == 0:
            v = PyLimits(z3.IntVal(0), FreshConst(A_IR, "pairs_lo"), FreshConst(A_IR, "pairs_hi"))
        return super().assign(tgt, v, cx, rebind=rebind)

    def _pair(self, x, cx):
        if isinstance(x, PyTuple) and len(x.items) == 2 and all(isinstance(i, PyReal) for i in x.items):
            return x.items[0].t, x.items[1].t
        if isinstance(x, PyVaryLimits):
            return v_lo(x.i), v_hi(x.i)
        raise Unsupported("pair of " + type(x).__name__)

    def call_method(self, recv, name, e, cx, recv_node):
        if isinstance(recv, PyLimits) and name == "append" and len(e.args) == 1:
            lo, hi = self._pair(self.eval(e.args[0], cx), cx)
            new = PyLimits(recv.n + 1, z3.Store(recv.lo, recv.n, lo), z3.Store(recv.hi, recv.n, hi))
            from .engine import _as_store
            self.assign(_as_store(recv_node), new, cx)
            return PyNone()
        return super().call_method(recv, name, e, cx, recv_node)

    def numpy_call(self, name, e, cx):
        if name == "array" and len(e.args) == 1 and not e.keywords:
            a = e.args[0]
            if isinstance(a, ast.ListComp) and len(a.generators) == 1 and isinstance(a.elt, ast.List) and len(a.elt.elts) == 2:
                g = a.generators[0]
                if isinstance(g.iter, ast.Call) and isinstance(g.iter.func, ast.Name) and g.iter.func.id == "zip" and len(g.iter.args) == 2 \
                        and isinstance(g.target, ast.Tuple) and len(g.target.elts) == 2 and all(isinstance(t, ast.Name) for t in g.target.elts) \
                        and all(isinstance(t, ast.Name) and t.id in [q.id for q in g.target.elts] for t in a.elt.elts) and not g.ifs:
                    u, v = self.eval(g.iter.args[0], cx), self.eval(g.iter.args[1], cx)
                    if isinstance(u, PyVec) and isinstance(v, PyVec) and u.lam is None and v.lam is None:
                        self.emit("zip-equal-lengths", "pre@call", cx.st, u.n == v.n, getattr(e, "lineno", 0))
                        by = {g.target.elts[0].id: u.arr, g.target.elts[1].id: v.arr}
                        return PyLimits(u.n, by[a.elt.elts[0].id], by[a.elt.elts[1].id])
                raise Unsupported("np.array of this comprehension")
            v = self.eval(a, cx)
            if isinstance(v, PyLimits):
                return v
        if name in ("squeeze", "atleast_1d") and len(e.args) == 1 and not e.keywords:
            v = self.eval(e.args[0], cx)
            if isinstance(v, PyVec):
                return v
            raise Unsupported(f"np.{name} of " + type(v).__name__)
        return super().numpy_call(name, e, cx)

    def eval_Subscript(self, e, cx):
        if isinstance(e.slice, ast.Tuple) and len(e.slice.elts) == 2 and isinstance(e.slice.elts[0], ast.Slice) \
                and e.slice.elts[0].lower is None and e.slice.elts[0].upper is None and e.slice.elts[0].step is None \
                and isinstance(e.slice.elts[1], ast.Constant) and e.slice.elts[1].value in (0, 1):
            obj = self.eval(e.value, cx)
            if isinstance(obj, PyLimits):
                return PyVec(obj.n, obj.lo if e.slice.elts[1].value == 0 else obj.hi, axioms=[obj.n >= 0])
        return super().eval_Subscript(e, cx)
