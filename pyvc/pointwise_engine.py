"""Pointwise engine: numpy code that is element-wise over one array axis is verified for ONE generic coordinate.

Arrays over the axis of interest are real scalars (the value at the generic index i); what is not element-wise is kept as an
uninterpreted term over opaque array values:
  np.zeros_like(a)                       -> 0
  a[mask] = rhs   (mask an element-wise comparison; rhs element-wise, possibly indexed by the same mask)  -> If(mask_i, rhs_i, a_i)
  a[0]                                   -> the separate symbol "first element of a" (declared in the contract)
  M[:, :c], M[:c, :], v[:c]              -> uninterpreted cols_upto / rows_upto / upto (the SAME c must be used: checked on terms)
  A @ B, A.T, np.diag(v)                 -> uninterpreted matmul / transpose / diag over opaque terms; a vector that was computed
                                            pointwise enters as vec_of(<its pointwise term>, <its source array>)
Sound for the element-wise part because every numpy operation used there acts coordinate by coordinate; broadcasting of a
scalar against the axis is the identity on the scalar.
"""
import ast
import z3

from .engine import *          # noqa
from .engine import Engine, Ctx, Outcome, BoundMethod
from .values import *          # noqa
from .num_engine import NumEngine, _real

matmul = z3.Function("np_matmul", V, V, V)
transpose = z3.Function("np_transpose", V, V)
diag = z3.Function("np_diag", V, V)
cols_upto = z3.Function("np_cols_upto", V, IntS, V)
rows_upto = z3.Function("np_rows_upto", V, IntS, V)
upto = z3.Function("np_upto", V, IntS, V)
vec_of = z3.Function("vector_with_generic_element", RealS, V, V)     # pointwise value, carrier array -> the vector
empty_array = z3.Const("np_empty_array", V)


class PyPW(Val):
    """array along the axis of interest: value at the generic index + the opaque carrier (which array it is)"""

    def __init__(self, t, carrier, first=None):
        self.t, self.carrier, self.first = t, carrier, first
        self.ty = None

    def same(self, other):
        return z3.And(self.t == other.t, self.carrier == other.carrier)


class PyPWMask(Val):
    def __init__(self, t):
        self.t = t
        self.ty = None


class TPWCls(Ty):
    single = False

    def fresh(self, hint="pw"):
        return PyPW(FreshConst(RealS, hint + "_i"), FreshConst(V, hint + "_arr"), FreshConst(RealS, hint + "_0"))


TPW = TPWCls()


class PointwiseEngine(NumEngine):
    def numpy_call(self, name, e, cx):
        if name == "zeros_like":
            a = self.eval(e.args[0], cx)
            if isinstance(a, PyPW):
                return PyPW(z3.RealVal(0), a.carrier, z3.RealVal(0))
        if name == "diag":
            a = self.eval(e.args[0], cx)
            return PyObj(diag(self.as_array(a)))
        if name == "array" and len(e.args) == 1 and isinstance(e.args[0], ast.List) and not e.args[0].elts:
            return PyObj(empty_array)
        return super().numpy_call(name, e, cx)

    def int_term(self, v, cx, what):
        if isinstance(v, PyOpt):
            self.emit(f"not-None:{what}", "pre@call", cx.st, z3.Implies(z3.And(*cx.guards) if cx.guards else z3.BoolVal(True),
                                                                         z3.Not(v.is_none)), 0)
            v = v.value
        if not isinstance(v, PyInt):
            raise Unsupported("slice bound " + type(v).__name__)
        return v.t

    def as_array(self, v):
        if isinstance(v, PyPW):
            return vec_of(v.t, v.carrier)
        if isinstance(v, PyObj):
            return v.t
        raise Unsupported("array term of " + type(v).__name__)

    def compare(self, op, a, b, cx, node):
        if isinstance(a, PyOpt) and isinstance(b, PyPW):
            cx.raise_if(a.is_none, "TypeError")
            a = a.value
        if isinstance(b, PyOpt) and isinstance(a, PyPW):
            cx.raise_if(b.is_none, "TypeError")
            b = b.value
        if isinstance(a, PyPW) or isinstance(b, PyPW):
            x = a.t if isinstance(a, PyPW) else _real(a)
            y = b.t if isinstance(b, PyPW) else _real(b)
            return {ast.Lt: x < y, ast.LtE: x <= y, ast.Gt: x > y, ast.GtE: x >= y}[type(op)]
        return super().compare(op, a, b, cx, node)

    def eval_Compare(self, e, cx):
        if len(e.ops) == 1 and isinstance(e.ops[0], (ast.Lt, ast.LtE, ast.Gt, ast.GtE)):
            a, b = self.eval(e.left, cx), self.eval(e.comparators[0], cx)
            if isinstance(a, PyPW) or isinstance(b, PyPW):
                return PyPWMask(self.compare(e.ops[0], a, b, cx, e))
        return super().eval_Compare(e, cx)

    def binop(self, op, a, b, cx, inplace=False, node=None):
        if isinstance(op, ast.MatMult):
            return PyObj(matmul(self.as_array(a), self.as_array(b)))
        if isinstance(a, PyPW) or isinstance(b, PyPW):
            x = a.t if isinstance(a, PyPW) else _real(a)
            y = b.t if isinstance(b, PyPW) else _real(b)
            car = a.carrier if isinstance(a, PyPW) else b.carrier
            if isinstance(op, ast.Mult):
                return PyPW(x * y, car)
            if isinstance(op, ast.Add):
                return PyPW(x + y, car)
            if isinstance(op, ast.Sub):
                return PyPW(x - y, car)
            if isinstance(op, ast.Div):
                g = z3.And(*cx.guards) if cx.guards else z3.BoolVal(True)
                self.emit("division-by-nonzero", "pre@call", cx.st, z3.Implies(g, y != 0), getattr(node, "lineno", 0))
                return PyPW(x / y, car)
        return super().binop(op, a, b, cx, inplace, node)

    def getattr(self, obj, attr, cx, node=None):
        if attr == "T" and isinstance(obj, (PyObj, PyPW)):
            return PyObj(transpose(self.as_array(obj)))
        return super().getattr(obj, attr, cx, node)

    def eval_Subscript(self, e, cx):
        obj = self.eval(e.value, cx)
        sl = e.slice
        # a[mask]  (read under the mask: the generic element, meaningful where the mask holds)
        if isinstance(obj, PyPW):
            if isinstance(sl, ast.Constant) and sl.value == 0:
                if obj.first is None:
                    raise Unsupported("first element of a derived array")
                return PyReal(obj.first)
            idx = self.eval(sl, cx) if not isinstance(sl, (ast.Slice, ast.Tuple)) else None
            if isinstance(idx, PyPWMask):
                return PyPW(obj.t, obj.carrier)
            if isinstance(sl, ast.Slice) and sl.lower is None and sl.step is None and sl.upper is not None:
                c = self.int_term(self.eval(sl.upper, cx), cx, "slice bound")
                return PyPW(obj.t, upto(obj.carrier, c), obj.first)
            raise Unsupported("index form on a pointwise array")
        if isinstance(obj, PyObj) and isinstance(sl, ast.Tuple) and len(sl.elts) == 2:
            a, b = sl.elts

            def full(x):
                return isinstance(x, ast.Slice) and x.lower is None and x.upper is None and x.step is None

            def upto_(x):
                return isinstance(x, ast.Slice) and x.lower is None and x.upper is not None and x.step is None
            if full(a) and upto_(b):
                return PyObj(cols_upto(obj.t, self.int_term(self.eval(b.upper, cx), cx, "slice bound")))
            if upto_(a) and full(b):
                return PyObj(rows_upto(obj.t, self.int_term(self.eval(a.upper, cx), cx, "slice bound")))
        return super().eval_Subscript(e, cx)

    def assign(self, tgt, v, cx, rebind=False):
        # a[mask] = rhs
        if isinstance(tgt, ast.Subscript):
            obj = self.eval(tgt.value, cx)
            if isinstance(obj, PyPW):
                idx = self.eval(tgt.slice, cx)
                if isinstance(idx, PyPWMask):
                    rhs = v.t if isinstance(v, PyPW) else _real(v)
                    new = PyPW(z3.If(idx.t, rhs, obj.t), obj.carrier, None)
                    return super().assign(tgt.value, new, cx)
                raise Unsupported("store form on a pointwise array")
        return super().assign(tgt, v, cx, rebind=rebind)

    def _exec_stmt(self, s, st, cx):
        # a[mask] = rhs : the right-hand side is evaluated on the masked elements only
        if isinstance(s, ast.Assign) and len(s.targets) == 1 and isinstance(s.targets[0], ast.Subscript):
            obj = self.eval(s.targets[0].value, cx)
            if isinstance(obj, PyPW):
                idx = self.eval(s.targets[0].slice, cx)
                if isinstance(idx, PyPWMask):
                    with cx.guarded([idx.t]):
                        v = self.eval(s.value, cx)
                    self.assign(s.targets[0], v, cx)
                    return [(st, Outcome("normal"))]
        return super()._exec_stmt(s, st, cx)

    def binop_hook(self, op, a, b, cx, inplace, node):
        raise Unsupported(f"binary {type(op).__name__} on {type(a).__name__},{type(b).__name__}")
