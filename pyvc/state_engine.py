"""Engine specialisation for optimize._set_state (enable / disable by id, tag or name; C10).

What is modelled (everything else of the base engine is unchanged):
  lst                    : an opaque finite sequence of DISTINCT objects; their `active` flags are the ghost sequence `act`
                           (act[i] = lst[i].active), the only state the function may change
  for vv in lst          : vv = the element at the loop position (a FlagItem carrying its position)
  lst[entry]             : Python indexing with an integer entry: negative indices count from the end, IndexError outside [-n, n)
  X.active = b           : store into act at X's position
  getattr(vv, attr)      : key_of(attr, position) -- the tag / name of the element (uninterpreted)
  re.fullmatch(p, s)     : truth value  matches(p, s)  (uninterpreted; Python's `re` is trusted)
  entries                : an opaque value classified by the identity tests `is None` / `is True` / `is False` and the uninterpreted
                           predicates isinstance(., int) / isinstance(., str) (bool is a subclass of int: True and False satisfy the first);
                           [entries] is the one-element sequence; iterating any other value reads seq_len / seq_item of it
"""
import ast
import z3

from .engine import *          # noqa
from .engine import Engine, Ctx, Outcome, BoundMethod, none_term
from .values import *          # noqa

PY_TRUE, PY_FALSE = z3.Const("py_True", V), z3.Const("py_False", V)
is_int = z3.Function("py_isinstance_int", V, BoolS)
is_str = z3.Function("py_isinstance_str", V, BoolS)
int_of = z3.Function("py_int_value", V, IntS)
seq_len = z3.Function("py_seq_len", V, IntS)
seq_item = z3.Function("py_seq_item", V, IntS, V)
key_of = z3.Function("py_getattr_of_element", V, IntS, V)        # (attribute name, position in lst) -> the element's tag / name
matches = z3.Function("regex_fullmatch", V, V, BoolS)
truthy = z3.Function("py_bool_of", V, BoolS)


def value_axioms():
    x = z3.Const("x!sv", V)
    return [z3.ForAll([x], z3.Not(z3.And(is_int(x), is_str(x))), patterns=[is_int(x)]),       # no value is both an int and a str
            PY_TRUE != PY_FALSE, PY_TRUE != none_term(), PY_FALSE != none_term(), is_int(PY_TRUE), is_int(PY_FALSE),
            z3.Not(is_str(PY_TRUE)), z3.Not(is_str(PY_FALSE)), z3.Not(is_int(none_term())), z3.Not(is_str(none_term())),
            int_of(PY_TRUE) == 1, int_of(PY_FALSE) == 0]


class FlagItem(Val):
    """the element of `lst` at position `pos`"""
    ty = None

    def __init__(self, pos):
        self.pos = pos

    def fresh_like(self, hint):
        return FlagItem(FreshConst(IntS, hint + "_pos"))

    def ident(self, other):
        return isinstance(other, FlagItem) and self.pos.eq(other.pos)


class StateEngine(Engine):
    LST = "lst"

    def _is_lst(self, v, cx):
        cur = cx.st.env.get(self.LST)
        return isinstance(v, PyObj) and isinstance(cur, PyObj) and v.t.eq(cur.t)

    def havoc(self, st, names, pre_env):
        # `lst[entry].active = state` stores into an ELEMENT's attribute (the ghost `act`): the name `lst` keeps denoting the same sequence
        return super().havoc(st, [n for n in names if n != self.LST], pre_env)

    # --- identity tests against the singletons
    def is_same(self, a, b, cx):
        if isinstance(b, PyObj) and isinstance(a, PyBool):
            a, b = b, a
        if isinstance(a, PyObj) and isinstance(b, PyBool) and z3.is_true(b.t):
            return a.t == PY_TRUE
        if isinstance(a, PyObj) and isinstance(b, PyBool) and z3.is_false(b.t):
            return a.t == PY_FALSE
        return super().is_same(a, b, cx)

    def compare(self, op, a, b, cx, node):
        if isinstance(op, (ast.In, ast.NotIn)) and isinstance(b, PyTuple):
            r = z3.Or(*[self.py_eq(a, it, cx) for it in b.items])
            return r if isinstance(op, ast.In) else z3.Not(r)
        return super().compare(op, a, b, cx, node)

    def py_eq(self, a, b, cx):
        if isinstance(b, PyObj) and isinstance(a, PyBool):
            a, b = b, a
        if isinstance(a, PyObj) and isinstance(b, PyBool) and (z3.is_true(b.t) or z3.is_false(b.t)):
            # x == True  holds for True and for every integer equal to 1 (bool is a subclass of int); likewise False / 0
            one = 1 if z3.is_true(b.t) else 0
            return z3.Or(a.t == (PY_TRUE if one else PY_FALSE), z3.And(is_int(a.t), int_of(a.t) == one))
        return super().py_eq(a, b, cx)

    def truth_hook(self, v, cx):
        if isinstance(v, PyObj):
            # bool(x): True / False themselves, a non-zero integer; anything else an uninterpreted predicate of the value
            return z3.If(v.t == PY_TRUE, True, z3.If(v.t == PY_FALSE, False, z3.If(is_int(v.t), int_of(v.t) != 0, truthy(v.t))))
        return super().truth_hook(v, cx)

    def isinstance_hook(self, v, clsnode, cx):
        if isinstance(v, PyObj) and isinstance(clsnode, ast.Name) and clsnode.id in ("int", "str"):
            return PyBool((is_int if clsnode.id == "int" else is_str)(v.t))
        return super().isinstance_hook(v, clsnode, cx)

    # --- sequences
    def iterate(self, v, cx):
        if isinstance(v, PyObj):
            n = seq_len(v.t)
            if self._is_lst(v, cx):
                en = PyEnum(n, lambda j: j, TInt, axioms=[n >= 0])
                en.flag_items = True
                return en
            return PyEnum(n, lambda j, t=v.t: seq_item(t, j), TV, axioms=[n >= 0])
        return super().iterate(v, cx)

    def loop_elem(self, it, k, s):
        if getattr(it, "flag_items", False):
            return FlagItem(k)
        return super().loop_elem(it, k, s)

    def getitem_hook(self, obj, idx, cx, node):
        if self._is_lst(obj, cx) and isinstance(idx, PyObj):
            n = seq_len(obj.t)
            i = int_of(idx.t)
            cx.raise_if(z3.Or(i < -n, i >= n), "IndexError")
            return FlagItem(z3.If(i < 0, i + n, i))
        return super().getitem_hook(obj, idx, cx, node)

    def setattr_hook(self, obj, attr, v, cx, node):
        if isinstance(obj, FlagItem) and attr == "active" and isinstance(v, PyBool):
            act = cx.st.env["act"]
            # (named by a constant: the stored term may contain connectives, which cannot occur in quantifier patterns)
            new = FreshConst(act.arr.sort(), "act")
            cx.assume(new == z3.Store(act.arr, obj.pos, v.t))
            cx.st.env["act"] = PySeq(act.n, new, TBool, act.axioms)
            return
        return super().setattr_hook(obj, attr, v, cx, node)

    def builtin_getattr(self, e, cx):
        if len(e.args) == 2 and not e.keywords:
            o, a = self.eval(e.args[0], cx), self.eval(e.args[1], cx)
            if isinstance(o, FlagItem) and isinstance(a, PyObj):
                return PyObj(key_of(a.t, o.pos))
        raise Unsupported("getattr form")

    def call_method(self, recv, name, e, cx, recv_node):
        if isinstance(recv_node, ast.Name) and recv_node.id == "re" and name == "fullmatch" and "re" not in cx.st.env \
                and len(e.args) == 2 and not e.keywords:
            p, s = self.eval(e.args[0], cx), self.eval(e.args[1], cx)
            if isinstance(p, PyObj) and isinstance(s, PyObj):
                return PyBool(matches(p.t, s.t))
            raise Unsupported("re.fullmatch arguments")
        return super().call_method(recv, name, e, cx, recv_node)

    def eval_Name(self, e, cx):
        if e.id == "re" and e.id not in cx.st.env:
            return PyObj(z3.Const("py_global_re", V))
        return super().eval_Name(e, cx)
