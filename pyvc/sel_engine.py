"""Engine specialisation for Table._get_row_indices (row selectors, C08): one selector form per variant contract.

  row: opaque value with type predicates is_slice / is_str / is_none-tests and the fields start / stop / step
  self._data[c]      : column view (PySeq of opaque values, read-only)
  col >= v, col <= v : element-wise comparison -> mask over positions, via the uninterpreted order le(a, b) on column values
  m1 & m2            : element-wise conjunction
  np.where(m)[0]     : the ascending sequence of the positions where m holds (axioms: in range, mask holds, strictly ascending,
                       every position where the mask holds occurs -- through an inverse position function)
  slice(None)        : the selector 'all rows'
Constructs of OTHER selector forms are outside this model; the variant's precondition makes their paths unreachable
(obligations of kind `unreachable`, contract.extra["prune_unsupported"]).
"""
import ast
import z3

from .engine import *          # noqa
from .engine import Engine, Ctx, Outcome, BoundMethod, none_term
from .values import *          # noqa
from .table_engine import TableEngine, PyData

is_slice = z3.Function("py_is_slice", V, BoolS)
is_str = z3.Function("py_is_str", V, BoolS)
sl_start = z3.Function("slice_start", V, V)
sl_stop = z3.Function("slice_stop", V, V)
sl_step = z3.Function("slice_step", V, V)
le = z3.Function("value_le", V, V, BoolS)          # a <= b on column values / bounds (numpy's element-wise order)


class PyMask(Val):
    def __init__(self, n, fn):
        self.n, self.fn = n, fn      # fn: Int term -> Bool term
        self.ty = None


class PySliceAll(Val):
    ty = None


class PySliceRange(Val):
    """slice(lo, hi): each bound None (opaque None term), an int, or an opaque value"""
    ty = None

    def __init__(self, lo, hi):
        self.lo, self.hi = lo, hi


py_truth = z3.Function("py_truth", V, BoolS)


class PyIdxSeq(PySeq):
    pass


class SelEngine(TableEngine):
    def isinstance_hook(self, v, clsnode, cx):
        if isinstance(clsnode, ast.Name) and isinstance(v, PyObj):
            if clsnode.id == "slice":
                return PyBool(is_slice(v.t))
            if clsnode.id == "str":
                return PyBool(is_str(v.t))
        raise Unsupported("isinstance form")

    def getattr(self, obj, attr, cx, node=None):
        if isinstance(obj, PyObj) and attr in ("start", "stop", "step"):
            return PyObj({"start": sl_start, "stop": sl_stop, "step": sl_step}[attr](obj.t))
        return super().getattr(obj, attr, cx, node)

    def compare_hook(self, op, a, b, cx, node):
        if isinstance(a, PySeq) and isinstance(b, PyObj):
            col, v = a, b.t
            if isinstance(op, ast.GtE):
                return PyMask(col.n, lambda i_: le(v, col.at(i_)))
            if isinstance(op, ast.LtE):
                return PyMask(col.n, lambda i_: le(col.at(i_), v))
        raise Unsupported("comparison form")

    def eval_Compare(self, e, cx):
        if len(e.ops) == 1 and isinstance(e.ops[0], (ast.GtE, ast.LtE)):
            a, b = self.eval(e.left, cx), self.eval(e.comparators[0], cx)
            if isinstance(a, PySeq) and isinstance(b, PyObj):
                return self.compare_hook(e.ops[0], a, b, cx, e)
        return super().eval_Compare(e, cx)

    def binop(self, op, a, b, cx, inplace=False, node=None):
        if isinstance(op, ast.BitAnd) and isinstance(a, PyMask) and isinstance(b, PyMask):
            return PyMask(a.n, lambda i_: z3.And(a.fn(i_), b.fn(i_)))
        return super().binop(op, a, b, cx, inplace, node)

    def builtin_slice(self, e, cx):
        if len(e.args) == 1 and isinstance(e.args[0], ast.Constant) and e.args[0].value is None:
            return PySliceAll()
        if len(e.args) == 2:
            return PySliceRange(self.eval(e.args[0], cx), self.eval(e.args[1], cx))
        raise Unsupported("slice(...) form")

    def truth_hook(self, v, cx):
        if isinstance(v, PyObj):
            return py_truth(v.t)          # truthiness of an opaque value: unconstrained (0, '', None are false, ...)
        return super().truth_hook(v, cx)

    def call_method(self, recv, name, e, cx, recv_node):
        if isinstance(recv_node, ast.Name) and recv_node.id == "np" and name == "where" and len(e.args) == 1:
            m = self.eval(e.args[0], cx)
            if not isinstance(m, PyMask):
                raise Unsupported("np.where of " + type(m).__name__)
            n = FreshConst(IntS, "where_n")
            arr = FreshConst(z3.ArraySort(IntS, IntS), "where_a")
            pos = FreshFun("where_pos", IntS, IntS)
            k, l, i_ = z3.Ints("k!w l!w i!w")
            cx.assume(z3.And(n >= 0, n <= m.n))
            cx.assume(z3.ForAll([k], z3.Implies(z3.And(0 <= k, k < n), z3.And(
                0 <= z3.Select(arr, k), z3.Select(arr, k) < m.n, m.fn(z3.Select(arr, k)), pos(z3.Select(arr, k)) == k)),
                patterns=[z3.Select(arr, k)]))
            cx.assume(z3.ForAll([k, l], z3.Implies(z3.And(0 <= k, k < l, l < n), z3.Select(arr, k) < z3.Select(arr, l)),
                                patterns=[z3.MultiPattern(z3.Select(arr, k), z3.Select(arr, l))]))
            cx.assume(z3.ForAll([i_], z3.Implies(z3.And(0 <= i_, i_ < m.n, m.fn(i_)),
                                                 z3.And(0 <= pos(i_), pos(i_) < n, z3.Select(arr, pos(i_)) == i_)), patterns=[pos(i_)]))
            seq = PyIdxSeq(n, arr, TInt, [n >= 0])
            seq.pos = pos
            return PyTuple([seq])
        return super().call_method(recv, name, e, cx, recv_node)

    def getitem_hook(self, obj, idx, cx, node):
        if isinstance(obj, PyTuple) and isinstance(idx, PyInt) and z3.is_int_value(idx.t):
            return obj.items[idx.t.as_long()]
        return super().getitem_hook(obj, idx, cx, node)

    def is_same(self, a, b, cx):
        if isinstance(a, PyObj) and isinstance(b, PyNone) or isinstance(a, PyNone) and isinstance(b, PyObj):
            o = a if isinstance(a, PyObj) else b
            return o.t == none_term()
        return super().is_same(a, b, cx)
