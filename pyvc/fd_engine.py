"""Engine specialisation for the finite-difference Jacobian loop of MeritFunctionForMatch.get_jacobian (C16).

On top of the numerical engine (real vectors):
  self(x) / self(x, check_limits=False)  : the merit function as an uninterpreted map  merit : (Int -> Real) -> (Int -> Real)  of the
                                           evaluation point (its length is the number of targets); deterministic (assumption)
  u - v, u / r on vectors                : element-wise (fresh vector with a point-wise definition)
  np.zeros((m, n)), jac[:, j] = v        : a matrix kept as a map  column -> (Int -> Real);  jac[:, j] = v stores the column
  np.isscalar(vector) is False; `f0 is None` on a vector is False
"""
import ast
import z3

from .engine import *          # noqa
from .engine import Engine, Ctx, Outcome, BoundMethod
from .values import *          # noqa
from .num_engine import NumEngine, PyVec, PyBVec, A_IR, _real

A_COLS = z3.ArraySort(IntS, A_IR)
merit = z3.Function("merit_function", A_IR, A_IR)
nf_of = z3.Function("merit_function_length", IntS)


class TMatCls(Ty):
    single = False

    def fresh(self, hint="mat"):
        return PyMat(FreshConst(IntS, hint + "_m"), FreshConst(IntS, hint + "_n"), FreshConst(A_COLS, hint + "_cols"))


class PyMat(Val):
    """m x n real matrix as a map column -> column array"""
    ty = TMatCls()

    def __init__(self, m, n, cols):
        self.m, self.n, self.cols = m, n, cols
        self.axioms = []

    def col(self, j):
        return z3.Select(self.cols, j)

    def same(self, other):
        return z3.And(self.m == other.m, self.n == other.n, self.cols == other.cols)

    def ident(self, other):
        return isinstance(other, PyMat) and self.cols.eq(other.cols)


TMat = TMatCls()


class FDEngine(NumEngine):
    def eval_Call(self, e, cx):
        if isinstance(e.func, ast.Name) and e.func.id == "self" and isinstance(cx.st.env.get("self"), PyRec):
            x = self.eval(e.args[0], cx)
            for kw in e.keywords:
                self.eval(kw.value, cx)
            if not isinstance(x, PyVec) or x.lam is not None:
                raise Unsupported("merit function argument")
            cx.raise_if(FreshConst(BoolS, "merit_raises"), "UserError")
            return PyVec(nf_of(), merit(x.arr), None, [nf_of() >= 0])
        return super().eval_Call(e, cx)

    def is_same(self, a, b, cx):
        if isinstance(a, PyVec) and isinstance(b, PyNone) or isinstance(b, PyVec) and isinstance(a, PyNone):
            return z3.BoolVal(False)
        return super().is_same(a, b, cx)

    def call_method(self, recv, name, e, cx, recv_node):
        if isinstance(recv_node, ast.Name) and recv_node.id == "np" and "np" not in cx.st.env:
            if name == "isscalar" and len(e.args) == 1:
                v = self.eval(e.args[0], cx)
                return PyBool(z3.BoolVal(not isinstance(v, (PyVec, PyMat))))
            if name == "zeros" and len(e.args) == 1 and isinstance(e.args[0], ast.Tuple) and len(e.args[0].elts) == 2:
                m, n = [self.eval(x, cx) for x in e.args[0].elts]
                if isinstance(m, PyInt) and isinstance(n, PyInt):
                    zero = z3.K(IntS, z3.RealVal(0))
                    return PyMat(m.t, n.t, z3.K(IntS, zero))
        return super().call_method(recv, name, e, cx, recv_node)

    def binop(self, op, a, b, cx, inplace=False, node=None):
        if isinstance(a, PyVec) and isinstance(b, PyVec) and isinstance(op, (ast.Sub, ast.Add)) and a.lam is None and b.lam is None:
            arr = FreshConst(A_IR, "vdiff")
            k = z3.Int("k!vd")
            f = (lambda p, q: p - q) if isinstance(op, ast.Sub) else (lambda p, q: p + q)
            cx.assume(z3.ForAll([k], z3.Select(arr, k) == f(z3.Select(a.arr, k), z3.Select(b.arr, k)), patterns=[z3.Select(arr, k)]))
            return PyVec(a.n, arr, None, [a.n >= 0])
        if isinstance(a, PyVec) and isinstance(b, (PyReal, PyInt)) and isinstance(op, ast.Div) and a.lam is None:
            self.emit("division-by-nonzero", "pre@call", cx.st, _real(b) != 0, getattr(node, "lineno", 0))
            arr = FreshConst(A_IR, "vquot")
            k = z3.Int("k!vq")
            cx.assume(z3.ForAll([k], z3.Select(arr, k) == z3.Select(a.arr, k) / _real(b), patterns=[z3.Select(arr, k)]))
            return PyVec(a.n, arr, None, [a.n >= 0])
        return super().binop(op, a, b, cx, inplace=inplace, node=node)

    def assign(self, tgt, v, cx, rebind=False):
        if isinstance(tgt, ast.Subscript) and isinstance(tgt.slice, ast.Tuple) and len(tgt.slice.elts) == 2 \
                and isinstance(tgt.slice.elts[0], ast.Slice) and tgt.slice.elts[0].lower is None and tgt.slice.elts[0].upper is None:
            mat = self.eval(tgt.value, cx)
            j = self.eval(tgt.slice.elts[1], cx)
            if isinstance(mat, PyMat) and isinstance(j, PyInt) and isinstance(v, PyVec) and v.lam is None:
                cx.raise_if(z3.Or(j.t < 0, j.t >= mat.n), "IndexError")
                return Engine.assign(self, tgt.value, PyMat(mat.m, mat.n, z3.Store(mat.cols, j.t, v.arr)), cx)
            raise Unsupported("matrix column store form")
        return super().assign(tgt, v, cx, rebind=rebind)
