"""pyvc.engine -- symbolic executor / verification-condition generator.

Input : the AST of a function extracted from /repo's working tree (pyvc.extract)
        plus its sidecar `Contract`.
Output: a list of `Obligation`s (hypotheses |- goal).  Callee bodies are never
        entered: a call is checked against the callee's `requires`, its
        `modifies` set is havocked and its `ensures` assumed (modular).
Loops are cut at their sidecar invariant (init / preservation / use).
"""
import ast
import copy
from dataclasses import dataclass, field
import z3

from .values import *          # noqa
from . import values as Vs


# ---------------------------------------------------------------------------
@dataclass
class Obligation:
    name: str
    kind: str                 # pre@call, inv-init, inv-pres, post, raises, frame, unlisted-exc, probe, ...
    hyps: list
    goal: object
    func: str = ""
    lineno: int = 0
    expect_fail: bool = False  # vacuity probe: must NOT be provable

    def formula(self):
        return z3.And(*(self.hyps + [z3.Not(self.goal)])) if self.hyps else z3.Not(self.goal)


@dataclass
class LoopSpec:
    anchor: str                              # source text of the iterable / while test
    invariants: list                         # [(label, lambda L: z3 formula)]
    ghost_step: object = None                # optional lambda(L, st) run at the end of each iteration
    modifies: tuple = ()                     # extra havocked names (ghosts)
    setup: object = None                     # lambda(L, st) -> dict: spec functions for this loop (axioms -> st.hyps)
    after: object = None                     # lambda(L) -> [(lemma name, formula)] assumed at loop exit (trusted lemmas)
    on_raise: object = None                  # lambda(L, st): ghost update when an iteration exits by an exception


@dataclass
class Contract:
    module: str                              # path relative to /repo, e.g. "xdeps/sorting.py"
    qualname: str                            # "_dfs" / "Manager.register"
    params: dict                             # name -> Ty  (ordered as in the def; may include self)
    ghost: dict = field(default_factory=dict)
    result: object = None                    # Ty of the result (None: returns None)
    requires: list = field(default_factory=list)   # [(label, lambda pre)]
    ensures: list = field(default_factory=list)    # [(label, lambda pre, post, res)]
    raises: dict = field(default_factory=dict)     # exc -> dict(when=lambda pre, post=[(label, lambda pre, post)], exact=bool)
    modifies: tuple = ()                     # param names (or 'self.field') the function may change
    loops: dict = field(default_factory=dict)      # ordinal -> LoopSpec
    call_ghost: dict = field(default_factory=dict)  # (callee qualname, ordinal) -> lambda st: {ghost: Val}
    axioms: list = field(default_factory=list)     # [lambda pre: formula] background facts about params (type invariants)
    min_obligations: int = 1
    trusted: bool = False                    # contract assumed, body not verified (external code)
    virtual: str = None                      # method name for dynamic dispatch on unknown receivers
    note: str = ""
    defaults: dict = field(default_factory=dict)   # param name -> lambda: Val  for omitted args
    extra: dict = field(default_factory=dict)

    @property
    def key(self):
        return (self.module, self.qualname)


class NS:
    """attribute view of an environment: pre.visited, post.self.rdeps ..."""

    def __init__(self, env):
        object.__setattr__(self, "_env", env)

    def __getattr__(self, name):
        env = object.__getattribute__(self, "_env")
        if name in env:
            return env[name]
        raise AttributeError(f"no symbolic variable {name!r}; have {sorted(env)}")

    def __contains__(self, name):
        return name in object.__getattribute__(self, "_env")


class LoopView:
    def __init__(self, k, enum, cur, pre, old, extra=None, eng=None, ordn=None):
        self.k, self.enum, self.cur, self.pre, self.old = k, enum, NS(cur), NS(pre), NS(old)
        self.n = enum.n if enum is not None else None
        self.eng, self.ordn = eng, ordn
        if eng is not None:
            self.X = eng.loop_x            # ordinal -> dict of spec functions (this loop and enclosing ones)
            self.K = eng.loop_k            # ordinal -> index term of enclosing loops' current iteration
            self.IT = eng.loop_it          # ordinal -> PyEnum of enclosing loops
            self.PRE = {o: NS(e) for o, e in eng.loop_pre.items()}   # ordinal -> env at that loop's entry
            self.x = eng.loop_x.get(ordn, {})

    def at(self, i):
        return self.enum.at(i)

    def idx(self, x):
        return self.enum.idx(Vs._t(x))


# ---------------------------------------------------------------------------
class State:
    def __init__(self, env=None, hyps=None):
        self.env = env if env is not None else {}
        self.hyps = hyps if hyps is not None else []

    def fork(self):
        s = State(dict(self.env), list(self.hyps))
        s.rebound = set(getattr(self, "rebound", ()))
        return s


@dataclass
class Outcome:
    kind: str            # 'normal' | 'return' | 'raise' | 'break' | 'continue'
    value: object = None  # return value / exception term (z3 Exc) + class name
    exc: str = None


class PathAbort(Exception):
    pass


# ---------------------------------------------------------------------------
class Engine:
    def __init__(self, registry, opts=None):
        self.reg = registry            # pyvc.contract.Registry
        self.obls = []
        self.opts = opts or {}
        self.notes = []

    # ---- entry point ------------------------------------------------------
    def verify(self, contract, fdef, classctx=None):
        """generate all obligations for one function"""
        self.c = contract
        self.fdef = fdef
        self.fname = contract.qualname + (("@" + contract.extra["variant"]) if contract.extra.get("variant") else "")
        self.classctx = classctx
        # loop / call ordinals are SYNTACTIC (position in the source), not per explored path
        self.loop_ord = {}
        for nd in ast.walk(fdef):
            if isinstance(nd, (ast.For, ast.While)):
                self.loop_ord[id(nd)] = None
        for k_, nd in enumerate(sorted((n for n in ast.walk(fdef) if isinstance(n, (ast.For, ast.While))),
                                       key=lambda n: (n.lineno, n.col_offset))):
            self.loop_ord[id(nd)] = k_
        self.call_ord = {}
        seen = {}
        for nd in sorted((n for n in ast.walk(fdef) if isinstance(n, ast.Call)), key=lambda n: (n.lineno, n.col_offset)):
            nm = nd.func.attr if isinstance(nd.func, ast.Attribute) else (nd.func.id if isinstance(nd.func, ast.Name) else "?")
            self.call_ord[id(nd)] = seen.get(nm, 0)
            seen[nm] = seen.get(nm, 0) + 1
        self.loop_x, self.loop_k, self.loop_it, self.loop_pre = {}, {}, {}, {}
        self.lemma_uses = []
        self._comp_ord = 0
        self.obls = []
        st = State()
        # parameters
        argnames = [a.arg for a in fdef.args.posonlyargs + fdef.args.args + fdef.args.kwonlyargs]
        if fdef.args.vararg:
            argnames.append(fdef.args.vararg.arg)
        if fdef.args.kwarg:
            argnames.append(fdef.args.kwarg.arg)
        missing = [a for a in argnames if a not in contract.params]
        extra = [p for p in contract.params if p not in argnames]
        if missing and len(argnames) == len(contract.params) and not (fdef.args.vararg or fdef.args.kwarg):
            # parameters renamed (same number, same positions): alpha-rename the body to the contract's names -- a renamed
            # parameter is a harmless refactor, the obligations must still be generated.  Only when the contract's name is not
            # used for anything else in the function.
            ren = {a: p for a, p in zip(argnames, contract.params) if a != p}
            used = {n.id for n in ast.walk(fdef) if isinstance(n, ast.Name)} | set(argnames)
            if all(p not in used for p in ren.values()):
                import copy as _copy
                fdef = _copy.deepcopy(fdef)
                for n in ast.walk(fdef):
                    if isinstance(n, ast.Name) and n.id in ren:
                        n.id = ren[n.id]
                    elif isinstance(n, ast.arg) and n.arg in ren:
                        n.arg = ren[n.arg]
                self.fdef = fdef
                self.loop_ord, self.call_ord = {}, {}
                return self.verify(contract, fdef, classctx)
        if missing or extra:
            raise StaleContract(f"{self.fname}: parameter list changed (code has {argnames}, "
                                f"contract has {list(contract.params)})")
        for name, ty in contract.params.items():
            st.env[name] = ty.fresh(name)
        for name, ty in contract.ghost.items():
            st.env[name] = ty.fresh("ghost_" + name)
        if contract.extra.get("bind_defaults"):
            # scenario "argument omitted": the parameter takes the default written in the real def
            pos = fdef.args.posonlyargs + fdef.args.args
            dmap = dict(zip([a.arg for a in pos][len(pos) - len(fdef.args.defaults):], fdef.args.defaults))
            for name in contract.extra["bind_defaults"]:
                if name not in dmap:
                    raise StaleContract(f"{self.fname}: parameter {name} has no default any more")
                st.env[name] = self.coerce(self.eval(dmap[name], Ctx(self, st, fdef)), contract.params[name],
                                           Ctx(self, st, fdef), name)
        for v in list(st.env.values()):
            st.hyps += getattr(v, "axioms", [])
        pre_env = dict(st.env)
        self.pre_env = pre_env
        for ax in contract.axioms:
            st.hyps.append(ax(NS(pre_env)))
        for label, req in contract.requires:
            st.hyps.append(req(NS(pre_env)))
        # vacuity probe: the precondition (plus axioms) must not be refutable
        self.emit("probe:pre-satisfiable", "probe", st, z3.BoolVal(False), fdef.lineno, expect_fail=True)
        entry = st.fork()
        outs = self.exec_block(fdef.body, st)
        for st2, out in outs:
            self.finish(st2, out, fdef)
        # lemmas over the contract vocabulary (consequences callers use; proved here, from the entry assumptions only)
        for lname, lf in contract.extra.get("lemmas", []):
            self.emit(f"lemma:{lname}", "lemma", entry, lf(), fdef.lineno)
        return self.obls

    def finish(self, st, out, node):
        c = self.c
        for p_ in getattr(st, "rebound", ()):
            if "@caller:" + p_ in st.env:
                st.env["@local:" + p_] = st.env[p_]
                st.env[p_] = st.env["@caller:" + p_]
        pre, post = NS(self.pre_env), NS(st.env)
        if out.kind in ("normal", "return"):
            res = out.value if out.kind == "return" and out.value is not None else PyNone()
            if c.result is not None:
                res = self.coerce(res, c.result, Ctx(self, st, node), "result")
            for label, ens in c.ensures:
                self.emit(f"post:{label}", "post", st, ens(pre, post, res), getattr(node, "lineno", 0))
            for exc, spec in c.raises.items():
                if spec.get("exact") and spec.get("when") is not None:
                    self.emit(f"raises:{exc}:not-when-normal", "raises", st,
                              z3.Not(spec["when"](pre)), getattr(node, "lineno", 0))
            self.frame(st, "normal")
        elif out.kind == "raise":
            exc = out.exc
            st.env["_exc"] = PyExc(exc, out.value)
            post = NS(st.env)
            if exc not in c.raises:
                self.emit(f"unlisted-exception:{exc}", "raises", st, z3.BoolVal(False), getattr(node, "lineno", 0))
                return
            spec = c.raises[exc]
            if spec.get("when") is not None:
                self.emit(f"raises:{exc}:when", "raises", st, spec["when"](pre), 0)
            for label, ens in spec.get("post", []):
                self.emit(f"raises:{exc}:{label}", "raises", st, ens(pre, post), 0)
            if not spec.get("no_frame"):
                self.frame(st, f"raises:{exc}", modifies=spec.get("modifies", c.modifies))
        else:
            raise Unsupported(f"{out.kind} outside loop")

    def frame(self, st, tag, modifies=None):
        mods = self.c.modifies if modifies is None else modifies
        for name in list(self.c.params) + [g for g in self.c.ghost if self.c.extra.get("frame_ghosts", True)]:
            cur, old = st.env[name], self.pre_env[name]
            if isinstance(cur, PyRec):
                for f, v in cur.fields.items():
                    if f"{name}.{f}" in mods or name in mods:
                        continue
                    if f not in old.fields:
                        continue          # a field the body created itself (not declared in the record type): outside the frame
                    if v.ident(old.fields[f]):
                        self.trivial_frames = getattr(self, "trivial_frames", 0) + 1
                        continue
                    self.emit(f"frame:{tag}:{name}.{f}", "frame", st, v.same(old.fields[f]), 0)
                continue
            if name in mods or name in getattr(st, "rebound", ()):
                continue
            dty = self.c.params.get(name, self.c.ghost.get(name))
            if name in self.c.params and _immutable_ty(dty):
                continue         # ints, bools, opaque immutable values: rebinding the local name is invisible to the caller
            if cur.ident(old):
                self.trivial_frames = getattr(self, "trivial_frames", 0) + 1
                continue
            self.emit(f"frame:{tag}:{name}", "frame", st, cur.same(old), 0)

    def emit(self, name, kind, st, goal, lineno=0, expect_fail=False):
        if isinstance(goal, bool):
            goal = z3.BoolVal(goal)
        base = f"{self.c.module}:{self.fname}#{name}"
        n = sum(1 for o in self.obls if o.name == base or o.name.startswith(base + "["))
        full = base if n == 0 else f"{base}[{n}]"
        self.obls.append(Obligation(full, kind, list(st.hyps), goal, self.fname, lineno, expect_fail))

    # ---- statements ---------------------------------------------------------
    def exec_block(self, stmts, st):
        """-> list of (State, Outcome)"""
        live = [st]
        done = []
        for s in stmts:
            nxt = []
            for cur in live:
                for st2, out in self.exec_stmt(s, cur):
                    if out.kind == "normal":
                        nxt.append(st2)
                    else:
                        done.append((st2, out))
            live = nxt
            if not live:
                break
        return [(s_, Outcome("normal")) for s_ in live] + done

    def exec_stmt(self, s, st):
        cx = Ctx(self, st, s)
        try:
            res = self._exec_stmt(s, st, cx)
        except PathAbort:
            res = []
        except Unsupported as ex:
            if not self.c.extra.get("prune_unsupported"):
                raise
            # a construct outside the subset is tolerated only where the contract's precondition makes it unreachable:
            # the path condition must be refutable (obligation of kind `unreachable`; if it is not discharged the whole
            # function counts as outside the subset -- never as a violation)
            self.emit(f"unreachable:{type(s).__name__}@{getattr(s, 'lineno', 0)}:{str(ex)[:60]}", "unreachable", st, z3.BoolVal(False),
                      getattr(s, "lineno", 0))
            res = []
        hook = self.c.extra.get("ghost_after", {}).get(_norm(ast.unparse(s))) if not isinstance(
            s, (ast.For, ast.While, ast.If, ast.Try)) else None
        if hook is None and not isinstance(s, (ast.For, ast.While, ast.If, ast.Try)):
            for k_, h_ in self.c.extra.get("ghost_after", {}).items():
                if _norm(k_) == _norm(ast.unparse(s)):
                    hook = h_
        if hook is not None:
            for st2, out in res:
                if out.kind == "normal":
                    hook(NS(st2.env), st2)
        # exceptional branches registered while evaluating expressions
        return cx.raised + res

    def _exec_stmt(self, s, st, cx):
        if isinstance(s, ast.Expr):
            if isinstance(s.value, ast.Constant):
                return [(st, Outcome("normal"))]      # docstring
            if _is_dropped_call(s.value):
                return [(st, Outcome("normal"))]
            self.eval(s.value, cx)
            return [(st, Outcome("normal"))]
        if isinstance(s, ast.Pass):
            return [(st, Outcome("normal"))]
        if isinstance(s, ast.Assign):
            v = self.eval(s.value, cx)
            for tgt in s.targets:
                self.assign(tgt, v, cx, rebind=True)
            return [(st, Outcome("normal"))]
        if isinstance(s, ast.AugAssign):
            cur = self.eval(_as_load(s.target), cx)
            rhs = self.eval(s.value, cx)
            v = self.binop(s.op, cur, rhs, cx, inplace=True)
            self.assign(s.target, v, cx)
            return [(st, Outcome("normal"))]
        if isinstance(s, ast.Return):
            v = self.eval(s.value, cx) if s.value is not None else None
            return [(st, Outcome("return", v))]
        if isinstance(s, ast.Raise):
            if s.exc is None:
                raise Unsupported("bare raise")
            name, term = self.eval_exc(s.exc, cx)
            return [(st, Outcome("raise", term, name))]
        if isinstance(s, ast.If):
            if _is_dropped_if(s):
                return [(st, Outcome("normal"))]
            c = self.truth(self.eval(s.test, cx), cx)
            if z3.is_true(z3.simplify(c)) or z3.is_false(z3.simplify(c)):
                c = z3.simplify(c)        # `if x is not None` with x bound to None on this path: the dead branch is not explored
            outs = []
            if not z3.is_false(c):
                st_t = st.fork()
                st_t.hyps.append(c)
                outs += self.exec_block(s.body, st_t)
            if not z3.is_true(c):
                st_f = st.fork()
                st_f.hyps.append(z3.Not(c))
                outs += self.exec_block(s.orelse, st_f) if s.orelse else [(st_f, Outcome("normal"))]
            return outs
        if isinstance(s, ast.For):
            return self.exec_for(s, st, cx)
        if isinstance(s, ast.While):
            return self.exec_while(s, st, cx)
        if isinstance(s, ast.Break):
            return [(st, Outcome("break"))]
        if isinstance(s, ast.Continue):
            return [(st, Outcome("continue"))]
        if isinstance(s, ast.Delete):
            for tgt in s.targets:
                self.delete(tgt, cx)
            return [(st, Outcome("normal"))]
        if isinstance(s, ast.Try):
            return self.exec_try(s, st, cx)
        if isinstance(s, ast.Assert):
            c = self.truth(self.eval(s.test, cx), cx)
            cx.raise_if(z3.Not(c), "AssertionError")
            return [(st, Outcome("normal"))]
        raise Unsupported(f"statement {type(s).__name__} (line {s.lineno})")

    # ---- try/except -----------------------------------------------------------
    def exec_try(self, s, st, cx):
        if s.finalbody or s.orelse:
            raise Unsupported("try/finally, try/else")
        outs = self.exec_block(s.body, st)
        res = []
        for st2, out in outs:
            if out.kind != "raise":
                res.append((st2, out))
                continue
            handled = False
            for h in s.handlers:
                names = _handler_names(h)
                if names is None:
                    raise Unsupported("except clause form")
                if out.exc == "UserError" and not ("Exception" in names or "BaseException" in names):
                    # an exception of unknown class (user code): this handler may or may not catch it
                    st3 = st2.fork()
                    if h.name:
                        st3.env[h.name] = PyExc(out.exc, out.value)
                    res += self.exec_block(h.body, st3)
                    continue
                if out.exc in names or "Exception" in names or "BaseException" in names \
                        or any(self.reg.exc_subclass(out.exc, n) for n in names):
                    st3 = st2
                    if h.name:
                        st3.env[h.name] = PyExc(out.exc, out.value)
                    self._cur_exc = (out.exc, out.value)
                    res += self.exec_block(h.body, st3)
                    handled = True
                    break
            if not handled:
                res.append((st2, out))
        return res

    # ---- loops ------------------------------------------------------------------
    def _loopspec(self, node, anchor_src):
        ordn = self.loop_ord[id(node)]
        spec = self.c.loops.get(ordn)
        if spec is None:
            raise StaleContract(f"{self.fname}: loop #{ordn} ({anchor_src!r}, line {node.lineno}) has no invariant")
        if _norm(spec.anchor) != _norm(anchor_src):
            raise StaleContract(f"{self.fname}: loop #{ordn} anchor changed: contract {spec.anchor!r}, code {anchor_src!r}")
        return ordn, spec

    def exec_for(self, s, st, cx):
        ordn, spec = self._loopspec(s, ast.unparse(s.iter))
        it = self.iterate(self.eval(s.iter, cx), cx)
        st.hyps += it.axioms
        pre_env = dict(st.env)
        self.loop_it[ordn], self.loop_pre[ordn] = it, pre_env
        mods = sorted(_assigned_names(s.body, self) | set(spec.modifies))

        def LV(k, env):
            return LoopView(k, it, env, pre_env, self.pre_env, eng=self, ordn=ordn)
        if spec.setup:
            self.loop_x[ordn] = spec.setup(LV(z3.IntVal(0), st.env), st) or {}
        # --- init
        L0 = LV(z3.IntVal(0), st.env)
        for label, inv in spec.invariants:
            self.emit(f"inv-init:L{ordn}:{label}", "inv-init", st, inv(L0), s.lineno)
        # --- arbitrary iteration
        body_st = st.fork()
        self.havoc(body_st, mods, pre_env)
        k = FreshConst(IntS, f"k{ordn}")
        self.loop_k[ordn] = k
        body_st.hyps += [0 <= k, k < it.n]
        Lk = LV(k, body_st.env)
        for label, inv in spec.invariants:
            body_st.hyps.append(inv(Lk))
        self.emit(f"probe:L{ordn}:body-reachable", "probe", body_st, z3.BoolVal(False), s.lineno, expect_fail=True)
        bcx = Ctx(self, body_st, s)
        self.assign(s.target, self.loop_elem(it, k, s), bcx)
        outs = self.exec_block(s.body, body_st)
        exits = []
        for st2, out in outs:
            if out.kind in ("normal", "continue"):
                if spec.ghost_step:
                    spec.ghost_step(LV(k, st2.env), st2)
                Ln = LV(k + 1, st2.env)
                for label, inv in spec.invariants:
                    self.emit(f"inv-pres:L{ordn}:{label}", "inv-pres", st2, inv(Ln), s.lineno)
            elif out.kind == "break":
                exits.append((st2, Outcome("normal")))
            else:
                if out.kind == "raise" and spec.on_raise:
                    spec.on_raise(LV(k, st2.env), st2)
                exits.append((st2, out))
        # --- after the loop (exhausted)
        end_st = st.fork()
        self.havoc(end_st, mods, pre_env)
        Le = LV(it.n, end_st.env)
        for label, inv in spec.invariants:
            end_st.hyps.append(inv(Le))
        if spec.after:
            for lname, f in spec.after(Le):
                end_st.hyps.append(f)
                self.lemma_uses.append(lname)
        if s.orelse:
            exits += self.exec_block(s.orelse, end_st)
        else:
            exits.append((end_st, Outcome("normal")))
        return exits

    def loop_elem(self, it, k, s):
        return it.elem(k)

    def exec_while(self, s, st, cx):
        ordn, spec = self._loopspec(s, ast.unparse(s.test))
        pre_env = dict(st.env)
        mods = sorted(_assigned_names(s.body, self) | set(spec.modifies))
        L0 = LoopView(None, None, st.env, pre_env, self.pre_env)
        for label, inv in spec.invariants:
            self.emit(f"inv-init:L{ordn}:{label}", "inv-init", st, inv(L0), s.lineno)
        body_st = st.fork()
        self.havoc(body_st, mods, pre_env)
        Lk = LoopView(None, None, body_st.env, pre_env, self.pre_env)
        for label, inv in spec.invariants:
            body_st.hyps.append(inv(Lk))
        end_st = body_st.fork()
        bcx = Ctx(self, body_st, s)
        g = self.truth(self.eval(s.test, bcx), bcx)
        body_st.hyps.append(g)
        self.emit(f"probe:L{ordn}:body-reachable", "probe", body_st, z3.BoolVal(False), s.lineno, expect_fail=True)
        outs = bcx.raised + self.exec_block(s.body, body_st)
        exits = []
        for st2, out in outs:
            if out.kind in ("normal", "continue"):
                if spec.ghost_step:
                    spec.ghost_step(LoopView(None, None, st2.env, pre_env, self.pre_env), st2)
                Ln = LoopView(None, None, st2.env, pre_env, self.pre_env)
                for label, inv in spec.invariants:
                    self.emit(f"inv-pres:L{ordn}:{label}", "inv-pres", st2, inv(Ln), s.lineno)
            elif out.kind == "break":
                exits.append((st2, Outcome("normal")))
            else:
                exits.append((st2, out))
        ecx = Ctx(self, end_st, s)
        g2 = self.truth(self.eval(s.test, ecx), ecx)
        end_st.hyps.append(z3.Not(g2))
        if s.orelse:
            raise Unsupported("while/else")
        exits.append((end_st, Outcome("normal")))
        return ecx.raised + exits

    def havoc(self, st, names, pre_env):
        for n in names:
            if n.startswith("self.") and isinstance(st.env.get("self"), PyRec):
                rec, f = st.env["self"], n[5:]
                if f in rec.fields:
                    new = self.fresh_like(rec.fields[f], n)
                    st.env["self"] = rec.with_field(f, new)
                    st.hyps += getattr(new, "axioms", [])
                continue
            if n in st.env:
                old = st.env[n]
                if isinstance(old, (PyNone, PyStr)):
                    raise Unsupported(f"loop-modified variable {n} has no symbolic type at loop entry")
                new = self.fresh_like(old, n)
                st.env[n] = new
                st.hyps += getattr(new, "axioms", [])

    def fresh_like(self, old, hint):
        if hasattr(old, "fresh_like"):
            return old.fresh_like(hint)
        if isinstance(old, PyTuple):
            return PyTuple([self.fresh_like(x, hint) for x in old.items])
        if isinstance(old, PyEnumIter):
            return old.fresh_pos(hint)
        if old.ty is None:
            raise Unsupported(f"cannot havoc {hint}: {type(old).__name__}")
        return old.ty.fresh(hint)

    # ---- assignment -------------------------------------------------------------
    def assign(self, tgt, v, cx, rebind=False):
        """rebind=True: a statement of the verified function binds the name (x = ...);
        rebind=False: the engine writes back the new state of the SAME object after a mutation"""
        st = cx.st
        if isinstance(tgt, ast.Name):
            if rebind and tgt.id in self.c.params and tgt.id not in getattr(st, "rebound", ()) and tgt.id in st.env:
                # a parameter NAME is rebound: the caller's object can no longer be reached through it.
                # What was done to it so far is checked against the frame now.
                cur, old = st.env[tgt.id], self.pre_env.get(tgt.id)
                if old is not None and tgt.id not in self.c.modifies and not isinstance(cur, PyRec) \
                        and not cur.ident(old):
                    self.emit(f"frame:before-rebind:{tgt.id}", "frame", st, cur.same(old), getattr(tgt, "lineno", 0))
                st.rebound = getattr(st, "rebound", set()) | {tgt.id}
                # postconditions speak about the CALLER's object: its state is frozen at the moment the name
                # is rebound (later mutations through the name reach a different object, or -- if the new
                # value happens to alias the old one -- are not credited: conservative)
                st.env["@caller:" + tgt.id] = cur
            st.env[tgt.id] = v
        elif isinstance(tgt, (ast.Tuple, ast.List)):
            items = self.unpack(v, len(tgt.elts), cx)
            for t_, x in zip(tgt.elts, items):
                self.assign(t_, x, cx, rebind=rebind)
        elif isinstance(tgt, ast.Attribute):
            obj = self.eval(tgt.value, cx)
            if isinstance(obj, PyRec):
                if tgt.attr not in obj.fields and not self.opts.get("allow_new_fields", True):
                    raise Unsupported(f"store to undeclared field {tgt.attr}")
                self.assign(tgt.value, obj.with_field(tgt.attr, v), cx)
            else:
                self.setattr_hook(obj, tgt.attr, v, cx, tgt)
        elif isinstance(tgt, ast.Subscript):
            obj = self.eval(tgt.value, cx)
            idx = self.eval_index(tgt.slice, cx)
            if hasattr(obj, "py_setitem"):
                self.assign(tgt.value, obj.py_setitem(cx, idx, v), cx)
            else:
                self.setitem_hook(obj, idx, v, cx, tgt)
        else:
            raise Unsupported(f"assignment target {type(tgt).__name__}")

    def setattr_hook(self, obj, attr, v, cx, node):
        raise Unsupported(f"attribute store on {type(obj).__name__} (line {node.lineno})")

    def setitem_hook(self, obj, idx, v, cx, node):
        raise Unsupported(f"item store on {type(obj).__name__} (line {node.lineno})")

    def delete(self, tgt, cx):
        if isinstance(tgt, ast.Subscript):
            obj = self.eval(tgt.value, cx)
            idx = self.eval_index(tgt.slice, cx)
            if hasattr(obj, "py_delitem"):
                self.assign(tgt.value, obj.py_delitem(cx, idx), cx)
                return
        raise Unsupported("del form")

    def unpack(self, v, n, cx):
        if isinstance(v, PyTuple):
            if len(v.items) != n:
                raise Unsupported("unpack arity")
            return v.items
        raise Unsupported(f"unpack of {type(v).__name__}")

    # ---- expressions ---------------------------------------------------------------
    def eval(self, e, cx):
        m = getattr(self, "eval_" + type(e).__name__, None)
        if m is None:
            raise Unsupported(f"expression {type(e).__name__} (line {getattr(e, 'lineno', '?')})")
        return m(e, cx)

    def eval_index(self, sl, cx):
        return self.eval(sl, cx)

    def eval_Constant(self, e, cx):
        v = e.value
        if v is None:
            return PyNone()
        if isinstance(v, bool):
            return PyBool(v)
        if isinstance(v, int):
            return PyInt(v)
        if isinstance(v, float):
            return PyReal(z3.RealVal(repr(v))) if v == v and abs(v) != float("inf") else PyObj(z3.Const("py_float_special", V))
        if isinstance(v, str):
            return PyStr(v)
        raise Unsupported(f"constant {v!r}")

    def eval_Name(self, e, cx):
        if e.id in cx.st.env:
            return cx.st.env[e.id]
        return self.global_name(e.id, cx, e)

    def global_name(self, name, cx, node):
        raise Unsupported(f"free name {name} (line {node.lineno})")

    def eval_Tuple(self, e, cx):
        return PyTuple([self.eval(x, cx) for x in e.elts])

    def eval_List(self, e, cx):
        if not e.elts:
            return PySeq.empty()
        items = [self.eval(x, cx) for x in e.elts]
        seq = PySeq.empty(items[0].ty)
        for it in items:
            _, seq = seq.m_append(cx, it)
        return seq

    def eval_ListComp(self, e, cx):
        """[elt for tgt in iterable]  (one generator, no filter)  ->  fresh sequence r with
        len r == len iterable and r[k] == elt(iterable[k]); exceptions raised by `elt` for some k
        become exceptional branches, the normal path assumes they occur for no k."""
        if len(e.generators) != 1 or e.generators[0].ifs or e.generators[0].is_async:
            raise Unsupported("comprehension with filter / several generators")
        gen = e.generators[0]
        src = self.eval(gen.iter, cx)
        ordn = getattr(self, "_comp_ord", 0)
        self._comp_ord = ordn + 1
        gname = self.c.extra.get("comp_result_ghost", {}).get(ordn)
        if gname is not None:
            cx.st.env[gname] = src
        it = self.iterate(src, cx)
        for ax in it.axioms:
            cx.assume(ax)
        k = FreshConst(IntS, "kc")
        sub = cx.st.fork()
        n0 = len(sub.hyps)
        sub.hyps += [0 <= k, k < it.n]
        scx = Ctx(self, sub, e)
        scx.guards = list(cx.guards)
        self.assign(gen.target, it.elem(k), scx)
        v = self.eval(e.elt, scx)
        for est, out in scx.raised:
            cx.raised.append((est, out))
        inner = sub.hyps[n0 + 2:]
        rng = z3.And(0 <= k, k < it.n)
        if not getattr(v.ty, "single", False) or v.ty is None:
            raise Unsupported("comprehension element type")
        res = TSeq(v.ty).fresh("comp")
        for ax in res.axioms:
            cx.assume(ax)
        cx.assume(res.n == it.n)
        body = z3.And(*(inner + [res.at(k) == Vs._t(v)])) if inner else (res.at(k) == Vs._t(v))
        cx.assume(z3.ForAll([k], z3.Implies(rng, body), patterns=[res.at(k)]))
        return res

    def eval_Attribute(self, e, cx):
        obj = self.eval(e.value, cx)
        return self.getattr(obj, e.attr, cx, e)

    def getattr(self, obj, attr, cx, node=None):
        if isinstance(obj, PyRec):
            if attr in obj.fields:
                return obj.fields[attr]
            return BoundMethod(obj, attr, node.value if node is not None else None)
        if isinstance(obj, PyObj) and obj.cls:
            f = self.reg.field(obj.cls, attr)
            if f is not None:
                return f.read(obj, cx)
        return BoundMethod(obj, attr, node.value if node is not None else None)

    def eval_Subscript(self, e, cx):
        obj = self.eval(e.value, cx)
        idx = self.eval_index(e.slice, cx)
        if hasattr(obj, "py_getitem"):
            return obj.py_getitem(cx, idx)
        return self.getitem_hook(obj, idx, cx, e)

    def getitem_hook(self, obj, idx, cx, node):
        raise Unsupported(f"subscript of {type(obj).__name__} (line {node.lineno})")

    def eval_Compare(self, e, cx):
        left = self.eval(e.left, cx)
        acc = None
        for op, right_e in zip(e.ops, e.comparators):
            right = self.eval(right_e, cx)
            c = self.compare(op, left, right, cx, e)
            acc = c if acc is None else z3.And(acc, c)
            left = right
        return PyBool(acc)

    def compare(self, op, a, b, cx, node):
        if isinstance(op, (ast.In, ast.NotIn)):
            if not hasattr(b, "py_contains"):
                raise Unsupported(f"`in` on {type(b).__name__}")
            r = b.py_contains(cx, a).t
            return r if isinstance(op, ast.In) else z3.Not(r)
        if isinstance(op, (ast.Is, ast.IsNot)):
            r = self.is_same(a, b, cx)
            return r if isinstance(op, ast.Is) else z3.Not(r)
        if isinstance(op, (ast.Eq, ast.NotEq)):
            r = self.py_eq(a, b, cx)
            return r if isinstance(op, ast.Eq) else z3.Not(r)
        if isinstance(a, PyOpt) and isinstance(a.value, (PyInt, PyReal)):
            cx.raise_if(a.is_none, "TypeError")          # None < 0 raises TypeError
            a = a.value
        if isinstance(b, PyOpt) and isinstance(b.value, (PyInt, PyReal)):
            cx.raise_if(b.is_none, "TypeError")
            b = b.value
        if isinstance(a, (PyInt, PyReal)) and isinstance(b, (PyInt, PyReal)):
            x, y = _num(a), _num(b)
            return {ast.Lt: x < y, ast.LtE: x <= y, ast.Gt: x > y, ast.GtE: x >= y}[type(op)]
        return self.compare_hook(op, a, b, cx, node)

    def compare_hook(self, op, a, b, cx, node):
        raise Unsupported(f"comparison {type(op).__name__} on {type(a).__name__},{type(b).__name__}")

    def is_same(self, a, b, cx):
        if isinstance(b, PyNone):
            a, b = b, a
        if isinstance(a, PyNone):
            if isinstance(b, PyNone):
                return z3.BoolVal(True)
            if isinstance(b, PyOpt):
                return b.is_none
            if isinstance(b, PyObj):
                return b.t == none_term()
            return z3.BoolVal(False)
        if isinstance(a, PyObj) and isinstance(b, PyObj):
            return a.t == b.t         # identity approximated by equality of the abstract term
        if isinstance(a, PyBool) and isinstance(b, PyBool):
            return a.t == b.t
        raise Unsupported(f"`is` on {type(a).__name__},{type(b).__name__}")

    def py_eq(self, a, b, cx):
        if isinstance(a, (PyInt, PyReal)) and isinstance(b, (PyInt, PyReal)):
            return _num(a) == _num(b)
        if isinstance(a, PyBool) and isinstance(b, PyBool):
            return a.t == b.t
        if isinstance(a, PyObj) and isinstance(b, PyObj):
            return a.t == b.t         # hashable keys: == is the abstract identity of the key
        if isinstance(a, PyStr) and isinstance(b, PyStr):
            return z3.BoolVal(a.s == b.s)
        if isinstance(a, PyNone) or isinstance(b, PyNone):
            return self.is_same(a, b, cx)
        if isinstance(a, PyObj) and isinstance(b, PyStr) or isinstance(a, PyStr) and isinstance(b, PyObj):
            o, s = (a, b) if isinstance(a, PyObj) else (b, a)
            return o.t == str_term(s.s)
        raise Unsupported(f"== on {type(a).__name__},{type(b).__name__}")

    def eval_BoolOp(self, e, cx):
        # short-circuit: later operands are evaluated under the guard of the earlier ones
        vals = []
        guards = []
        for i, sub in enumerate(e.values):
            with cx.guarded(guards):
                v = self.eval(sub, cx)
            vals.append(v)
            t = self.truth(v, cx)
            guards = guards + [t if isinstance(e.op, ast.And) else z3.Not(t)]
        if all(isinstance(v, PyBool) for v in vals):
            ts = [v.t for v in vals]
            return PyBool(z3.And(*ts) if isinstance(e.op, ast.And) else z3.Or(*ts))
        # value-level and/or
        res = vals[-1]
        for v in reversed(vals[:-1]):
            t = self.truth(v, cx)
            res = self.val_ite(t, v, res, cx) if isinstance(e.op, ast.Or) else self.val_ite(t, res, v, cx)
        return res

    def val_ite(self, c, a, b, cx):
        if z3.is_true(c):
            return a
        if z3.is_false(c):
            return b
        if isinstance(a, PyOpt) and not isinstance(b, PyOpt):
            # `opt or default`: under c the optional is not None
            a = a.value
        if isinstance(b, PyOpt) and not isinstance(a, PyOpt):
            b = b.value
        for cls, fld in ((PyInt, "t"), (PyBool, "t"), (PyReal, "t"), (PySet, "arr"), (PyCount, "arr"), (PyDDict, "arr")):
            if isinstance(a, cls) and isinstance(b, cls):
                return cls(z3.If(c, getattr(a, fld), getattr(b, fld)))
        if isinstance(a, PyObj) and isinstance(b, PyObj):
            return PyObj(z3.If(c, a.t, b.t), a.cls if a.cls == b.cls else None)
        if isinstance(a, PyNone) and isinstance(b, PyNone):
            return a
        if isinstance(a, (PyInt, PyReal, PyBool)) and isinstance(b, PyNone):
            return PyOpt(z3.Not(c), a, a.ty)
        if isinstance(a, PyNone) and isinstance(b, (PyInt, PyReal, PyBool)):
            return PyOpt(c, b, b.ty)
        if isinstance(a, PyNone) and isinstance(b, PyObj):
            return PyObj(z3.If(c, none_term(), b.t))
        if isinstance(a, PyObj) and isinstance(b, PyNone):
            return PyObj(z3.If(c, a.t, none_term()))
        raise Unsupported(f"conditional value of {type(a).__name__}/{type(b).__name__}")

    def eval_IfExp(self, e, cx):
        c = self.truth(self.eval(e.test, cx), cx)
        with cx.guarded([c]):
            a = self.eval(e.body, cx)
        with cx.guarded([z3.Not(c)]):
            b = self.eval(e.orelse, cx)
        return self.val_ite(c, a, b, cx)

    def eval_UnaryOp(self, e, cx):
        v = self.eval(e.operand, cx)
        if isinstance(e.op, ast.Not):
            return PyBool(z3.Not(self.truth(v, cx)))
        if isinstance(e.op, ast.USub) and isinstance(v, (PyInt, PyReal)):
            return type(v)(-v.t)
        if isinstance(e.op, ast.UAdd) and isinstance(v, (PyInt, PyReal)):
            return v
        return self.unop_hook(e.op, v, cx, e)

    def unop_hook(self, op, v, cx, node):
        raise Unsupported(f"unary {type(op).__name__} on {type(v).__name__}")

    def eval_BinOp(self, e, cx):
        a = self.eval(e.left, cx)
        b = self.eval(e.right, cx)
        return self.binop(e.op, a, b, cx, node=e)

    def binop(self, op, a, b, cx, inplace=False, node=None):
        if isinstance(a, PyOpt) and isinstance(a.value, (PyInt, PyReal)):
            cx.raise_if(a.is_none, "TypeError")          # None + 1 raises TypeError
            a = a.value
        if isinstance(b, PyOpt) and isinstance(b.value, (PyInt, PyReal)):
            cx.raise_if(b.is_none, "TypeError")
            b = b.value
        if isinstance(a, (PyInt, PyReal)) and isinstance(b, (PyInt, PyReal)):
            both_int = isinstance(a, PyInt) and isinstance(b, PyInt)
            x, y = (a.t, b.t) if both_int else (_num(a, real=True), _num(b, real=True))
            W = PyInt if both_int else PyReal
            if isinstance(op, ast.Add):
                return W(x + y)
            if isinstance(op, ast.Sub):
                return W(x - y)
            if isinstance(op, ast.Mult):
                return W(x * y)
            if isinstance(op, ast.Div):
                cx.raise_if(y == 0, "ZeroDivisionError")
                return PyReal(_num(a, real=True) / _num(b, real=True))
        if isinstance(a, PySet) and isinstance(b, PySet) and not inplace and isinstance(op, (ast.Sub, ast.BitOr, ast.BitAnd)):
            # a - b / a | b / a & b of two sets: a NEW set, element-wise (wave 10, C02-20: `deps - self.targets` made the contract stale)
            new = FreshConst(a.ty.sort(), "setop")
            x = z3.Const("x!so", V)
            ina, inb = z3.Select(a.arr, x), z3.Select(b.arr, x)
            mem = z3.And(ina, z3.Not(inb)) if isinstance(op, ast.Sub) else (z3.Or(ina, inb) if isinstance(op, ast.BitOr) else z3.And(ina, inb))
            cx.assume(z3.ForAll([x], z3.Select(new, x) == mem, patterns=[z3.Select(new, x)]))
            return PySet(new)
        return self.binop_hook(op, a, b, cx, inplace, node)

    def binop_hook(self, op, a, b, cx, inplace, node):
        raise Unsupported(f"binary {type(op).__name__} on {type(a).__name__},{type(b).__name__}")

    def truth(self, v, cx):
        if isinstance(v, PyBool):
            return v.t
        if isinstance(v, PyNone):
            return z3.BoolVal(False)
        if isinstance(v, PyInt):
            return v.t != 0
        if isinstance(v, PyOpt):
            return z3.And(z3.Not(v.is_none), self.truth(v.value, cx))
        if isinstance(v, PySet):
            x = z3.Const("x!t", V)
            return z3.Exists([x], z3.Select(v.arr, x))
        if isinstance(v, PyCount):
            x = z3.Const("x!t", V)
            return z3.Exists([x], z3.Select(v.arr, x) > 0)
        if isinstance(v, (PySeq,)):
            return v.n > 0
        if isinstance(v, PyDeque):
            return v.hi > v.lo
        return self.truth_hook(v, cx)

    def truth_hook(self, v, cx):
        raise Unsupported(f"truth value of {type(v).__name__}")

    # ---- iteration -------------------------------------------------------------------
    def iterate(self, v, cx):
        if isinstance(v, PyEnum):
            return v
        if hasattr(v, "py_iter"):
            return v.py_iter(cx)
        if isinstance(v, PyOpt):
            cx.raise_if(v.is_none, "TypeError")
            return self.iterate(v.value, cx)
        raise Unsupported(f"iteration over {type(v).__name__}")

    # ---- exceptions ------------------------------------------------------------------
    def eval_exc(self, e, cx):
        """-> (class name, z3 Exc term)"""
        if isinstance(e, ast.Call):
            # evaluate the arguments for their side conditions only (messages are I/O)
            if isinstance(e.func, ast.Name):
                return e.func.id, exc_const(e.func.id)
        if isinstance(e, ast.Name):
            v = cx.st.env.get(e.id)
            if isinstance(v, PyExc):
                return v.name, v.term
            return e.id, exc_const(e.id)
        raise Unsupported("raise form")

    # ---- calls --------------------------------------------------------------------------
    def eval_Call(self, e, cx):
        if _is_dropped_call(e):
            return PyNone()
        f = e.func
        # plain name
        if isinstance(f, ast.Name) and f.id not in cx.st.env:
            b = getattr(self, "builtin_" + f.id, None)
            if b is not None:
                return b(e, cx)
            c = self.reg.lookup_function(self.c.module, f.id)
            if c is not None:
                args, kwargs = self.eval_args(e, cx)
                return self.call_contract(c, args, kwargs, cx, e, arg_nodes=e.args)
            return self.call_hook(e, cx)
        if isinstance(f, ast.Attribute):
            recv = self.eval(f.value, cx)
            return self.call_method(recv, f.attr, e, cx, recv_node=f.value)
        fv = self.eval(f, cx)
        return self.call_value(fv, e, cx)

    def call_hook(self, e, cx):
        raise Unsupported(f"call to {ast.unparse(e.func)} (line {e.lineno})")

    def call_value(self, fv, e, cx):
        raise Unsupported(f"call of a computed value (line {e.lineno})")

    def eval_args(self, e, cx):
        args = []
        for a in e.args:
            if isinstance(a, ast.Starred):
                v = self.eval(a.value, cx)
                if isinstance(v, PyTuple):
                    args += v.items
                else:
                    args.append(Star(v))
            else:
                args.append(self.eval(a, cx))
        kwargs = {}
        for kw in e.keywords:
            if kw.arg is None:
                raise Unsupported("**kwargs at call")
            kwargs[kw.arg] = self.eval(kw.value, cx)
        return args, kwargs

    def call_method(self, recv, name, e, cx, recv_node):
        ov = self.c.extra.get("callee_contracts", {}).get(name)
        if ov is not None:
            # call-site specific callee contract (weaker / differently abstracted, separately proved or assumed)
            args, kwargs = self.eval_args(e, cx)
            return self.call_contract(ov, [recv] + args, kwargs, cx, e, arg_nodes=[recv_node] + list(e.args))
        if isinstance(recv, PyOpt) and hasattr(recv.value, "m_" + name):
            # method of the payload of an Optional: AttributeError when it is None
            cx.raise_if(recv.is_none, "AttributeError")
            args, kwargs = self.eval_args(e, cx)
            res, new_inner = getattr(recv.value, "m_" + name)(cx, *args)
            if new_inner is not None:
                self.assign(_as_store(recv_node), PyOpt(recv.is_none, new_inner, recv.ty.inner), cx)
            return res
        # 1. library model on the value itself
        m = getattr(recv, "m_" + name, None)
        if m is not None:
            args, kwargs = self.eval_args(e, cx)
            if kwargs:
                raise Unsupported("keyword args to library method")
            res, new_self = m(cx, *args)
            if new_self is not None:
                self.assign(_as_store(recv_node), new_self, cx)
            return res
        # 2. contract on the receiver's class
        cls = getattr(recv, "cls", None)
        c = self.reg.lookup_method(cls, name) if cls else None
        if c is None:
            c = self.reg.lookup_virtual(name)
        if c is None:
            return self.method_hook(recv, name, e, cx, recv_node)
        args, kwargs = self.eval_args(e, cx)
        return self.call_contract(c, [recv] + args, kwargs, cx, e, arg_nodes=[recv_node] + list(e.args))

    def method_hook(self, recv, name, e, cx, recv_node):
        raise Unsupported(f"method {name} on {type(recv).__name__} (line {e.lineno})")

    def call_contract(self, c, args, kwargs, cx, node, arg_nodes=None):
        """modular call: assert requires, havoc modifies, assume ensures"""
        st = cx.st
        pnames = list(c.params)
        if len(args) > len(pnames):
            cx.raise_always("TypeError")
            raise PathAbort()
        actual = {}
        nodes = {}
        for i, a in enumerate(args):
            actual[pnames[i]] = a
            if arg_nodes is not None and i < len(arg_nodes):
                nodes[pnames[i]] = arg_nodes[i]
        for k, v in kwargs.items():
            if k not in pnames or k in actual:
                # wrong keyword for the callee's real signature: TypeError at run time
                cx.raise_always("TypeError")
                raise PathAbort()
            actual[k] = v
            for kw in node.keywords:
                if kw.arg == k:
                    nodes[k] = kw.value
        for p in pnames:
            if p not in actual:
                if p in c.defaults:
                    actual[p] = c.defaults[p]()
                else:
                    cx.raise_always("TypeError")
                    raise PathAbort()
        self._orig_actual = dict(actual)
        for p in pnames:
            actual[p] = self.coerce(actual[p], c.params[p], cx, f"{c.qualname}.{p}")
        # ghost arguments
        ordn = self.call_ord.get(id(node), 0)
        if c.ghost:
            g = self.c.call_ghost.get((c.qualname, ordn)) or self.c.call_ghost.get((c.qualname, None))
            # ghost *outputs* are existential witnesses: fresh on the caller side unless supplied
            for gn, gty in c.ghost.items():
                fv = gty.fresh("gh_" + gn)
                actual[gn] = fv
                for ax in getattr(fv, "axioms", []):
                    cx.assume(ax)
            if g is not None:
                actual.update(g(NS(st.env), NS(self.pre_env)))
        pre = dict(actual)
        for ax in c.axioms:
            # type invariants of the callee's parameters are facts about our values only if we can show them
            pass
        for label, req in c.requires:
            self.emit(f"pre@call:{c.qualname}#{ordn}:{label}", "pre@call", st, req(NS(pre)), node.lineno)
        # exceptional returns
        for exc, spec in c.raises.items():
            when = spec["when"](NS(pre)) if spec.get("when") is not None else FreshConst(BoolS, "may_raise_" + exc)
            est = st.fork()
            epost = dict(pre)
            eterm = spec["term"](NS(pre)) if spec.get("term") else FreshConst(Vs.E, "raised_" + exc)
            epost["_exc"] = PyExc(exc, eterm)
            for m_ in spec.get("modifies", c.modifies):
                self._havoc_actual(epost, m_, pre)
            for label, ens in spec.get("post", []):
                est.hyps.append(ens(NS(pre), NS(epost)))
            if "." in "".join(spec.get("modifies", c.modifies)) or spec.get("modifies", c.modifies):
                self._writeback(est, epost, pre, nodes, cx, spec.get("modifies", c.modifies), tmpst=est)
            cx.branch_raise(when, exc, est, term=eterm)
            if spec.get("exact"):
                cx.assume(z3.Not(when))
        # normal return
        post = dict(pre)
        for m_ in c.modifies:
            self._havoc_actual(post, m_, pre)
        res = c.result.fresh("res_" + c.qualname.replace(".", "_")) if c.result is not None else PyNone()
        for v in list(post.values()) + [res]:
            for ax in getattr(v, "axioms", []):
                cx.assume(ax)
        for label, ens in c.ensures:
            cx.assume(ens(NS(pre), NS(post), res))
        self._writeback(st, post, pre, nodes, cx, c.modifies)
        return res

    def _havoc_actual(self, post, path, pre):
        if "." in path:
            p, f = path.split(".", 1)
            rec = post[p]
            if not isinstance(rec, PyRec):
                raise Unsupported(f"modifies {path}: actual is not a record")
            post[p] = rec.with_field(f, rec.fields[f].ty.fresh(f"{p}.{f}'"))
        else:
            post[path] = self.fresh_like(post[path], path + "'")

    def _writeback(self, st, post, pre, nodes, cx, modifies, tmpst=None):
        roots = {m.split(".", 1)[0] for m in modifies}
        for p in roots:
            if post[p] is pre[p]:
                continue
            nd = nodes.get(p)
            if nd is None:
                gw = self.c.extra.get("ghost_writeback", {}).get(p)
                if gw is not None:
                    (tmpst or st).env[gw] = post[p]
                continue                     # defaulted argument / ghost output: nothing to write back to
            newv = post[p]
            orig = getattr(self, "_orig_actual", {}).get(p)
            if isinstance(newv, PyOpt) and orig is not None and not isinstance(orig, (PyOpt, PyNone)):
                newv = newv.value          # the argument was a definite value wrapped for an Optional parameter
            if tmpst is not None:
                tcx = Ctx(self, tmpst, cx.node)
                self.assign(_as_store(nd), newv, tcx)
            else:
                self.assign(_as_store(nd), newv, cx)

    def coerce(self, v, ty, cx, what):
        """adapt an actual argument to the callee's declared parameter type"""
        if isinstance(ty, TTuple) and isinstance(v, PyTuple) and len(v.items) == len(ty.tys):
            return PyTuple([self.coerce(x, t_, cx, f"{what}[{k_}]") for k_, (x, t_) in enumerate(zip(v.items, ty.tys))])
        if isinstance(v, PyOpt) and not isinstance(ty, TOpt) and ty is not None:
            # an Optional value where a definite one is declared: it must not be None here
            self.emit(f"not-None:{what}", "post", cx.st, z3.Not(v.is_none), getattr(cx.node, "lineno", 0))
            return self.coerce(v.value, ty, cx, what)
        if isinstance(ty, TOpt):
            if isinstance(v, PyOpt):
                return v
            if isinstance(v, PyNone):
                return PyOpt(z3.BoolVal(True), ty.inner.fresh("none_payload"), ty.inner)
            return PyOpt(z3.BoolVal(False), self.coerce(v, ty.inner, cx, what), ty.inner)
        if isinstance(ty, type(TGraph)) and isinstance(v, PyDDict):
            g = graph_of_ddict(v)
            for ax in g.axioms:
                cx.assume(ax)
            return g
        if isinstance(ty, type(TSet)) and isinstance(v, PyCount):
            # a RefCount passed where an iterable-of-keys/set is expected: its key set
            new = FreshConst(TSet.sort(), "keys")
            x = z3.Const("x!k", V)
            cx.assume(z3.ForAll([x], z3.Select(new, x) == (z3.Select(v.arr, x) > 0), patterns=[z3.Select(new, x)]))
            return PySet(new)
        return v

    # ---- builtins ---------------------------------------------------------------------------
    def builtin_set(self, e, cx):
        if not e.args:
            return PySet.empty()
        v = self.eval(e.args[0], cx)
        if isinstance(v, PySet):
            return v
        raise Unsupported("set(x)")

    def builtin_deque(self, e, cx):
        if e.args:
            raise Unsupported("deque(x)")
        return PyDeque.empty()

    def builtin_list(self, e, cx):
        if not e.args:
            return PySeq.empty()
        v = self.eval(e.args[0], cx)
        if isinstance(v, PyDeque):
            s = v.to_seq()
            for ax in s.axioms:
                cx.assume(ax)
            return s
        if isinstance(v, PySeq):
            return v
        raise Unsupported(f"list({type(v).__name__})")

    def builtin_len(self, e, cx):
        v = self.eval(e.args[0], cx)
        if hasattr(v, "py_len"):
            return v.py_len(cx)
        raise Unsupported(f"len({type(v).__name__})")

    def builtin_isinstance(self, e, cx):
        v = self.eval(e.args[0], cx)
        return self.isinstance_hook(v, e.args[1], cx)

    def isinstance_hook(self, v, clsnode, cx):
        raise Unsupported("isinstance")


# ---------------------------------------------------------------------------
class Star:
    def __init__(self, v):
        self.v = v


class PyExc(Val):
    def __init__(self, name, term):
        self.name, self.term = name, term


class BoundMethod(Val):
    def __init__(self, recv, name, recv_node):
        self.recv, self.name, self.recv_node = recv, name, recv_node


class PyEnumIter(Val):
    """iterator object: an enumeration plus a position (for explicit iter())"""

    def __init__(self, enum, pos):
        self.enum, self.pos = enum, pos

    def fresh_pos(self, hint):
        return PyEnumIter(self.enum, FreshConst(IntS, hint + "_pos"))


class StaleContract(Exception):
    """sidecar no longer matches the code shape: proof stale, not a violation"""


_NONE = z3.Const("py_None", V)
_STRS = {}


def none_term():
    return _NONE


def str_term(s):
    if s not in _STRS:
        _STRS[s] = z3.Const(f"str:{s}", V)
    return _STRS[s]


def str_distinct_axiom():
    cs = list(_STRS.values()) + [_NONE]
    return z3.Distinct(*cs) if len(cs) > 1 else z3.BoolVal(True)


def _num(v, real=False):
    if isinstance(v, PyInt):
        return z3.ToReal(v.t) if real else v.t
    return v.t


def _immutable_ty(ty):
    if isinstance(ty, TOpt):
        return _immutable_ty(ty.inner)
    return isinstance(ty, (TIntCls, TBoolCls, TRealCls, TNoneCls))


def _norm(s):
    return "".join(s.split())


def _as_store(node):
    n = copy.copy(node)
    if hasattr(n, "ctx"):
        n.ctx = ast.Store()
    return n


def _as_load(node):
    n = copy.copy(node)
    if hasattr(n, "ctx"):
        n.ctx = ast.Load()
    return n


def _is_dropped_call(e):
    """logger.*(...), print(...), _print(...): I/O, outside every property"""
    if not isinstance(e, ast.Call):
        return False
    f = e.func
    if isinstance(f, ast.Name) and f.id in ("print", "_print"):
        return True
    if isinstance(f, ast.Attribute) and isinstance(f.value, ast.Name) and f.value.id in ("logger", "log", "logging"):
        return True
    return False


def _is_dropped_if(s):
    """`if self.verbose:` / `if verbose:` whose body only prints"""
    t = s.test
    isverb = (isinstance(t, ast.Attribute) and t.attr == "verbose") or (isinstance(t, ast.Name) and t.id == "verbose")
    if not isverb or s.orelse:
        return False
    return all(isinstance(b, ast.Expr) and _is_dropped_call(b.value) for b in s.body)


def _handler_names(h):
    if h.type is None:
        return ["BaseException"]
    if isinstance(h.type, ast.Name):
        return [h.type.id]
    if isinstance(h.type, ast.Tuple) and all(isinstance(x, ast.Name) for x in h.type.elts):
        return [x.id for x in h.type.elts]
    return None


def _root_name(node):
    """root variable of an access path; for paths through `self` the first field is kept
    ("self.rdeps") so that loops havoc only the fields they can change"""
    chain = []
    while isinstance(node, (ast.Attribute, ast.Subscript)):
        chain.append(node)
        node = node.value
    if not isinstance(node, ast.Name):
        return None
    if node.id == "self" and chain and isinstance(chain[-1], ast.Attribute):
        return "self." + chain[-1].attr
    return node.id


MUTATING_METHODS = {"add", "update", "append", "appendleft", "extend", "remove", "pop", "clear", "insert",
                    "discard", "popleft", "setdefault", "sort"}


def _assigned_names(stmts, engine=None):
    """names whose value may change in `stmts` (assignment roots, mutating
    method receivers, arguments passed to callees that declare `modifies`)"""
    out = set()

    class Vis(ast.NodeVisitor):
        def visit_Assign(self, n):
            for t in n.targets:
                self._tgt(t)
            self.generic_visit(n)

        def visit_AugAssign(self, n):
            self._tgt(n.target)
            self.generic_visit(n)

        def visit_For(self, n):
            self._tgt(n.target)
            self.generic_visit(n)

        def visit_Delete(self, n):
            for t in n.targets:
                self._tgt(t)

        def visit_ExceptHandler(self, n):
            if n.name:
                out.add(n.name)
            self.generic_visit(n)

        def _tgt(self, t):
            if isinstance(t, (ast.Tuple, ast.List)):
                for x in t.elts:
                    self._tgt(x)
            else:
                r = _root_name(t)
                if r:
                    out.add(r)

        def visit_Call(self, n):
            f = n.func
            if isinstance(f, ast.Attribute):
                r = _root_name(f.value)
                if r and f.attr in MUTATING_METHODS:
                    out.add(r)
                if r and engine is not None:
                    # a contracted method may modify its receiver / arguments
                    for c in engine.reg.contracts_named(f.attr):
                        if c.modifies:
                            pn = list(c.params)
                            roots = {m.split(".", 1)[0] for m in c.modifies}
                            if pn and pn[0] in roots:
                                if r == "self" and isinstance(f.value, ast.Name) and all(
                                        "." in m for m in c.modifies if m.split(".", 1)[0] == pn[0]):
                                    # self.method(...) whose contract names the fields it modifies
                                    for m in c.modifies:
                                        if m.split(".", 1)[0] == pn[0]:
                                            out.add("self." + m.split(".", 1)[1])
                                else:
                                    out.add(r)
                            for ix, a in enumerate(n.args):
                                ra = _root_name(a)
                                if ra and ix + 1 < len(pn) and pn[ix + 1] in roots:
                                    out.add(ra)
            elif isinstance(f, ast.Name) and engine is not None:
                c = engine.reg.lookup_function(engine.c.module, f.id)
                if c is not None and c.modifies:
                    pn = list(c.params)
                    roots = {m.split(".", 1)[0] for m in c.modifies}
                    for ix, a in enumerate(n.args):
                        ra = _root_name(a)
                        if ra and ix < len(pn) and pn[ix] in roots:
                            out.add(ra)
                    for k in n.keywords:
                        ra = _root_name(k.value)
                        if ra and k.arg in roots:
                            out.add(ra)
            self.generic_visit(n)

    for s in stmts:
        Vis().visit(s)
    return out


class Ctx:
    """per-statement evaluation context"""

    def __init__(self, engine, st, node):
        self.eng, self.st, self.node = engine, st, node
        self.raised = []          # [(State, Outcome)] exceptional branches
        self.guards = []

    def assume(self, f):
        if self.guards:
            f = z3.Implies(z3.And(*self.guards), f)
        self.st.hyps.append(f)

    def guarded(self, gs):
        cx = self

        class G:
            def __enter__(self_):
                cx.guards = cx.guards + list(gs)
                self_.n = len(gs)

            def __exit__(self_, *a):
                if self_.n:
                    cx.guards = cx.guards[:-self_.n]
        return G()

    def raise_if(self, cond, excname, term=None):
        if z3.is_false(cond):
            return
        est = self.st.fork()
        est.hyps += self.guards + [cond]
        self.raised.append((est, Outcome("raise", term if term is not None else exc_const(excname), excname)))
        self.assume(z3.Not(cond))

    def raise_always(self, excname):
        est = self.st.fork()
        est.hyps += self.guards
        self.raised.append((est, Outcome("raise", exc_const(excname), excname)))

    def branch_raise(self, cond, excname, est, term=None):
        est.hyps += self.guards + [cond]
        self.raised.append((est, Outcome("raise", term if term is not None else exc_const(excname), excname)))
