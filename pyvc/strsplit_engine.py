"""pyvc.strsplit_engine -- path-wise symbolic execution of straight-line TEXT code over SMT-LIB strings.

Written for Table._split_name_count_offset (what name / count / offset a designator TEXT denotes) but not specific to its
statement order: the function is executed path by path over the values
    text      a z3 String term
    number    a z3 Int term
    None
    tuple     of the above
with these constructs (anything else: Unsupported -> the contract is stale, the run-time part decides):
    x = <expr>; a, b = <expr>; x += / -= <expr>; if / elif / else; return <expr>
    <text> in <text>                      str.contains
    <text>.split(<sep>[, 1])              sep a non-empty literal text.  No occurrence: [text];  maxsplit 1: [before the FIRST occurrence,
                                          everything after it];  no maxsplit: the same two parts when the rest holds no further occurrence,
                                          otherwise more than two parts (only its length is known)
    a, b = <list of n parts>              n != 2 raises ValueError (Python: not enough / too many values to unpack)
    int(<text>)                           the uninterpreted py_int(text) when py_int_ok(text), else raises ValueError
    self.<attr>                           a field the contract declares in extra["fields"]: attr -> parameter of __init__;  the value is the
                                          DEFAULT of that parameter in the real `def __init__` and the real __init__ must store exactly that
                                          parameter under that attribute name (dict literal entry "attr": param, or object.__setattr__)
    integers, unary minus, + and - on numbers; `is None` / `is not None`; None; string and int literals

Each contract carries `forms`: [(label, hyps(names) -> [formula], expected(names) -> tuple of terms / None)] over declared universally
quantified texts.  For every form F and every path P the obligations are
    post:<F>/path<k>        hyps(F) /\\ cond(P)  =>  result(P) == expected(F)          (P returns)
    no-raise:<F>/path<k>    hyps(F) /\\ cond(P)  =>  False                              (P raises)
    lemma:<F>/text-fact-<j> hyps(F)  =>  fact_j                                          (proof guidance of the contract: where each separator
                                                                                         first occurs in the form's text; proved, then used above)
plus one vacuity probe per form (hyps(F) satisfiable together with SOME returning path).
Back end: the formulas contain String terms; pyvc.solve sends those to cvc5 --strings-exp first (z3's sequence solver does not
terminate on them in the budget, measured), z3 second.
"""
import ast
import z3
from .engine import Obligation
from .values import Unsupported

py_int = z3.Function("py_int_of_text", z3.StringSort(), z3.IntSort())
py_int_ok = z3.Function("py_int_accepts_text", z3.StringSort(), z3.BoolSort())


class T:            # text
    def __init__(self, t):
        self.t = t


class N:            # number
    def __init__(self, t):
        self.t = t


class NoneV:
    pass


class Parts:        # result of split: exactly `items` when `two` holds ... see split()
    def __init__(self, cases):
        self.cases = cases          # [(cond, [values] or int length)]


class Raise(Exception):
    def __init__(self, exc):
        self.exc = exc


class Path:
    def __init__(self, env, conds):
        self.env, self.conds = env, conds

    def fork(self, extra):
        return Path(dict(self.env), self.conds + [extra])


class StrSplitEngine:
    def __init__(self, registry, opts=None):
        self.reg = registry
        self.trivial_frames = 0

    # ---- fields: defaults of the real constructor -------------------------------------------------------------------------------
    def field_value(self, attr):
        spec = self.c.extra.get("fields", {})
        if attr not in spec:
            raise Unsupported(f"attribute self.{attr} is not declared by the contract")
        param = spec[attr]
        init = None
        for n in self.cls.body:
            if isinstance(n, ast.FunctionDef) and n.name == "__init__":
                init = n
        if init is None:
            raise Unsupported("no __init__")
        args = init.args.args
        defaults = [None] * (len(args) - len(init.args.defaults)) + list(init.args.defaults)
        dflt = None
        for a, d in zip(args, defaults):
            if a.arg == param:
                dflt = d
        if not (isinstance(dflt, ast.Constant) and isinstance(dflt.value, str)):
            raise Unsupported(f"default of __init__ parameter {param} is not a literal text")
        # the constructor stores exactly this parameter under this attribute name, once, and never re-binds the parameter
        stores = []
        for n in ast.walk(init):
            if isinstance(n, ast.Dict):
                for k, v in zip(n.keys, n.values):
                    if isinstance(k, ast.Constant) and k.value == attr:
                        stores.append(v)
            if isinstance(n, ast.Call) and ast.unparse(n.func) == "object.__setattr__" and len(n.args) == 3 \
                    and isinstance(n.args[1], ast.Constant) and n.args[1].value == attr:
                stores.append(n.args[2])
            if isinstance(n, (ast.Assign, ast.AugAssign, ast.AnnAssign)):
                for t in (n.targets if isinstance(n, ast.Assign) else [n.target]):
                    for m in ast.walk(t):
                        if isinstance(m, ast.Name) and m.id == param:
                            raise Unsupported(f"__init__ re-binds its parameter {param}")
                        if isinstance(m, ast.Attribute) and m.attr == attr:
                            stores.append(n.value if not isinstance(n, ast.AugAssign) else None)
        if len(stores) != 1 or not (isinstance(stores[0], ast.Name) and stores[0].id == param):
            msg = f"__init__ does not store its parameter {param} (and nothing else) under {attr}"
            if msg not in self.field_bad:
                self.field_bad.append(msg)
        return dflt.value

    # ---- expressions ----------------------------------------------------------------------------------------------------------------
    def ev(self, e, p):
        if isinstance(e, ast.Constant):
            if e.value is None:
                return NoneV()
            if isinstance(e.value, bool):
                raise Unsupported("bool literal")
            if isinstance(e.value, int):
                return N(z3.IntVal(e.value))
            if isinstance(e.value, str):
                return T(z3.StringVal(e.value))
            raise Unsupported(f"literal {e.value!r}")
        if isinstance(e, ast.Name):
            if e.id not in p.env:
                raise Unsupported(f"name {e.id}")
            return p.env[e.id]
        if isinstance(e, ast.Attribute) and isinstance(e.value, ast.Name) and e.value.id == self.selfname:
            return T(z3.StringVal(self.field_value(e.attr)))
        if isinstance(e, ast.UnaryOp) and isinstance(e.op, ast.USub):
            v = self.ev(e.operand, p)
            if isinstance(v, N):
                return N(-v.t)
            raise Unsupported("unary minus on a non-number")
        if isinstance(e, ast.BinOp) and isinstance(e.op, (ast.Add, ast.Sub)):
            a, b = self.ev(e.left, p), self.ev(e.right, p)
            return self.arith(e.op, a, b)
        if isinstance(e, ast.Tuple):
            return tuple(self.ev(x, p) for x in e.elts)
        if isinstance(e, ast.Call):
            return self.call(e, p)
        raise Unsupported(f"expression {ast.unparse(e)}")

    def arith(self, op, a, b):
        if isinstance(a, N) and isinstance(b, N):
            return N(a.t + b.t if isinstance(op, ast.Add) else a.t - b.t)
        if isinstance(a, T) and isinstance(b, T) and isinstance(op, ast.Add):
            return T(z3.Concat(a.t, b.t))
        raise Unsupported("arithmetic on these operands")

    def call(self, e, p):
        if isinstance(e.func, ast.Name) and e.func.id == "int" and len(e.args) == 1 and not e.keywords:
            v = self.ev(e.args[0], p)
            if isinstance(v, N):
                return v
            if not isinstance(v, T):
                raise Unsupported("int() of a non-text")
            # int(text) raises ValueError unless the text is an integer literal
            self.pending.append((z3.Not(py_int_ok(v.t)), "ValueError"))
            return N(py_int(v.t))
        if isinstance(e.func, ast.Attribute) and e.func.attr == "split" and not e.keywords and len(e.args) in (1, 2):
            s = self.ev(e.func.value, p)
            sep = self.ev(e.args[0], p)
            if not (isinstance(s, T) and isinstance(sep, T) and z3.is_string_value(sep.t)):
                raise Unsupported("split on these operands")
            sepv = sep.t.as_string()
            if sepv == "":
                raise Unsupported("empty separator")
            maxsplit = None
            if len(e.args) == 2:
                m = e.args[1]
                if not (isinstance(m, ast.Constant) and m.value == 1):
                    raise Unsupported("split with a maxsplit other than 1")
                maxsplit = 1
            # the two parts around the FIRST occurrence, through str.indexof / str.substr.  (The alternative -- a word equation over two fresh
            # texts, text == head ++ sep ++ tail with sep not starting before len(head) -- was measured 10x slower in cvc5 and left one
            # obligation undecided.)
            i = z3.IndexOf(s.t, sep.t, z3.IntVal(0))
            ls = z3.Length(s.t)
            head = z3.SubString(s.t, 0, i)
            tail = z3.SubString(s.t, i + len(sepv), ls - (i + len(sepv)))
            has = z3.Contains(s.t, sep.t)
            cases = [(z3.Not(has), [T(s.t)])]
            if maxsplit == 1:
                cases.append((has, [T(head), T(tail)]))
            else:
                more = z3.Contains(tail, sep.t)
                cases.append((z3.And(has, z3.Not(more)), [T(head), T(tail)]))
                cases.append((z3.And(has, more), 3))        # three or more parts
            return Parts(cases)
        raise Unsupported(f"call {ast.unparse(e)}")

    def test(self, e, p):
        """-> z3 Bool"""
        if isinstance(e, ast.Compare) and len(e.ops) == 1:
            a, b = self.ev(e.left, p), self.ev(e.comparators[0], p)
            op = e.ops[0]
            if isinstance(op, (ast.In, ast.NotIn)) and isinstance(a, T) and isinstance(b, T):
                c = z3.Contains(b.t, a.t)
                return c if isinstance(op, ast.In) else z3.Not(c)
            if isinstance(op, (ast.Is, ast.IsNot)) and isinstance(b, NoneV):
                c = z3.BoolVal(isinstance(a, NoneV))
                return c if isinstance(op, ast.Is) else z3.Not(c)
            if isinstance(a, N) and isinstance(b, N):
                tbl = {ast.Lt: a.t < b.t, ast.LtE: a.t <= b.t, ast.Gt: a.t > b.t, ast.GtE: a.t >= b.t, ast.Eq: a.t == b.t, ast.NotEq: a.t != b.t}
                if type(op) in tbl:
                    return tbl[type(op)]
            if isinstance(a, T) and isinstance(b, T) and isinstance(op, (ast.Eq, ast.NotEq)):
                return (a.t == b.t) if isinstance(op, ast.Eq) else (a.t != b.t)
        if isinstance(e, ast.UnaryOp) and isinstance(e.op, ast.Not):
            return z3.Not(self.test(e.operand, p))
        if isinstance(e, ast.BoolOp):
            ts = [self.test(v, p) for v in e.values]
            return z3.And(*ts) if isinstance(e.op, ast.And) else z3.Or(*ts)
        raise Unsupported(f"test {ast.unparse(e)}")

    # ---- statements: returns list of live paths; finished paths go to self.done ------------------------------------------------------
    def with_pending(self, p, k):
        """evaluate k(p) collecting may-raise side conditions: one raising path per condition, the live path assumes their negation"""
        self.pending = []
        v = k(p)
        for cond, exc in self.pending:
            self.done.append((p.fork(cond), ("raise", exc)))
        q = p
        for cond, exc in self.pending:
            q = q.fork(z3.Not(cond))
        self.pending = []
        return v, q

    def block(self, stmts, paths):
        for s in stmts:
            nxt = []
            for p in paths:
                nxt += self.stmt(s, p)
            paths = nxt
            if len(paths) + len(self.done) > 400:
                raise Unsupported("too many paths")
        return paths

    def stmt(self, s, p):
        if isinstance(s, ast.Expr) and isinstance(s.value, ast.Constant):
            return [p]
        if isinstance(s, ast.Pass):
            return [p]
        if isinstance(s, ast.Return):
            v, q = self.with_pending(p, lambda pp: self.ev(s.value, pp) if s.value is not None else NoneV())
            self.done.append((q, ("return", v)))
            return []
        if isinstance(s, ast.Assign) and len(s.targets) == 1:
            v, q = self.with_pending(p, lambda pp: self.ev(s.value, pp))
            return self.bind(s.targets[0], v, q)
        if isinstance(s, ast.AugAssign) and isinstance(s.target, ast.Name) and isinstance(s.op, (ast.Add, ast.Sub)):
            def k(pp):
                return self.arith(s.op, self.ev(ast.Name(id=s.target.id, ctx=ast.Load()), pp), self.ev(s.value, pp))
            v, q = self.with_pending(p, k)
            q = q.fork(z3.BoolVal(True))
            q.env[s.target.id] = v
            return [q]
        if isinstance(s, ast.If):
            c, q = self.with_pending(p, lambda pp: self.test(s.test, pp))
            c = z3.simplify(c)
            out = []
            if not z3.is_false(c):
                out += self.block(s.body, [q.fork(c)])
            if not z3.is_true(c):
                out += self.block(s.orelse, [q.fork(z3.Not(c))])
            return out
        raise Unsupported(f"statement {type(s).__name__} at line {s.lineno}")

    def bind(self, tgt, v, p):
        if isinstance(tgt, ast.Name):
            if isinstance(v, Parts):
                raise Unsupported("a list of parts bound to one name")
            q = p.fork(z3.BoolVal(True))
            q.env[tgt.id] = v
            return [q]
        if isinstance(tgt, ast.Tuple) and all(isinstance(t, ast.Name) for t in tgt.elts):
            n = len(tgt.elts)
            if isinstance(v, tuple):
                if len(v) != n:
                    self.done.append((p, ("raise", "ValueError")))
                    return []
                q = p.fork(z3.BoolVal(True))
                for t, x in zip(tgt.elts, v):
                    q.env[t.id] = x
                return [q]
            if isinstance(v, Parts):
                out = []
                for cond, items in v.cases:
                    q = p.fork(cond)
                    if isinstance(items, int) or len(items) != n:
                        self.done.append((q, ("raise", "ValueError")))      # not enough / too many values to unpack
                        continue
                    for t, x in zip(tgt.elts, items):
                        q.env[t.id] = x
                    out.append(q)
                return out
        raise Unsupported("assignment target")

    # ---- driver -----------------------------------------------------------------------------------------------------------------------
    def verify(self, c, fdef, classctx=None):
        self.c, self.cls = c, classctx
        self.field_bad = []
        params = [a.arg for a in fdef.args.args]
        if fdef.args.vararg or fdef.args.kwarg or fdef.args.kwonlyargs or fdef.args.defaults:
            raise Unsupported("signature")
        want = list(c.params)
        if len(params) != len(want):
            raise Unsupported("arity differs from the contract's")
        self.selfname = params[0]
        obls = []
        base = f"{c.module}:{c.qualname}"
        for label, mk in c.extra["forms"]:
            hyps, args, expected, facts = mk()
            # proof guidance given by the contract: facts about the form's text (where each separator first occurs in it), each PROVED from the
            # form's hypotheses alone as an obligation of its own and only then available to the path obligations
            for j, f in enumerate(facts):
                obls.append(Obligation(f"{base}#lemma:{label}/text-fact-{j + 1}", "lemma", list(hyps), f, c.qualname, fdef.lineno))
            env = {}
            for pn, a in zip(params[1:], args):
                env[pn] = a
            self.done = []
            self.pending = []
            live = self.block(fdef.body, [Path(env, [])])
            for p in live:
                self.done.append((p, ("return", NoneV())))
            k = 0
            returning = []
            for p, (kind, v) in self.done:
                k += 1
                H = list(hyps) + list(facts) + [x for x in p.conds if not z3.is_true(x)]
                if kind == "raise":
                    obls.append(Obligation(f"{base}#no-raise:{label}/path{k}:{v}-cannot-happen-on-a-text-of-this-form", "raises", H, z3.BoolVal(False),
                                           c.qualname, fdef.lineno))
                else:
                    returning.append(H)
                    obls.append(Obligation(f"{base}#post:{label}/path{k}", "post", H, self.same(v, expected), c.qualname, fdef.lineno))
            if not returning:
                obls.append(Obligation(f"{base}#post:{label}/returns", "post", list(hyps), z3.BoolVal(False), c.qualname, fdef.lineno))
            # vacuity probe: the form is inhabited and some returning path is taken on it
            obls.append(Obligation(f"{base}#probe:{label}:form-inhabited", "probe", list(hyps) + [z3.Or(*[z3.And(*h) for h in returning])] if returning else list(hyps),
                                   z3.BoolVal(False), c.qualname, fdef.lineno, True))
        for msg in self.field_bad:
            obls.append(Obligation(f"{base}#fields:{msg}", "post", [], z3.BoolVal(False), c.qualname, fdef.lineno))
        return obls

    def same(self, v, exp):
        if isinstance(exp, tuple):
            if not (isinstance(v, tuple) and len(v) == len(exp)):
                return z3.BoolVal(False)
            return z3.And(*[self.same(a, b) for a, b in zip(v, exp)])
        if exp is None:
            return z3.BoolVal(isinstance(v, NoneV))
        if z3.is_string(exp):
            return (v.t == exp) if isinstance(v, T) else z3.BoolVal(False)
        if z3.is_int(exp):
            return (v.t == exp) if isinstance(v, N) else z3.BoolVal(False)
        raise Unsupported("expected value")
