"""Engine specialisation for the Table derivations of xdeps/table.py (class invariant Rect, C14).

Model:
  _col_names      : list of names with an OBJECT IDENTITY (oid): `.copy()` / list(x) give a fresh identity with the same content,
                    passing the list itself keeps the identity (sharing between source and derived table is then visible)
  _data / data    : dict name -> column array or scalar (opaque values of sort V); `{}` is a fresh dict
  arr[rows]       : take(arr, rows) with  alen(take(a, r)) == sel_len(r, alen(a))   (numpy: the length of a selection
                    depends on the selector and the length of the selected array only)
  self.__class__(data, col_names=..., index=..., verify=False)
                  : the unchecked constructor stores its arguments as given (trusted: Table.__init__, verify=False branch);
                    keyword names are checked against the real signature
"""
import ast
import z3

from .engine import *          # noqa
from .engine import Engine, Ctx, Outcome, BoundMethod
from .values import *          # noqa
from .table_engine import TableEngine
from . import extract

alen = z3.Function("array_len", V, IntS)
take = z3.Function("np_take", V, V, V)
sel_len = z3.Function("selection_len", V, IntS, IntS)
_oid_counter = [0]


WATERMARK = z3.Int("oid_watermark")     # every list that exists when the function is entered has an identity <= WATERMARK
_ALLOCATED = []


def fresh_oid(hint="list", cx=None):
    """identity of a newly created list: above the watermark and different from every other allocation of this run"""
    o = FreshConst(IntS, hint + "_oid")
    if cx is not None:
        cx.assume(o > WATERMARK)
        for p in _ALLOCATED:
            cx.assume(o != p)
    _ALLOCATED.append(o)
    return o


class TNameListCls(Ty):
    single = False

    def fresh(self, hint="names"):
        n = FreshConst(IntS, hint + "_n")
        return PyNameList(n, FreshConst(z3.ArraySort(IntS, V), hint + "_a"), fresh_oid(hint))


class PyNameList(Val):
    ty = TNameListCls()

    def __init__(self, n, arr, oid):
        self.n, self.arr, self.oid = n, arr, oid
        self.axioms = [n >= 0]

    def at(self, i):
        return z3.Select(self.arr, i)

    def has(self, x):
        i = z3.Int("i!nl")
        return z3.Exists([i], z3.And(0 <= i, i < self.n, self.at(i) == x))

    def same(self, other):
        i = z3.Int("i!nl")
        return z3.And(self.oid == other.oid, self.n == other.n,
                      z3.ForAll([i], z3.Implies(z3.And(0 <= i, i < self.n), self.at(i) == other.at(i))))

    def ident(self, other):
        return isinstance(other, PyNameList) and self.n.eq(other.n) and self.arr.eq(other.arr) and self.oid.eq(other.oid)

    def py_iter(self, cx):
        return PyEnum(self.n, lambda j: z3.Select(self.arr, j), TV, axioms=[self.n >= 0])

    def py_len(self, cx):
        return PyInt(self.n)

    def py_contains(self, cx, x):
        return PyBool(self.has(x.t))

    def m_copy(self, cx):
        oid = fresh_oid("copy", cx)
        cx.assume(oid != self.oid)
        return PyNameList(self.n, self.arr, oid), None

    def m_insert(self, cx, pos, x):
        if not (isinstance(pos, PyInt) and z3.is_int_value(pos.t) and pos.t.as_long() == 0):
            raise Unsupported("insert position")
        new = FreshConst(z3.ArraySort(IntS, V), "ins")
        i = z3.Int("i!ins")
        cx.assume(z3.Select(new, 0) == x.t)
        cx.assume(z3.ForAll([i], z3.Implies(i >= 1, z3.Select(new, i) == z3.Select(self.arr, i - 1)), patterns=[z3.Select(new, i)]))
        return PyNone(), PyNameList(self.n + 1, new, self.oid)

    def py_getitem(self, cx, i):
        cx.raise_if(z3.Or(i.t < 0, i.t >= self.n), "IndexError")
        return PyObj(self.at(i.t))


TNameList = TNameListCls()


np_rep = z3.Function("np_concatenate_repeated", V, IntS, V)        # np.concatenate([a] * k)
np_cat = z3.Function("np_concatenate_pair", V, V, V)                # np.concatenate([a, b])
np_app = z3.Function("np_r_append_one", V, V, V)                    # np.r_[a, [v]]
cat_ok = z3.Function("np_concatenate_shapes_agree", V, V, BoolS)    # trailing dimensions / dtypes allow the concatenation


class RectEngine(TableEngine):
    def isinstance_hook(self, v, clsnode, cx):
        if isinstance(clsnode, ast.Name) and clsnode.id == "Table" and isinstance(v, PyRec):
            return PyBool(z3.BoolVal(v.cls == "Table"))
        return super().isinstance_hook(v, clsnode, cx)

    def np_call(self, name, e, cx):
        """numpy-lite for the derivations: lengths along the first axis only
             np.concatenate([a] * k)  : ValueError for k <= 0 ("need at least one array"), else length k * len(a)
             np.concatenate([a, b])   : length len(a) + len(b), or ValueError when the other dimensions disagree"""
        if name == "concatenate" and len(e.args) == 1:
            a = e.args[0]
            if isinstance(a, ast.BinOp) and isinstance(a.op, ast.Mult) and isinstance(a.left, ast.List) and len(a.left.elts) == 1:
                x = self.eval(a.left.elts[0], cx)
                k = self.eval(a.right, cx)
                if isinstance(x, PyObj) and isinstance(k, PyInt):
                    cx.raise_if(k.t <= 0, "ValueError")
                    r = np_rep(x.t, k.t)
                    cx.assume(alen(r) == k.t * alen(x.t))
                    return PyObj(r)
            if isinstance(a, ast.List) and len(a.elts) == 2:
                x, y = self.eval(a.elts[0], cx), self.eval(a.elts[1], cx)
                if isinstance(x, PyObj) and isinstance(y, PyObj):
                    cx.raise_if(z3.Not(cat_ok(x.t, y.t)), "ValueError")
                    r = np_cat(x.t, y.t)
                    cx.assume(alen(r) == alen(x.t) + alen(y.t))
                    return PyObj(r)
        raise Unsupported(f"np.{name} form")

    def eval_Subscript(self, e, cx):
        v = e.value
        if isinstance(v, ast.Attribute) and isinstance(v.value, ast.Name) and v.value.id == "np" and v.attr == "r_" and "np" not in cx.st.env:
            # np.r_[a, [x]] : one more row
            sl = e.slice
            if isinstance(sl, ast.Tuple) and len(sl.elts) == 2 and isinstance(sl.elts[1], ast.List) and len(sl.elts[1].elts) == 1:
                a = self.eval(sl.elts[0], cx)
                x = self.eval(sl.elts[1].elts[0], cx)
                if isinstance(a, PyObj) and isinstance(x, PyObj):
                    r = np_app(a.t, x.t)
                    cx.assume(alen(r) == alen(a.t) + 1)
                    return PyObj(r)
            raise Unsupported("np.r_ form")
        return super().eval_Subscript(e, cx)

    def verify(self, contract, fdef, classctx=None):
        del _ALLOCATED[:]
        return super().verify(contract, fdef, classctx)

    def eval_Dict(self, e, cx):
        if e.keys:
            raise Unsupported("non-empty dict literal")
        return PyMap.empty(TV)

    def assign(self, tgt, v, cx, rebind=False):
        return Engine.assign(self, tgt, v, cx, rebind=rebind)

    def builtin_set(self, e, cx):
        if e.args:
            v = self.eval(e.args[0], cx)
            if isinstance(v, PyMap):
                return PySet(v.dom)                       # set(dict): its keys
            if isinstance(v, PyNameList):
                arr = FreshConst(z3.ArraySort(V, BoolS), "nameset")
                x = z3.Const("x!ns", V)
                cx.assume(z3.ForAll([x], z3.Select(arr, x) == v.has(x), patterns=[z3.Select(arr, x)]))
                return PySet(arr)
        return super().builtin_set(e, cx)

    def binop(self, op, a, b, cx, inplace=False, node=None):
        if isinstance(op, ast.Sub) and isinstance(a, PySet) and isinstance(b, PySet):
            arr = FreshConst(z3.ArraySort(V, BoolS), "setdiff")
            x = z3.Const("x!sd", V)
            cx.assume(z3.ForAll([x], z3.Select(arr, x) == z3.And(z3.Select(a.arr, x), z3.Not(z3.Select(b.arr, x))), patterns=[z3.Select(arr, x)]))
            return PySet(arr)
        return super().binop(op, a, b, cx, inplace=inplace, node=node)

    def method_hook(self, recv, name, e, cx, recv_node):
        if isinstance(recv, PyMap) and name == "keys" and not e.args:
            return PySet(recv.dom)                        # (a key view: read as the set of keys)
        return super().method_hook(recv, name, e, cx, recv_node)

    def builtin_list(self, e, cx):
        v = self.eval(e.args[0], cx) if e.args else None
        if isinstance(v, PyNameList):
            oid = fresh_oid("list", cx)
            cx.assume(oid != v.oid)
            return PyNameList(v.n, v.arr, oid)
        return super().builtin_list(e, cx)

    def getitem_hook(self, obj, idx, cx, node):
        if isinstance(obj, PyRec) and obj.cls == "Table":
            c = self.reg.lookup_method("Table", "__getitem__")
            if c is None:
                raise Unsupported("Table.__getitem__ without contract")
            fake = ast.Call(func=ast.Name(id="__getitem__", ctx=ast.Load()), args=[], keywords=[], lineno=getattr(node, "lineno", 0))
            self.call_ord[id(fake)] = 0
            return self.call_contract(c, [obj, idx], {}, cx, fake, arg_nodes=[node.value, node.slice])
        if isinstance(obj, PyObj):
            it = idx.t if isinstance(idx, PyObj) else None
            if it is None:
                raise Unsupported("array index " + type(idx).__name__)
            r = take(obj.t, it)
            cx.assume(alen(r) == sel_len(it, alen(obj.t)))
            return PyObj(r)
        return super().getitem_hook(obj, idx, cx, node)

    def call_method(self, recv, name, e, cx, recv_node):
        if isinstance(recv_node, ast.Name) and recv_node.id == "np" and "np" not in cx.st.env:
            return self.np_call(name, e, cx)
        if name == "__class__" and isinstance(recv, PyRec):
            return self.construct(recv, e, cx)
        return super().call_method(recv, name, e, cx, recv_node)

    def eval_Call(self, e, cx):
        f = e.func
        if isinstance(f, ast.Attribute) and f.attr == "__class__" and isinstance(f.value, ast.Name):
            recv = self.eval(f.value, cx)
            if isinstance(recv, PyRec):
                return self.construct(recv, e, cx)
        return super().eval_Call(e, cx)

    def construct(self, recv, e, cx):
        """self.__class__(data, col_names=..., index=..., ..., verify=False)"""
        init, _ = extract.module(self.c.module).find("Table.__init__")
        pnames = [a.arg for a in init.args.args][1:]
        actual = {}
        for k, a in enumerate(e.args):
            if k >= len(pnames):
                cx.raise_always("TypeError")
                raise PathAbort()
            actual[pnames[k]] = self.eval(a, cx)
        for kw in e.keywords:
            if kw.arg not in pnames or kw.arg in actual:
                cx.raise_always("TypeError")
                raise PathAbort()
            actual[kw.arg] = (kw.value, self.eval(kw.value, cx))[1]
        ver = next((kw.value for kw in e.keywords if kw.arg == "verify"), None)
        checked = not (isinstance(ver, ast.Constant) and ver.value is False)
        data, names = actual.get("data"), actual.get("col_names")
        idx = actual.get("index")
        if not isinstance(data, PyMap) or not isinstance(names, PyNameList):
            raise Unsupported("constructor arguments")
        if idx is None:
            idx = PyObj(z3.Const("str:name", V))
        fields = dict(recv.fields)
        ty = recv.ty
        if checked:
            # the checked constructor copies the dict and the list (data.copy(), list(col_names))
            oid = fresh_oid("ctor", cx)
            cx.assume(oid != names.oid)
            names = PyNameList(names.n, names.arr, oid)
        fields.update(_data=data, _col_names=names, _index=idx)
        if "_index_cache" in fields:
            fields["_index_cache"] = self.coerce(PyNone(), ty.fields["_index_cache"], cx, "cache")
            fields["_count_cache"] = self.coerce(PyNone(), ty.fields["_count_cache"], cx, "cache")
        return PyRec(recv.cls, fields, ty)
