"""pyvc.writeset -- syntactic frame obligations.

For functions whose body is outside the symbolic executor's subset (string surgery, generators, eval) but whose
*effect on the receiver* is simple, the frame "self is reached only through these contracted methods" is decided on
the AST: every syntactic site that could modify state reachable from `self` is enumerated and must be on the
contract's allow-list.  Each site is one obligation (goal True/False), so a new store or a new mutating call shows
up as a refuted obligation naming the site.  What this does NOT see: aliasing (`x = self.tasks; x.clear()` is
caught because binding a field of self to a local is itself a site unless allowed), getattr/setattr tricks, and
mutation by callees that are handed `self` (passing `self` as an argument is a site).
"""
import ast
import z3

from .engine import Obligation, StaleContract, _norm, _is_dropped_call


class WriteSetEngine:
    def __init__(self, registry, opts=None):
        self.reg = registry
        self.trivial_frames = 0

    def verify(self, c, fdef, classctx=None):
        allow_calls = set(c.extra.get("allowed_self_calls", ()))        # self.<m>(...) that may be called
        allow_reads = set(c.extra.get("allowed_self_reads", ()))        # self.<field> that may be read (not stored to)
        must_call = set(c.extra.get("must_call", ()))
        recv = c.extra.get("receiver", "self")
        obls = []
        seen_calls = set()

        def emit(kind, node, ok, what):
            src = _norm(ast.unparse(node))[:60]
            name = f"{c.module}:{c.qualname}#frame:{kind}:{what}:{src}"
            n = sum(1 for o in obls if o.name.split("[")[0] == name)
            obls.append(Obligation(name if n == 0 else f"{name}[{n}]", "frame", [], z3.BoolVal(bool(ok)), c.qualname,
                                   getattr(node, "lineno", 0)))

        def rooted(node):
            """-> first attribute name if the access path is rooted at the receiver, '' for the bare receiver"""
            chain = []
            while isinstance(node, (ast.Attribute, ast.Subscript, ast.Starred)):
                chain.append(node)
                node = node.value
            if isinstance(node, ast.Name) and node.id == recv:
                for nd in reversed(chain):
                    if isinstance(nd, ast.Attribute):
                        return nd.attr
                return ""
            return None

        handled = set()
        for node in ast.walk(fdef):
            if isinstance(node, ast.Expr) and _is_dropped_call(node.value):
                for sub in ast.walk(node):
                    handled.add(id(sub))
        for node in ast.walk(fdef):
            if id(node) in handled:
                continue
            if isinstance(node, (ast.Assign, ast.AugAssign, ast.AnnAssign, ast.Delete)):
                tgts = node.targets if isinstance(node, (ast.Assign, ast.Delete)) else [node.target]
                for tg in tgts:
                    for sub in ([tg] if not isinstance(tg, (ast.Tuple, ast.List)) else tg.elts):
                        f = rooted(sub)
                        if f is not None:
                            emit("store", node, False, f or recv)
                        if isinstance(sub, ast.Name) and sub.id == recv:
                            emit("rebind", node, False, recv)
            if isinstance(node, ast.Call):
                fn = node.func
                if isinstance(fn, ast.Attribute):
                    f = rooted(fn.value)
                    if f == "" and isinstance(fn.value, ast.Name):
                        # self.m(...)
                        seen_calls.add(fn.attr)
                        emit("call", node, fn.attr in allow_calls, fn.attr)
                        handled.add(id(fn))
                        handled.add(id(fn.value))
                    elif f is not None and f != "":
                        # self.field....m(...): a method of a field
                        ok = f in allow_reads and fn.attr in ("get", "items", "keys", "values", "copy", "__contains__")
                        emit("field-call", node, ok, f"{f}.{fn.attr}")
                        for sub in ast.walk(fn):
                            handled.add(id(sub))
                for a in list(node.args) + [k.value for k in node.keywords]:
                    f = rooted(a)
                    if f == "" and isinstance(a, ast.Name):
                        emit("escape", node, False, recv)
                        handled.add(id(a))
                    elif f:
                        emit("field-escape", node, f in allow_reads, f)
                        for sub in ast.walk(a):
                            handled.add(id(sub))
        # remaining plain reads of self.<field>
        for node in ast.walk(fdef):
            if id(node) in handled:
                continue
            if isinstance(node, ast.Attribute) and isinstance(node.value, ast.Name) and node.value.id == recv \
                    and isinstance(node.ctx, ast.Load):
                emit("read", node, node.attr in allow_reads or node.attr in allow_calls, node.attr)
        for mname in sorted(must_call):
            obls.append(Obligation(f"{c.module}:{c.qualname}#frame:delegates-to:{mname}", "frame", [],
                                   z3.BoolVal(mname in seen_calls), c.qualname, fdef.lineno))
        if not obls:
            raise StaleContract(f"{c.qualname}: no site touching {recv} found")
        return obls


class ClassHooksEngine:
    """obligations over a class body: the class defines none of the listed special methods (e.g. custom pickle
    hooks on a class whose default pickling the trusted-base argument relies on).  Anchored on one method of the
    class (the contract's qualname) so the class is located in the real source on every run."""

    def __init__(self, registry, opts=None):
        self.reg = registry
        self.trivial_frames = 0

    def verify(self, c, fdef, classctx=None):
        if classctx is None:
            raise StaleContract(f"{c.qualname}: not a method")
        forbidden = c.extra.get("forbidden_methods", ())
        have = {n.name for n in classctx.body if isinstance(n, ast.FunctionDef)}
        have |= {t.id for n in classctx.body if isinstance(n, ast.Assign) for t in n.targets if isinstance(t, ast.Name)}
        obls = []
        for m in forbidden:
            obls.append(Obligation(f"{c.module}:{classctx.name}#class-defines-no:{m}", "frame", [],
                                   z3.BoolVal(m not in have), c.qualname, classctx.lineno))
        return obls


class SelfCallShapeEngine:
    """obligations: every call `self.m(...)` in the function is well-formed against the real `def m` of the same class
    (number of positional arguments, keyword names, required parameters supplied).  A wrong keyword is a TypeError at
    run time on a path tests may never take (e.g. an optional argument of a public method)."""

    def __init__(self, registry, opts=None):
        self.reg = registry
        self.trivial_frames = 0

    def verify(self, c, fdef, classctx=None):
        if classctx is None:
            raise StaleContract(f"{c.qualname}: not a method")
        defs = {n.name: n for n in classctx.body if isinstance(n, ast.FunctionDef)}
        obls = []
        for node in ast.walk(fdef):
            if not (isinstance(node, ast.Call) and isinstance(node.func, ast.Attribute) and isinstance(node.func.value, ast.Name)
                    and node.func.value.id == "self" and node.func.attr in defs):
                continue
            d = defs[node.func.attr]
            if any(isinstance(a, ast.Starred) for a in node.args) or any(k.arg is None for k in node.keywords):
                continue
            if any(isinstance(dec, ast.Name) and dec.id in ("property", "staticmethod", "classmethod") for dec in d.decorator_list):
                continue
            pos = [a.arg for a in d.args.posonlyargs + d.args.args][1:]
            kwonly = [a.arg for a in d.args.kwonlyargs]
            ndef = len(d.args.defaults)
            required = pos[:len(pos) - ndef] if ndef else pos
            npos = len(node.args)
            kws = [k.arg for k in node.keywords]
            ok = True
            why = ""
            if npos > len(pos) and d.args.vararg is None:
                ok, why = False, "too many positional arguments"
            for k in kws:
                if k not in pos + kwonly and d.args.kwarg is None:
                    ok, why = False, f"unexpected keyword {k!r}"
                elif k in pos[:npos]:
                    ok, why = False, f"{k!r} given twice"
            for r in required[npos:]:
                if r not in kws:
                    ok, why = False, f"missing argument {r!r}"
            src = _norm(ast.unparse(node))[:70]
            name = f"{c.module}:{c.qualname}#call-well-formed:{node.func.attr}:{src}"
            n = sum(1 for o in obls if o.name.split("[")[0] == name)
            ob = Obligation(name if n == 0 else f"{name}[{n}]", "pre@call", [], z3.BoolVal(ok), c.qualname, node.lineno)
            ob.why = why
            obls.append(ob)
        if not obls:
            raise StaleContract(f"{c.qualname}: no self-calls found")
        return obls


class BindingTableEngine:
    """obligations over a class body: class-level names are bound to the expected objects (e.g. the callbacks of a lark
    Transformer to functions of the `operator` module), read from the import statements and assignments of the real class;
    optionally: a module-level grammar string maps each operator token to the expected callback name."""

    def __init__(self, registry, opts=None):
        self.reg = registry
        self.trivial_frames = 0

    def verify(self, c, fdef, classctx=None):
        if classctx is None:
            raise StaleContract(f"{c.qualname}: not a method")
        bound = {}
        for n in classctx.body:
            if isinstance(n, ast.ImportFrom):
                for a in n.names:
                    bound[a.asname or a.name] = f"{n.module}.{a.name}"
            elif isinstance(n, ast.Assign) and len(n.targets) == 1 and isinstance(n.targets[0], ast.Name):
                bound[n.targets[0].id] = ast.unparse(n.value)
            elif isinstance(n, ast.FunctionDef):
                bound[n.name] = "<method>"
        obls = []
        for name, want in c.extra.get("bindings", {}).items():
            got = bound.get(name)
            ob = Obligation(f"{c.module}:{classctx.name}#binds:{name}=={want}", "post", [], z3.BoolVal(got == want), c.qualname, classctx.lineno)
            obls.append(ob)
        g = c.extra.get("grammar")
        if g:
            from . import extract
            sm = extract.module(c.module)
            text = None
            for n in sm.tree.body:
                if isinstance(n, ast.Assign) and isinstance(n.targets[0], ast.Name) and n.targets[0].id == g["name"] \
                        and isinstance(n.value, ast.Constant):
                    text = n.value.value
            rules = []
            if text is not None:
                for ln in text.splitlines():
                    if "->" in ln.split('"->"')[-1] and "|" in ln or ln.strip().startswith("|") or ":" in ln:
                        body = ln.split(":", 1)[-1] if ln.strip().startswith("?") or ln.strip()[:1].isalpha() else ln
                        body = body.strip().lstrip("|").strip()
                        if "->" in body.replace('"->"', ""):
                            lhs, cb = body.rsplit("->", 1)
                            rules.append((" ".join(lhs.split()), cb.strip()))
            for pat, cb in g["rules"]:
                ok = (" ".join(pat.split()), cb) in rules
                obls.append(Obligation(f"{c.module}:{g['name']}#rule:{pat} -> {cb}", "post", [], z3.BoolVal(ok), c.qualname, 0))
            extra_cbs = {cb for _, cb in rules} - {cb for _, cb in g["rules"]}
            obls.append(Obligation(f"{c.module}:{g['name']}#no-other-callbacks:{sorted(extra_cbs)}", "post", [], z3.BoolVal(not extra_cbs), c.qualname, 0))
        return obls


class ReconstructThroughInitEngine:
    """obligations over a small container class whose __init__ establishes an identity the default pickle/copy protocol would
    lose (AttrDict: `self.__dict__ = self`): __reduce__ rebuilds the object by CALLING the class without arguments (so __init__
    runs), applies no state (which could rebind __dict__), carries every item, and no other pickle/copy hook interferes."""

    def __init__(self, registry, opts=None):
        self.reg = registry
        self.trivial_frames = 0

    def verify(self, c, fdef, classctx=None):
        if classctx is None:
            raise StaleContract(f"{c.qualname}: not a method")
        obls = []

        def emit(name, ok, node, why=""):
            ob = Obligation(f"{c.module}:{classctx.name}#{name}", "post", [], z3.BoolVal(bool(ok)), c.qualname, getattr(node, "lineno", 0))
            ob.why = why
            obls.append(ob)
        defs = {n.name: n for n in classctx.body if isinstance(n, ast.FunctionDef)}
        init = defs.get("__init__")
        want_init = [_norm(s) for s in c.extra.get("init_establishes", ())]
        top = [_norm(ast.unparse(s)) for s in (init.body if init else [])]
        for w in want_init:
            emit(f"init-establishes:{w}", w in top, init or classctx)
        red = defs.get("__reduce__")
        emit("class-defines:__reduce__", red is not None, classctx, "the default protocol rebuilds the object without calling __init__")
        if red is None:
            return obls
        fdef = red
        rets = [n for n in ast.walk(fdef) if isinstance(n, ast.Return)]
        ok_shape = len(rets) == 1 and isinstance(rets[0].value, ast.Tuple) and len(rets[0].value.elts) == 5 and len(fdef.body) == 1 + (
            1 if fdef.body and isinstance(fdef.body[0], ast.Expr) and isinstance(fdef.body[0].value, ast.Constant) else 0)
        emit("reduce:single-return-of-a-5-tuple", ok_shape, fdef)
        if ok_shape:
            e = rets[0].value.elts
            emit("reduce:rebuilt-by-calling-the-class", _norm(ast.unparse(e[0])) in ("type(self)", "self.__class__", classctx.name), e[0])
            emit("reduce:without-arguments-so-that-__init__-runs", isinstance(e[1], ast.Tuple) and not e[1].elts, e[1])
            emit("reduce:no-state-applied", isinstance(e[2], ast.Constant) and e[2].value is None, e[2])
            emit("reduce:no-list-items", isinstance(e[3], ast.Constant) and e[3].value is None, e[3])
            emit("reduce:every-item-carried", _norm(ast.unparse(e[4])) in ("iter(self.items())", "iter(dict.items(self))"), e[4])
        for m in c.extra.get("forbidden_methods", ()):
            emit(f"class-defines-no:{m}", m not in defs, classctx)
        return obls


class TokenKeysEngine:
    """obligations over the callbacks of a lark Transformer: a parameter that receives a NAME token is used as a KEY (subscript index, or
    attribute name handed to getattr / setattr on a reference) only through its `.value` -- the token itself is a str subclass with a
    repr of its own, so a reference keyed by it is a different access path from the one keyed by the plain text."""

    def __init__(self, registry, opts=None):
        self.reg = registry
        self.trivial_frames = 0

    def verify(self, c, fdef, classctx=None):
        params = [a.arg for a in fdef.args.args][1:]
        tokens = [p for p in params if p in c.extra.get("token_params", ())]
        obls = []

        def emit(node, p, ok, how):
            src = _norm(ast.unparse(node))[:60]
            name = f"{c.module}:{c.qualname}#token-used-as-key-through-.value:{p}:{how}:{src}"
            n = sum(1 for o in obls if o.name.split("[")[0] == name)
            obls.append(Obligation(name if n == 0 else f"{name}[{n}]", "post", [], z3.BoolVal(ok), c.qualname, getattr(node, "lineno", 0)))

        def bare(n, p):
            return isinstance(n, ast.Name) and n.id == p

        def valued(n, p):
            return isinstance(n, ast.Attribute) and n.attr == "value" and bare(n.value, p)
        for node in ast.walk(fdef):
            for p in tokens:
                if isinstance(node, ast.Subscript):
                    if bare(node.slice, p) or valued(node.slice, p):
                        emit(node, p, valued(node.slice, p), "subscript")
                if isinstance(node, ast.Call) and isinstance(node.func, ast.Name) and node.func.id in ("getattr", "setattr") and len(node.args) >= 2:
                    if c.extra.get("check_getattr", False) and (bare(node.args[1], p) or valued(node.args[1], p)):
                        emit(node, p, valued(node.args[1], p), node.func.id)
        if len(obls) < c.min_obligations:
            raise StaleContract(f"{c.qualname}: {len(obls)} key uses of the token parameters {tokens} found, contract expects {c.min_obligations}")
        return obls


class SwitchTableEngine:
    """obligations over the *switching statements* of a function: the calls that enable / disable knobs and targets.

    A switching statement is a top-level statement of the form  `CALL`  or  `if <name> is not None: CALL`  where CALL calls one of the
    contract's `callees` (a module-level function by name, or a method as `self.<m>`).  Each is normalised to a row
        (guard name or None, callee, {parameter: source text of the argument})
    with the arguments bound to the REAL signature of the callee (positional / keyword / default spellings are the same row).
    Obligations, one per expected row: the k-th switching statement is that row; no further switching statement; none of the callees is
    called anywhere else in the function (nested in a loop, in an expression ...); with `split_at` (source text of a loop's iterable): the
    first `split` rows precede that loop and the others follow it.
    A switching call wrapped in anything else (try, a different test, several statements under one guard) is outside the subset."""

    def __init__(self, registry, opts=None):
        self.reg = registry
        self.trivial_frames = 0

    def _callee(self, call):
        f = call.func
        if isinstance(f, ast.Name):
            return f.id
        if isinstance(f, ast.Attribute) and isinstance(f.value, ast.Name) and f.value.id == "self":
            return "self." + f.attr
        return None

    def _bind(self, call, d, method):
        pos = [a.arg for a in d.args.posonlyargs + d.args.args][(1 if method else 0):]
        defaults = dict(zip(pos[len(pos) - len(d.args.defaults):], d.args.defaults))
        if any(isinstance(a, ast.Starred) for a in call.args) or any(k.arg is None for k in call.keywords) or len(call.args) > len(pos):
            raise StaleContract("star-arguments / too many arguments in a switching call")
        row = {p: _norm(ast.unparse(a)) for p, a in zip(pos, call.args)}
        for k in call.keywords:
            if k.arg not in pos or k.arg in row:
                raise StaleContract(f"keyword {k.arg!r} in a switching call")
            row[k.arg] = _norm(ast.unparse(k.value))
        for p in pos:
            if p not in row:
                if p not in defaults:
                    raise StaleContract(f"argument {p!r} missing in a switching call")
                row[p] = _norm(ast.unparse(defaults[p]))
        return row

    def verify(self, c, fdef, classctx=None):
        from . import extract
        callees = list(c.extra["callees"])
        defs = {}
        for cal in callees:
            if cal.startswith("self."):
                if classctx is None:
                    raise StaleContract(f"{c.qualname}: not a method")
                found = [n for n in classctx.body if isinstance(n, ast.FunctionDef) and n.name == cal[5:]]
                if not found:
                    raise StaleContract(f"{c.qualname}: {cal} is not defined in the class")
                defs[cal] = (found[-1], True)
            else:
                defs[cal] = (extract.module(c.module).find(cal)[0], False)
        flag = c.extra.get("flag_attr", "active")
        direct = [n for n in ast.walk(fdef) if isinstance(n, ast.Attribute) and n.attr == flag]
        if direct:
            # the function reads / writes the flags itself (e.g. saves and restores them): a different design, not decided by this table
            raise StaleContract(f"{c.qualname}: handles `.{flag}` directly (line {direct[0].lineno}): outside the switch-table subset")
        rows, sites = [], set()
        for s in fdef.body:
            guard, inner = None, s
            if isinstance(s, ast.If) and not s.orelse and len(s.body) == 1 and isinstance(s.test, ast.Compare) and len(s.test.ops) == 1 \
                    and isinstance(s.test.ops[0], ast.IsNot) and isinstance(s.test.left, ast.Name) \
                    and isinstance(s.test.comparators[0], ast.Constant) and s.test.comparators[0].value is None:
                guard, inner = s.test.left.id, s.body[0]
            if isinstance(inner, ast.Expr) and isinstance(inner.value, ast.Call) and self._callee(inner.value) in callees:
                cal = self._callee(inner.value)
                rows.append((guard, cal, self._bind(inner.value, *defs[cal]), s.lineno))
                sites.add(id(inner.value))
        other = [n for n in ast.walk(fdef) if isinstance(n, ast.Call) and self._callee(n) in callees and id(n) not in sites]
        expected = list(c.extra["rows"])
        obls = []

        def emit(label, ok, lineno=0):
            obls.append(Obligation(f"{c.module}:{c.qualname}#switch:{label}", "post", [], z3.BoolVal(bool(ok)), c.qualname, lineno))
        for k, exp in enumerate(expected):
            got = rows[k][:3] if k < len(rows) else None
            eg, ec, ea = exp
            emit(f"{k}:{'if ' + eg + ' is not None: ' if eg else ''}{ec}({', '.join(f'{p}={v}' for p, v in ea.items())})",
                 got is not None and got[0] == eg and got[1] == ec and got[2] == ea, rows[k][3] if k < len(rows) else fdef.lineno)
        emit("no-further-switching-statement", len(rows) <= len(expected), rows[len(expected)][3] if len(rows) > len(expected) else 0)
        emit("no-switching-call-anywhere-else", not other, other[0].lineno if other else 0)
        if c.extra.get("split_at"):
            loops = [s for s in fdef.body if isinstance(s, (ast.For, ast.While)) and _norm(ast.unparse(s.iter if isinstance(s, ast.For) else s.test)) == _norm(c.extra["split_at"])]
            if len(loops) != 1:
                raise StaleContract(f"{c.qualname}: stepping loop `{c.extra['split_at']}` not found at the top level")
            ln, k0 = loops[0].lineno, c.extra["split"]
            emit("the-first-rows-precede-the-stepping-loop-the-others-follow-it",
                 all(r[3] < ln for r in rows[:k0]) and all(r[3] > loops[0].end_lineno for r in rows[k0:]), ln)
        return obls


class FieldCopyEngine:
    """obligations over a `copy()`-like method: the new object shares NO mutable state with the receiver.

    The state fields are read off the real constructor (`self.<f> = <dict / defaultdict(...) / list / set ...>` in __init__: every field
    initialised with a container).  In the verified method, for each of them there must be exactly one store  `new.<f> = deepcopy(self.<f>)`
    (`copy.deepcopy` accepted) on the object created by `new = <Class>()` and returned at the end, and no other store to `new.<f>`.
    One obligation per field, plus `created-fresh` and `returned`.  A shallow `.copy()`, a plain alias `new.f = self.f`, or a field
    left at its constructor value (nothing copied) each fail that field's obligation."""

    def __init__(self, registry, opts=None):
        self.reg = registry
        self.trivial_frames = 0

    def verify(self, c, fdef, classctx=None):
        if classctx is None:
            raise StaleContract(f"{c.qualname}: not a method")
        init = [n for n in classctx.body if isinstance(n, ast.FunctionDef) and n.name == "__init__"]
        if not init:
            raise StaleContract(f"{classctx.name}: no __init__")
        fields = []
        for st in ast.walk(init[0]):
            if isinstance(st, ast.Assign) and len(st.targets) == 1 and isinstance(st.targets[0], ast.Attribute) \
                    and isinstance(st.targets[0].value, ast.Name) and st.targets[0].value.id == "self" \
                    and isinstance(st.value, (ast.Dict, ast.List, ast.Set, ast.Call, ast.ListComp, ast.DictComp)):
                fields.append(st.targets[0].attr)
        if not fields:
            raise StaleContract(f"{classctx.name}.__init__: no container fields found")
        new = None
        for st in fdef.body:
            if isinstance(st, ast.Assign) and len(st.targets) == 1 and isinstance(st.targets[0], ast.Name) and isinstance(st.value, ast.Call) \
                    and isinstance(st.value.func, ast.Name) and st.value.func.id == classctx.name and not st.value.args and not st.value.keywords:
                new = st.targets[0].id
                break
        obls = []

        def emit(label, ok, lineno=0):
            obls.append(Obligation(f"{c.module}:{c.qualname}#copy:{label}", "frame", [], z3.BoolVal(bool(ok)), c.qualname, lineno))
        emit("created-fresh: new = " + classctx.name + "()", new is not None, fdef.lineno)
        if new is None:
            return obls
        stores = {}
        for st in ast.walk(fdef):
            tgts = st.targets if isinstance(st, ast.Assign) else ([st.target] if isinstance(st, (ast.AugAssign, ast.AnnAssign)) else [])
            for tg in tgts:
                if isinstance(tg, ast.Attribute) and isinstance(tg.value, ast.Name) and tg.value.id == new:
                    stores.setdefault(tg.attr, []).append(st)

        def is_deepcopy_of(val, f):
            if not (isinstance(val, ast.Call) and len(val.args) == 1 and not val.keywords):
                return False
            fn = val.func
            okfn = (isinstance(fn, ast.Name) and fn.id == "deepcopy") or (isinstance(fn, ast.Attribute) and fn.attr == "deepcopy"
                                                                       and isinstance(fn.value, ast.Name) and fn.value.id == "copy")
            a = val.args[0]
            return okfn and isinstance(a, ast.Attribute) and a.attr == f and isinstance(a.value, ast.Name) and a.value.id == "self"
        for f in fields:
            sts = stores.get(f, [])
            ok = len(sts) == 1 and isinstance(sts[0], ast.Assign) and is_deepcopy_of(sts[0].value, f)
            emit(f"{new}.{f} = deepcopy(self.{f}), stored once", ok, sts[0].lineno if sts else fdef.lineno)
        last = fdef.body[-1]
        emit("returned", isinstance(last, ast.Return) and isinstance(last.value, ast.Name) and last.value.id == new, last.lineno)
        return obls
