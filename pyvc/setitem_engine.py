"""Engine specialisation for the MUTATORS of xdeps/table.py (class invariant CacheOK across Table.__setitem__, C07).

On top of the table engine (read-only data) this adds what the mutators use:
  self._data[k] = v,  self._data[k][:] = v,  col = self._data[k]; col[idx] = v
        : a store into column k gives a NEW data value D' whose other columns are those of D
          (forall k' != k. col_len(D', k') == col_len(D, k') and col_arr(D', k') == col_arr(D, k')); the stored column's
          content is unconstrained.  A column bound to a local name remembers where it came from, so a store through
          the alias reaches self._data (the aliasing the real code relies on).  A store that raises leaves the data
          unchanged (trusted: numpy converts before it writes).
  key / val / row : opaque values; isinstance(x, str|tuple|slice|list) are uninterpreted predicates (string literals are str);
          `col, row = key` unpacks an opaque pair (ValueError otherwise); key[0] is its first component
  key in self.__dict__      : uninterpreted predicate of the key
  object.__setattr__(self, key, val) with a COMPUTED name: case split over the declared fields of the record type; the
          contract's precondition says which private names are not part of the API
  key in self._col_names, self._col_names.append(key), hasattr, len of opaque values : opaque
  self.<m>(...) for m in contract.extra['opaque_self_calls'] : one uniform weak contract  "requires CacheOK; ensures CacheOK;
          modifies only the cache fields; may raise" -- implied by the proved contracts of _get_cache / _get_row_cache_raise,
          assumed for the others (listed per contract)
"""
import ast
import z3

from .engine import *          # noqa
from .engine import Engine, Ctx, Outcome, BoundMethod, PyExc, none_term, str_term
from .values import *          # noqa
from .table_engine import TableEngine, PyData, TData, pair, pair_fst, pair_snd, is_pair, col_len, col_arr, Vs_t, has_col, data_store

is_type = {n: z3.Function(f"py_isinstance_{n}", V, BoolS) for n in ("str", "tuple", "slice", "list", "int")}
in_attrs = z3.Function("py_in_instance_dict", V, BoolS)


class PyColumn(PySeq):
    """a column of self._data that remembers its key: stores through it reach the data"""

    def __init__(self, n, arr, key, axioms=None):
        super().__init__(n, arr, TV, axioms or [n >= 0])
        self.key = key

    def py_getitem(self, cx, i):
        if not isinstance(i, PyInt):
            # col[idx] with an opaque selector (array of positions, slice, mask): an arbitrary value, or an exception
            cx.raise_if(FreshConst(BoolS, "subscript_raises"), "UserError")
            return PyObj(FreshConst(V, "cells"))
        return super().py_getitem(cx, i)

    def py_setitem(self, cx, idx, v):
        n = FreshConst(IntS, "stored_len")
        return PyColumn(n, FreshConst(z3.ArraySort(IntS, V), "stored_col"), self.key, [n >= 0])


class SetitemEngine(TableEngine):
    def verify(self, contract, fdef, classctx=None):
        allowed = contract.extra.get("data_writers")
        if allowed is not None and classctx is not None:
            # the class invariant is carried by the methods under contract: every syntactic store into <x>._data / rebinding of
            # <x>._index in the module must sit in one of them (a new mutator needs its own contract: the proof is stale, not refuted)
            from . import extract
            tree = extract.module(contract.module).tree
            owner = {}
            for cls in [n for n in ast.walk(tree) if isinstance(n, ast.ClassDef)]:
                for fn in [n for n in cls.body if isinstance(n, ast.FunctionDef)]:
                    for sub in ast.walk(fn):
                        owner[id(sub)] = f"{cls.name}.{fn.name}"

            def is_data(x):
                return isinstance(x, ast.Attribute) and x.attr == "_data"
            for n in ast.walk(tree):
                tg = []
                if isinstance(n, (ast.Assign, ast.Delete)):
                    tg = n.targets
                elif isinstance(n, (ast.AugAssign, ast.AnnAssign)):
                    tg = [n.target]
                elif isinstance(n, ast.Call) and isinstance(n.func, ast.Attribute) and is_data(n.func.value) and \
                        n.func.attr in ("pop", "update", "clear", "setdefault", "popitem", "__setitem__", "__delitem__"):
                    tg = [n.func]
                for t in tg:
                    base = t
                    hit = False
                    while isinstance(base, (ast.Subscript, ast.Attribute)):
                        if isinstance(base, ast.Subscript) and is_data(base.value):
                            hit = True
                        if isinstance(base, ast.Attribute) and base.attr in ("_index",) and isinstance(base.ctx, (ast.Store, ast.Del)):
                            hit = True
                        if is_data(base) and isinstance(n, ast.Call):
                            hit = True
                        base = base.value
                    if hit and owner.get(id(n), "<module>") not in allowed:
                        raise StaleContract(f"{contract.qualname}: {owner.get(id(n), '<module>')} (line {n.lineno}) stores into a table's data "
                                            "but is not among the methods that carry the class invariant")
        return super().verify(contract, fdef, classctx)

    # ---- values ---------------------------------------------------------------------------------------------------
    def as_term(self, v):
        if isinstance(v, PyObj):
            return v.t
        if isinstance(v, PyStr):
            return str_term(v.s)
        raise Unsupported("opaque term of " + type(v).__name__)

    def isinstance_hook(self, v, clsnode, cx):
        if isinstance(clsnode, ast.Name) and clsnode.id in is_type:
            if isinstance(v, PyStr):
                return PyBool(z3.BoolVal(clsnode.id == "str"))
            if isinstance(v, PyObj):
                return PyBool(is_type[clsnode.id](v.t))
            if isinstance(v, PyTuple):
                return PyBool(z3.BoolVal(clsnode.id == "tuple"))
        raise Unsupported("isinstance form")

    def builtin_hasattr(self, e, cx):
        for a in e.args:
            self.eval(a, cx)
        return PyBool(FreshConst(BoolS, "hasattr"))

    def builtin_len(self, e, cx):
        v = self.eval(e.args[0], cx)
        if isinstance(v, (PyObj, PyRec)):
            n = FreshConst(IntS, "len")
            cx.assume(n >= 0)
            return PyInt(n)
        return super().builtin_len(e, cx)

    def getattr(self, obj, attr, cx, node=None):
        if isinstance(obj, PyRec) and attr == "__dict__":
            return PyInstanceDict()
        return super().getattr(obj, attr, cx, node)

    def compare(self, op, a, b, cx, node):
        if isinstance(op, (ast.In, ast.NotIn)):
            if isinstance(b, PyInstanceDict):
                r = in_attrs(self.as_term(a))
                return r if isinstance(op, ast.In) else z3.Not(r)
            if isinstance(b, PyObj):
                r = FreshConst(BoolS, "contains")
                return r if isinstance(op, ast.In) else z3.Not(r)
        return super().compare(op, a, b, cx, node)

    def unpack(self, v, n, cx):
        if isinstance(v, PyObj) and n == 2:
            cx.raise_if(z3.Not(is_pair(v.t)), "ValueError")
            return [PyObj(pair_fst(v.t)), PyObj(pair_snd(v.t))]
        return super().unpack(v, n, cx)

    def getitem_hook(self, obj, idx, cx, node):
        if isinstance(obj, PyObj) and isinstance(idx, PyInt) and z3.is_int_value(idx.t) and idx.t.as_long() == 0:
            # key[0] of an opaque tuple: its first component (IndexError on the empty tuple)
            cx.raise_if(z3.Not(is_pair(obj.t)), "IndexError")
            return PyObj(pair_fst(obj.t))
        if isinstance(obj, PyObj):
            # any other subscript of an opaque value: an arbitrary value, or an exception
            cx.raise_if(FreshConst(BoolS, "subscript_raises"), "UserError")
            return PyObj(FreshConst(V, "item"))
        return super().getitem_hook(obj, idx, cx, node)

    def iterate(self, v, cx):
        if isinstance(v, PyObj):
            # an opaque list (the column names): some finite enumeration of opaque elements
            n = FreshConst(IntS, "n_items")
            el = z3.Function("py_list_item", V, IntS, V)
            t = v.t
            return PyEnum(n, lambda j: el(t, j), TV, axioms=[n >= 0])
        return super().iterate(v, cx)

    def eval_List(self, e, cx):
        if not any(isinstance(it, ast.Subscript) for it in e.elts):
            return super().eval_List(e, cx)
        else:
            # a list of columns / cells handed to numpy: only the evaluation of its elements matters
            for it in e.elts:
                self.eval(it, cx)
            return PyObj(FreshConst(V, "list"))

    def val_ite(self, c, a, b, cx):
        if {type(a), type(b)} == {PyBool, PyObj}:
            # `flag or opaque` / `flag and opaque`: only its truth value is used afterwards
            return PyBool(z3.If(c, self.truth(a, cx), self.truth(b, cx)))
        return super().val_ite(c, a, b, cx)

    def truth_hook(self, v, cx):
        if isinstance(v, PyObj):
            return FreshConst(BoolS, "truth")
        return super().truth_hook(v, cx)

    def eval_Subscript(self, e, cx):
        if isinstance(e.value, ast.Attribute) and isinstance(e.value.value, ast.Name) and e.value.value.id == "np" and "np" not in cx.st.env:
            # np.r_[a, b] and friends: a new array built from the operands
            self.eval(e.slice, cx)
            return PyObj(FreshConst(V, "nparray"), "ndarray")
        obj = self.eval(e.value, cx)
        if isinstance(obj, PyData):
            k = self.as_term(self.eval(e.slice, cx))
            cx.raise_if(z3.Not(has_col(obj.t, k)), "KeyError")
            n = col_len(obj.t, k)
            cx.assume(n >= 0)
            return PyColumn(n, col_arr(obj.t, k), k)
        return super().eval_Subscript(e, cx)

    def eval_Slice(self, e, cx):
        for part in (e.lower, e.upper, e.step):
            if part is not None:
                self.eval(part, cx)
        return PyObj(FreshConst(V, "slice"))

    def eval_index(self, sl, cx):
        if isinstance(sl, ast.Slice):
            return self.eval_Slice(sl, cx)
        return super().eval_index(sl, cx)

    # ---- stores ---------------------------------------------------------------------------------------------------
    def assign(self, tgt, v, cx, rebind=False):
        if isinstance(tgt, ast.Subscript):
            obj = self.eval(tgt.value, cx)
            if isinstance(obj, PyColumn):
                # a store through a column (self._data[k][...] = v, or an alias of it): it may raise (shape, index, conversion)
                # BEFORE anything is written; afterwards column obj.key of self._data has new content
                self.eval_index(tgt.slice, cx)
                cx.raise_if(FreshConst(BoolS, "store_raises"), "UserError")
                me = cx.st.env["self"]
                cx.st.env["self"] = me.with_field("_data", data_store(me.fields["_data"], obj.key, cx))
                if isinstance(tgt.value, ast.Name):
                    cx.st.env[tgt.value.id] = obj.py_setitem(cx, None, v)
                return
            if isinstance(obj, PyData):
                k = self.as_term(self.eval_index(tgt.slice, cx))
                new = data_store(obj, k, cx)
                cx.assume(has_col(new.t, k))
                return Engine.assign(self, tgt.value, new, cx)
        return super().assign(tgt, v, cx, rebind=rebind)

    # ---- calls ----------------------------------------------------------------------------------------------------
    def call_method(self, recv, name, e, cx, recv_node):
        if isinstance(recv_node, ast.Name) and recv_node.id == "object" and name == "__setattr__" and "object" not in cx.st.env \
                and not isinstance(e.args[1], ast.Constant):
            return self.setattr_computed(e, cx)
        if isinstance(recv, PyRec) and name in self.c.extra.get("opaque_self_calls", ()):
            return self.opaque_self_call(recv, name, e, cx, recv_node)
        if isinstance(recv, PyObj) and isinstance(recv_node, ast.Attribute) and isinstance(recv_node.value, ast.Name) \
                and recv_node.value.id == "self" and name in ("append", "remove"):
            # self._col_names.append(key): the list of column names is opaque
            for a in e.args:
                self.eval(a, cx)
            me = cx.st.env["self"]
            cx.st.env["self"] = me.with_field(recv_node.attr, PyObj(FreshConst(V, recv_node.attr)))
            return PyNone()
        return super().call_method(recv, name, e, cx, recv_node)

    def setattr_computed(self, e, cx):
        """object.__setattr__(self, key, val) with a computed attribute name: one case per declared field"""
        tgt, fld, val = e.args
        if not (isinstance(tgt, ast.Name) and tgt.id == "self"):
            raise Unsupported("object.__setattr__ on another object")
        k = self.as_term(self.eval(fld, cx))
        v = self.eval(val, cx)
        me = cx.st.env["self"]
        fields = dict(me.fields)
        n = self.call_ord.setdefault(id(e), len(self.call_ord))
        for fname, cur in me.fields.items():
            hit = k == str_term(fname)
            if isinstance(cur, PyNone):
                cur = PyObj(none_term())
            if isinstance(cur, PyObj):
                # (named by a constant: terms with `if` cannot occur in quantifier patterns)
                nv = FreshConst(V, "field_" + fname)
                cx.assume(nv == z3.If(hit, self.as_term(v) if isinstance(v, (PyObj, PyStr)) else FreshConst(V, "stored"), cur.t))
                fields[fname] = PyObj(nv, cur.cls)
            else:
                # a structured private field (the data, the caches): the API never names it -- proved from the precondition
                self.emit(f"setattr#{n}:never-names-private-field:{fname}", "assert", cx.st, z3.Not(hit), e.lineno)
        cx.st.env["self"] = PyRec(me.cls, fields, me.ty)
        return PyNone()

    def opaque_self_call(self, recv, name, e, cx, recv_node):
        inv = self.c.extra["class_invariant"]
        for a in e.args:
            self.eval(a.value if isinstance(a, ast.Starred) else a, cx)
        for kw in e.keywords:
            self.eval(kw.value, cx)
        st = cx.st
        n = self.call_ord.setdefault(id(e), len(self.call_ord))
        self.emit(f"pre@call:{name}#{n}:class-invariant", "pre@call", st, inv(st.env["self"]), e.lineno)
        me = st.env["self"]
        fields = dict(me.fields)
        for f in self.c.extra.get("cache_fields", ()):
            fields[f] = self.fresh_like(me.fields[f], f"{name}_{f}")
        new = PyRec(me.cls, fields, me.ty)
        st.env["self"] = new
        for f in self.c.extra.get("cache_fields", ()):
            for ax in getattr(fields[f], "axioms", []) or []:
                cx.assume(ax)
        cx.assume(inv(new))
        cx.raise_if(FreshConst(BoolS, f"{name}_raises"), "UserError")
        kind = self.c.extra.get("opaque_results", {}).get(name)
        if kind == "cache-pair":
            ic, cc = new.fields["_index_cache"], new.fields["_count_cache"]
            # _get_cache: returns the (present) cache fields
            cx.assume(z3.Not(ic.is_none))
            cx.assume(z3.Not(cc.is_none))
            return PyTuple([ic.value, cc.value])
        if kind == "triple":
            return PyTuple([PyObj(FreshConst(V, "name")), PyObj(FreshConst(V, "count")), PyObj(FreshConst(V, "offset"))])
        return PyObj(FreshConst(V, name))


class PyInstanceDict(Val):
    """self.__dict__ : only membership tests"""
