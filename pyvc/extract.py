"""pyvc.extract -- mechanical extraction of functions from /repo's working tree.

Nothing is cached: every run re-reads and re-parses the real source file.  The
function is selected by qualified name; what is dropped is exactly: docstrings,
comments, annotations (by virtue of going through `ast`), decorators
(interpreted by the engine), logger/print/_print calls and `if verbose:` blocks
that only print (engine._is_dropped_*).
"""
import ast
import hashlib
import os

REPO = os.environ.get("XDEPS_REPO", "/repo")


class SourceModule:
    def __init__(self, relpath, repo=None):
        self.relpath = relpath
        self.path = os.path.join(repo or REPO, relpath)
        with open(self.path) as fh:
            self.text = fh.read()
        self.tree = ast.parse(self.text, filename=self.path)
        self.lines = self.text.splitlines()

    def find(self, qualname):
        """-> (FunctionDef, ClassDef|None) or raises KeyError"""
        parts = qualname.split(".")
        body = self.tree.body
        cls = None
        for i, p in enumerate(parts):
            found = None
            for node in body:
                if isinstance(node, (ast.FunctionDef, ast.ClassDef)) and node.name == p:
                    found = node
            if found is None:
                raise KeyError(f"{self.relpath}: {qualname} not found")
            if isinstance(found, ast.ClassDef):
                cls = found
                body = found.body
            else:
                if i != len(parts) - 1:
                    raise KeyError(qualname)
                return found, cls
        raise KeyError(f"{qualname} is a class")

    def classdef(self, name):
        for node in self.tree.body:
            if isinstance(node, ast.ClassDef) and node.name == name:
                return node
        raise KeyError(name)

    def classes(self):
        return [n for n in self.tree.body if isinstance(n, ast.ClassDef)]

    def span(self, node):
        start = min([node.lineno] + [d.lineno for d in getattr(node, "decorator_list", [])])
        return start, node.end_lineno

    def text_of(self, node):
        a, b = self.span(node)
        return "\n".join(self.lines[a - 1:b])

    def sha(self, node):
        return hashlib.sha256(self.text_of(node).encode()).hexdigest()[:16]


_cache = {}


def module(relpath, repo=None):
    key = (repo or REPO, relpath)
    if key not in _cache:
        _cache[key] = SourceModule(relpath, repo)
    return _cache[key]


def reset():
    _cache.clear()
