"""Engine specialisation for the update protocol of xdeps/tasks.py (C17, C18, C02 at set_value level).

Adds to the core engine exactly what the protocol methods of Manager use:
  isinstance(x, BaseRef)      -> uninterpreted predicate is_ref(x)
  defaultdict(RefCount)       -> the empty index map
  dict.values()               -> enumeration of the values along an arbitrary key order
  for a, b in seq-of-pairs    -> uninterpreted projections of an opaque pair
  eval(text, globals, locals) -> opaque pure function of the text (may raise a user error)
  {...} literals, module names-> opaque values (their content is never inspected by the verified code)
  contract.extra["callee_contracts"][name] -> call-site specific (weaker, separately proved) callee contract
"""
import ast
import z3

from .engine import *          # noqa
from .engine import Engine, Ctx, Outcome, BoundMethod, PyExc, Star
from .values import *          # noqa

is_ref = z3.Function("is_ref", V, BoolS)
pair_fst = z3.Function("pair_fst", V, V)
pair_snd = z3.Function("pair_snd", V, V)
py_eval = z3.Function("py_eval", V, V)
py_eval_ok = z3.Function("py_eval_ok", V, BoolS)


py_eq_obj = z3.Function("py_eq_objects", V, V, BoolS)     # a == b on user objects / references: whatever their __eq__ says
py_has_attr = z3.Function("py_hasattr", V, V, BoolS)
py_get_attr = z3.Function("py_getattr", V, V, V)


class TasksEngine(Engine):
    def py_eq(self, a, b, cx):
        if isinstance(a, PyObj) and isinstance(b, PyObj) and not getattr(a, "is_key", False):
            # `==` between two objects is their __eq__ (references compare their PRINTED FORM): reflexive, otherwise unknown.
            # (membership / lookup in dicts and sets is modelled on the abstract key and does not go through here)
            return z3.Or(a.t == b.t, py_eq_obj(a.t, b.t))
        return super().py_eq(a, b, cx)

    def builtin_getattr(self, e, cx):
        """getattr(obj, "name"[, default]) on an opaque object"""
        if len(e.args) not in (2, 3) or not isinstance(e.args[1], ast.Constant) or not isinstance(e.args[1].value, str):
            raise Unsupported("getattr form")
        obj = self.eval(e.args[0], cx)
        if not isinstance(obj, PyObj):
            raise Unsupported("getattr on " + type(obj).__name__)
        name = e.args[1].value
        f = self.reg.field(obj.cls, name) if obj.cls else None
        val = f.read(obj, cx).t if f is not None else py_get_attr(obj.t, str_term(name))
        has = py_has_attr(obj.t, str_term(name))
        if len(e.args) == 2:
            cx.raise_if(z3.Not(has), "AttributeError")
            return PyObj(val)
        dflt = self.eval(e.args[2], cx)
        if isinstance(dflt, PyNone):
            return PyObj(z3.If(has, val, none_term()))
        if isinstance(dflt, PyObj):
            return PyObj(z3.If(has, val, dflt.t))
        raise Unsupported("getattr default")

    def isinstance_hook(self, v, clsnode, cx):
        if isinstance(clsnode, ast.Name) and clsnode.id == "BaseRef" and isinstance(v, PyObj):
            return PyBool(is_ref(v.t))
        raise Unsupported("isinstance form")

    def global_name(self, name, cx, node):
        if name in ("math", "RefCount"):
            return PyObj(z3.Const("py_global_" + name, V))
        return super().global_name(name, cx, node)

    def eval_Dict(self, e, cx):
        for v in e.values:
            self.eval(v, cx)
        if not e.keys:
            return PyMap.empty()
        return PyObj(FreshConst(V, "dictlit"))

    def builtin_defaultdict(self, e, cx):
        if len(e.args) == 1 and isinstance(e.args[0], ast.Name) and e.args[0].id == "RefCount":
            return PyDDict.empty()
        raise Unsupported("defaultdict form")

    def builtin_eval(self, e, cx):
        args = [self.eval(a, cx) for a in e.args]
        src = args[0]
        if not isinstance(src, PyObj):
            raise Unsupported("eval of a non-opaque text")
        # evaluating user-supplied text may raise anything: a user error, the data untouched
        cx.raise_if(z3.Not(py_eval_ok(src.t)), "UserError")
        return PyObj(py_eval(src.t))

    def unpack(self, v, n, cx):
        if isinstance(v, PyObj) and n == 2:
            return [PyObj(pair_fst(v.t)), PyObj(pair_snd(v.t))]
        return super().unpack(v, n, cx)

    def call_method(self, recv, name, e, cx, recv_node):
        ov = self.c.extra.get("callee_contracts", {}).get(name)
        if ov is not None:
            args, kwargs = self.eval_args(e, cx)
            return self.call_contract(ov, [recv] + args, kwargs, cx, e, arg_nodes=[recv_node] + list(e.args))
        return super().call_method(recv, name, e, cx, recv_node)


# ---- generated-source functions (mk_fun): keyword dictionaries, f-strings and joins as uninterpreted terms -----------------
kw_key = z3.Function("kwargs_key_at", V, IntS, V)
kw_val = z3.Function("kwargs_value_at", V, IntS, V)
kw_n = z3.Function("kwargs_len", V, IntS)
str_join = z3.Function("str_join", V, IntS, z3.ArraySort(IntS, V), V)       # separator, number of parts, parts -> text
keys_join = z3.Function("str_join_keys", V, V, V)                           # separator, kwargs -> text
_FSTR = {}


def fstring_fn(template, arity):
    key = (template, arity)
    if key not in _FSTR:
        _FSTR[key] = z3.Function(f"fstring[{template}]", *([V] * arity + [V]))
    return _FSTR[key]


class TKwargsCls(Ty):
    def sort(self):
        return V

    def wrap(self, term):
        return PyKwargs(term)


class PyKwargs(Val):
    """**kwargs: an insertion-ordered dict; keys(), values() and items() enumerate the SAME order"""
    ty = TKwargsCls()

    def __init__(self, term):
        self.t = term
        self.axioms = [kw_n(term) >= 0]

    def same(self, other):
        return self.t == other.t

    def ident(self, other):
        return isinstance(other, PyKwargs) and self.t.eq(other.t)

    def _enum(self, what):
        t = self.t
        if what == "keys":
            en = PyEnum(kw_n(t), lambda j: kw_key(t, j), TV, axioms=[kw_n(t) >= 0])
        elif what == "values":
            en = PyEnum(kw_n(t), lambda j: kw_val(t, j), TV, axioms=[kw_n(t) >= 0])
        else:
            en = PyEnum(kw_n(t), lambda j: j, TInt, axioms=[kw_n(t) >= 0])
            en.kwitems = t
        en.kwargs = t
        return en

    def m_keys(self, cx):
        return self._enum("keys"), None

    def m_values(self, cx):
        return self._enum("values"), None

    def m_items(self, cx):
        return self._enum("items"), None


TKwargs = TKwargsCls()


class SourceGenEngine(TasksEngine):
    def eval_JoinedStr(self, e, cx):
        parts, tpl = [], []
        for v in e.values:
            if isinstance(v, ast.FormattedValue):
                val = self.eval(v.value, cx)
                if not isinstance(val, PyObj):
                    raise Unsupported("f-string part " + type(val).__name__)
                parts.append(val.t)
                tpl.append("{" + {-1: "", 115: "!s", 114: "!r", 97: "!a"}[v.conversion] + "}")
            else:
                tpl.append(v.value)
        return PyObj(fstring_fn("".join(tpl), len(parts))(*parts))

    def loop_elem(self, it, k, s):
        if getattr(it, "kwitems", None) is not None:
            return PyTuple([PyObj(kw_key(it.kwitems, k)), PyObj(kw_val(it.kwitems, k))])
        return super().loop_elem(it, k, s)

    def unpack(self, v, n, cx):
        if isinstance(v, PyTuple):
            return Engine.unpack(self, v, n, cx)
        return super().unpack(v, n, cx)

    def eval_Constant(self, e, cx):
        if isinstance(e.value, str):
            return PyStr(e.value)
        return super().eval_Constant(e, cx)

    def call_method(self, recv, name, e, cx, recv_node):
        if isinstance(recv, PyStr) and name == "join" and len(e.args) == 1:
            arg = self.eval(e.args[0], cx)
            sep = z3.Const("str:" + repr(recv.s), V)
            if isinstance(arg, PySeq):
                cx.st.env["@joined_lines"] = arg
                return PyObj(str_join(sep, arg.n, arg.arr))
            if isinstance(arg, PyEnum) and getattr(arg, "kwargs", None) is not None:
                return PyObj(keys_join(sep, arg.kwargs))
            raise Unsupported("join of " + type(arg).__name__)
        return super().call_method(recv, name, e, cx, recv_node)
