"""Engine specialisation for the update protocol of xdeps/tasks.py (C17, C18, C02 at set_value level).

Adds to the core engine exactly what the protocol methods of Manager use:
  isinstance(x, BaseRef)      -> uninterpreted predicate is_ref(x)
  defaultdict(RefCount)       -> the empty index map
  dict.values()               -> enumeration of the values along an arbitrary key order
  for a, b in seq-of-pairs    -> uninterpreted projections of an opaque pair
  eval(text, globals, locals) -> opaque pure function of the text (may raise a user error)
  {...} literals, module names-> opaque values (their content is never inspected by the verified code)
  contract.extra["callee_contracts"][name] -> call-site specific (weaker, separately proved) callee contract
"""
import ast
import z3

from .engine import *          # noqa
from .engine import Engine, Ctx, Outcome, BoundMethod, PyExc, Star
from .values import *          # noqa

is_ref = z3.Function("is_ref", V, BoolS)
pair_fst = z3.Function("pair_fst", V, V)
pair_snd = z3.Function("pair_snd", V, V)
py_eval = z3.Function("py_eval", V, V)
py_eval_ok = z3.Function("py_eval_ok", V, BoolS)


class TasksEngine(Engine):
    def isinstance_hook(self, v, clsnode, cx):
        if isinstance(clsnode, ast.Name) and clsnode.id == "BaseRef" and isinstance(v, PyObj):
            return PyBool(is_ref(v.t))
        raise Unsupported("isinstance form")

    def global_name(self, name, cx, node):
        if name in ("math", "RefCount"):
            return PyObj(z3.Const("py_global_" + name, V))
        return super().global_name(name, cx, node)

    def eval_Dict(self, e, cx):
        for v in e.values:
            self.eval(v, cx)
        if not e.keys:
            return PyObj(z3.Const("py_empty_dict", V))
        return PyObj(FreshConst(V, "dictlit"))

    def builtin_defaultdict(self, e, cx):
        if len(e.args) == 1 and isinstance(e.args[0], ast.Name) and e.args[0].id == "RefCount":
            return PyDDict.empty()
        raise Unsupported("defaultdict form")

    def builtin_eval(self, e, cx):
        args = [self.eval(a, cx) for a in e.args]
        src = args[0]
        if not isinstance(src, PyObj):
            raise Unsupported("eval of a non-opaque text")
        # evaluating user-supplied text may raise anything: a user error, the data untouched
        cx.raise_if(z3.Not(py_eval_ok(src.t)), "UserError")
        return PyObj(py_eval(src.t))

    def unpack(self, v, n, cx):
        if isinstance(v, PyObj) and n == 2:
            return [PyObj(pair_fst(v.t)), PyObj(pair_snd(v.t))]
        return super().unpack(v, n, cx)

    def call_method(self, recv, name, e, cx, recv_node):
        ov = self.c.extra.get("callee_contracts", {}).get(name)
        if ov is not None:
            args, kwargs = self.eval_args(e, cx)
            return self.call_contract(ov, [recv] + args, kwargs, cx, e, arg_nodes=[recv_node] + list(e.args))
        return super().call_method(recv, name, e, cx, recv_node)
