"""Engine specialisation for xdeps/table.py (row-name cache functions, C07).

Model (numpy-lite, only what the verified functions use):
  self._data            : opaque mapping (sort V); self._data[k] is the column view (len, Int->V array) given by the
                          uninterpreted col_len / col_arr of (data, k): columns are read-only in the verified functions
  dict keyed by tuples  : a 2-tuple key (a, b) is the term pair(a, int_as_v(b)) -- pair is injective (axiom)
  enumerate(seq)        : index/element pairs
  dict.items()          : arbitrary duplicate-free enumeration of the keys, value read at the start of the loop
                          (the verified loop updates only the value of the key it is visiting)
  np.zeros(...), f-strings, x[i] = v on a local numpy array : opaque (the unique-label array is outside the contract)
  object.__setattr__(self, "f", v) : field store
"""
import ast
import z3

from .engine import *          # noqa
from .engine import Engine, Ctx, Outcome, BoundMethod, PyExc, none_term
from .values import *          # noqa

pair = z3.Function("py_pair", V, V, V)
pair_fst = z3.Function("py_pair_fst", V, V)
pair_snd = z3.Function("py_pair_snd", V, V)
is_pair = z3.Function("py_is_pair", V, BoolS)
int_v = z3.Function("py_int_obj", IntS, V)
v_int = z3.Function("py_int_of", V, IntS)
col_len = z3.Function("col_len", V, V, IntS)
col_arr = z3.Function("col_arr", V, V, z3.ArraySort(IntS, V))


def pair_axioms():
    a, b = z3.Consts("a!pr b!pr", V)
    n = z3.Int("n!pr")
    return [z3.ForAll([a, b], z3.And(pair_fst(pair(a, b)) == a, pair_snd(pair(a, b)) == b, is_pair(pair(a, b))),
                      patterns=[pair(a, b)]),
            z3.ForAll([n], v_int(int_v(n)) == n, patterns=[int_v(n)])]


class TDataCls(Ty):
    def sort(self):
        return V

    def wrap(self, term):
        return PyData(term)


class PyData(Val):
    """Table._data: name -> column array (read-only view)"""
    ty = TDataCls()

    def __init__(self, term):
        self.t = term

    def same(self, other):
        return self.t == other.t

    def ident(self, other):
        return isinstance(other, PyData) and self.t.eq(other.t)

    def col(self, k):
        k = Vs_t(k)
        n = col_len(self.t, k)
        return PySeq(n, col_arr(self.t, k), TV, [n >= 0])

    def py_getitem(self, cx, k):
        c = self.col(k)
        for ax in c.axioms:
            cx.assume(ax)
        return c


has_col = z3.Function("data_has_column", V, V, BoolS)


def data_store(data, key, cx):
    """-> PyData after a store into column `key` (other columns unchanged)"""
    d2 = FreshConst(V, "data")
    kk = z3.Const("kk!ds", V)
    cx.assume(z3.ForAll([kk], z3.Implies(kk != key, z3.And(col_len(d2, kk) == col_len(data.t, kk), col_arr(d2, kk) == col_arr(data.t, kk),
                                                             has_col(d2, kk) == has_col(data.t, kk))),
                        patterns=[col_arr(d2, kk)]))
    cx.assume(z3.ForAll([kk], z3.Implies(kk != key, col_len(d2, kk) == col_len(data.t, kk)), patterns=[col_len(d2, kk)]))
    return PyData(d2)


def _key_term(k):
    from .engine import str_term
    if isinstance(k, PyStr):
        return str_term(k.s)
    return Vs_t(k)


def _data_delitem(self, cx, k):
    """del data[k]: KeyError when the column is missing; the other columns stay"""
    kt = _key_term(k)
    cx.raise_if(z3.Not(has_col(self.t, kt)), "KeyError")
    new = data_store(self, kt, cx)
    cx.assume(z3.Not(has_col(new.t, kt)))
    return new


def _data_pop(self, cx, k):
    new = _data_delitem(self, cx, k)
    return PyObj(FreshConst(V, "popped")), new


PyData.py_delitem = _data_delitem
PyData.m_pop = _data_pop


def Vs_t(x):
    return x.t if isinstance(x, Val) else x


TData = TDataCls()


class PyEnumerate(PyEnum):
    pass


class PyEmptyDict(Val):
    """`{}` before its type is known (typed by contract.extra['local_types'] at the assignment)"""


class TableEngine(Engine):
    def key_of(self, v, cx=None):
        """tuple keys of dicts as pair terms"""
        if isinstance(v, PyTuple) and len(v.items) == 2:
            def comp(a):
                if isinstance(a, PyObj):
                    return a.t
                if isinstance(a, PyInt):
                    return int_v(a.t)
                if isinstance(a, PyOpt) and isinstance(a.value, PyInt):
                    return z3.If(a.is_none, none_term(), int_v(a.value.t))
                raise Unsupported("tuple key component " + type(a).__name__)
            term = pair(comp(v.items[0]), comp(v.items[1]))
            if cx is not None and not all(z3.is_const(ch) or (z3.is_app(ch) and all(z3.is_const(g) for g in ch.children()))
                                          for ch in term.children()):
                # name compound keys: map terms built from them stay usable inside quantifier patterns
                kc = FreshConst(V, "key")
                cx.assume(kc == term)
                term = kc
            return PyObj(term)
        return v

    def eval_Dict(self, e, cx):
        if e.keys:
            raise Unsupported("non-empty dict literal")
        return PyEmptyDict()

    def assign(self, tgt, v, cx, rebind=False):
        if isinstance(v, PyEmptyDict):
            ty = self.c.extra.get("local_types", {}).get(tgt.id if isinstance(tgt, ast.Name) else None)
            if ty is None:
                raise Unsupported("empty dict literal without a declared local type")
            v = PyMap.empty(ty.valty)
        if isinstance(tgt, ast.Attribute):
            obj = self.eval(tgt.value, cx)
            if isinstance(obj, PyRec) and tgt.attr in obj.ty.fields:
                v = self.coerce(v, obj.ty.fields[tgt.attr], cx, f"field {tgt.attr}")
        return super().assign(tgt, v, cx, rebind=rebind)

    def eval_index(self, sl, cx):
        return self.key_of(self.eval(sl, cx), cx)

    def eval_args(self, e, cx):
        args, kwargs = super().eval_args(e, cx)
        return [self.key_of(a, cx) for a in args], kwargs

    def eval_JoinedStr(self, e, cx):
        for v in e.values:
            if isinstance(v, ast.FormattedValue):
                self.eval(v.value, cx)
        return PyObj(FreshConst(V, "fstring"))

    def builtin_enumerate(self, e, cx):
        src = self.iterate(self.eval(e.args[0], cx), cx)
        en = PyEnumerate(src.n, src.at_, src.elty, axioms=src.axioms)
        en.inner = src
        return en

    def loop_elem(self, it, k, s):
        if isinstance(it, PyEnumerate):
            return PyTuple([PyInt(k), it.inner.elem(k)])
        if getattr(it, "items_of", None) is not None:
            m = it.items_of
            key = it.at(k)
            return PyTuple([PyObj(key), m.valty.wrap(z3.Select(m.val, key))])
        return super().loop_elem(it, k, s)

    def call_method(self, recv, name, e, cx, recv_node):
        if isinstance(recv_node, ast.Name) and recv_node.id == "object" and name == "__setattr__" and "object" not in cx.st.env:
            tgt, fld, val = e.args
            if not isinstance(fld, ast.Constant):
                raise Unsupported("object.__setattr__ with a computed name")
            store = ast.Attribute(value=ast.Name(id=tgt.id, ctx=ast.Load()), attr=fld.value, ctx=ast.Store())
            self.assign(store, self.eval(val, cx), cx)
            return PyNone()
        if isinstance(recv_node, ast.Name) and recv_node.id == "np" and "np" not in cx.st.env:
            for a in e.args:
                self.eval(a, cx)
            return PyObj(FreshConst(V, "nparray"), "ndarray")
        if isinstance(recv, PyMap) and name == "items" and not e.args:
            ke = enum_of_pred(lambda x: z3.Select(recv.dom, x), "items")
            ke.items_of = recv
            return ke
        return super().call_method(recv, name, e, cx, recv_node)

    def eval_Name(self, e, cx):
        if e.id in ("np", "object") and e.id not in cx.st.env:
            return PyObj(z3.Const("py_global_" + e.id, V))
        return super().eval_Name(e, cx)

    def setitem_hook(self, obj, idx, v, cx, node):
        if isinstance(obj, PyObj) and obj.cls == "ndarray":
            return          # store into a LOCAL array (created in this function): outside the contract
        return super().setitem_hook(obj, idx, v, cx, node)

    def binop_hook(self, op, a, b, cx, inplace, node):
        raise Unsupported(f"binary {type(op).__name__} on {type(a).__name__},{type(b).__name__}")

    def compare_hook(self, op, a, b, cx, node):
        raise Unsupported("comparison of opaque values")
