"""pyvc.contract -- registry of sidecar contracts and class facts."""
from .engine import Contract, LoopSpec  # noqa: F401


class FieldSpec:
    """immutable field of an opaque object, read through an uninterpreted function"""

    def __init__(self, cls, name, ty, fn):
        self.cls, self.name, self.ty, self.fn = cls, name, ty, fn

    def read(self, obj, cx):
        return self.fn(obj, cx)


class Registry:
    def __init__(self):
        self.by_key = {}
        self.functions = {}      # (module, name) -> Contract
        self.methods = {}        # (cls, name) -> Contract
        self.virtuals = {}       # method name -> Contract
        self.fields = {}         # (cls, name) -> FieldSpec
        self.bases = {}          # cls -> [base classes]
        self.exc_bases = {"KeyError": ["LookupError"], "IndexError": ["LookupError"],
                          "ZeroDivisionError": ["ArithmeticError"], "RecursionError": ["RuntimeError"]}

    def add(self, c):
        self.by_key[c.key] = c
        if "." in c.qualname:
            cls, name = c.qualname.rsplit(".", 1)
            self.methods[(cls, name)] = c
        else:
            self.functions[(c.module, c.qualname)] = c
        if c.virtual:
            self.virtuals[c.virtual] = c
        return c

    def add_field(self, cls, name, ty, fn):
        self.fields[(cls, name)] = FieldSpec(cls, name, ty, fn)

    def mro(self, cls):
        out, todo = [], [cls]
        while todo:
            c = todo.pop(0)
            if c in out:
                continue
            out.append(c)
            todo += self.bases.get(c, [])
        return out

    def field(self, cls, name):
        for c in self.mro(cls):
            if (c, name) in self.fields:
                return self.fields[(c, name)]
        return None

    def lookup_method(self, cls, name):
        for c in self.mro(cls):
            if (c, name) in self.methods:
                return self.methods[(c, name)]
        return None

    def lookup_function(self, module, name):
        c = self.functions.get((module, name))
        if c is not None:
            return c
        for (m, n), cc in self.functions.items():
            if n == name and cc.extra.get("importable"):
                return cc
        return None

    def lookup_virtual(self, name):
        return self.virtuals.get(name)

    def contracts_named(self, name):
        return [c for (cls, n), c in self.methods.items() if n == name] + \
               [c for (m, n), c in self.functions.items() if n == name]

    def exc_subclass(self, exc, base):
        todo = [exc]
        while todo:
            e = todo.pop()
            if e == base:
                return True
            todo += self.exc_bases.get(e, ["Exception"] if e not in ("Exception", "BaseException") else [])
        return False
