"""pyvc.run -- verify a set of contracts against the current /repo working tree."""
import importlib
import os
import sys
import time
import traceback

from . import extract
from .contract import Registry
from .engine import Engine, StaleContract
from .values import Unsupported, exc_distinct_axiom
from . import solve


class FuncReport:
    def __init__(self, c):
        self.contract = c
        self.status = "ok"          # ok | stale | unsupported | missing
        self.detail = ""
        self.obligations = []       # Obligation objects
        self.results = {}           # name -> dict
        self.span = None
        self.sha = None
        self.trivial_frames = 0
        self.synthetic = False

    @property
    def real(self):
        return [o for o in self.obligations if not o.expect_fail]

    @property
    def probes(self):
        return [o for o in self.obligations if o.expect_fail]

    def undischarged(self):
        return [o for o in self.real if self.results.get(o.name, {}).get("verdict") != "unsat"]

    def vacuous_probes(self):
        # a probe that IS provable means contradictory hypotheses
        # (a loop reached on several paths has one probe per path: it is vacuous only if no path reaches it)
        groups = {}
        for o in self.probes:
            base = o.name.split("[")[0] if o.name.endswith("]") else o.name
            groups.setdefault(base, []).append(o)
        out = []
        for base, os_ in groups.items():
            if all(self.results.get(o.name, {}).get("verdict") == "unsat" for o in os_):
                out += os_
        return out


def load_registry(modnames, engine_cls=Engine):
    reg = Registry()
    contracts = []
    for mn in modnames:
        mod = importlib.import_module(mn)
        if hasattr(mod, "setup"):
            mod.setup(reg)
        for c in mod.CONTRACTS:
            reg.add(c)
            contracts.append(c)
        # call-site specific variants: verified like any contract, but not the default at call sites
        for c in getattr(mod, "VARIANTS", []):
            contracts.append(c)
    return reg, contracts


def verify_all(reg, contracts, engine_cls=Engine, timeout_ms=10000, jobs=None, dump_dir=None, only=None,
               use_cvc5=True):
    extract.reset()
    reports = []
    allobls = []
    for c in contracts:
        if c.trusted:
            continue
        if only and c.qualname not in only:
            continue
        rep = FuncReport(c)
        reports.append(rep)
        try:
            sm = extract.module(c.module)
            fdef, cls = sm.find(c.qualname)
            rep.span = sm.span(fdef)
            rep.sha = sm.sha(fdef)
        except (KeyError, FileNotFoundError, SyntaxError) as ex:
            rep.status, rep.detail = "missing", str(ex)
            if c.extra.get("must_exist"):
                # the property requires this method to exist: its absence is a refuted obligation
                import z3
                from .engine import Obligation
                rep.status = "ok"
                rep.synthetic = True
                rep.obligations = [Obligation(f"{c.module}:{c.qualname}#exists", "post", [], z3.BoolVal(False),
                                              c.qualname, 0)]
                allobls += rep.obligations
            continue
        eng = (c.extra.get("engine") or engine_cls)(reg)
        try:
            if c.extra.get("block"):
                # block contract: a contiguous statement sequence of the real function, extracted mechanically
                import hashlib
                from .num_engine import extract_block
                fdef = extract_block(fdef, c.extra["block"], list(c.params))
                rep.span = (fdef.body[0].lineno, fdef.body[-1].end_lineno)
                rep.sha = hashlib.sha256("\n".join(sm.lines[rep.span[0] - 1:rep.span[1]]).encode()).hexdigest()[:16]
            rep.obligations = eng.verify(c, fdef, cls)
            rep.trivial_frames = getattr(eng, "trivial_frames", 0)
        except StaleContract as ex:
            rep.status, rep.detail = "stale", str(ex)
            continue
        except Unsupported as ex:
            rep.status, rep.detail = "unsupported", str(ex)
            continue
        except Exception as ex:       # engine bug on this shape of code: treat as outside the subset
            rep.status, rep.detail = "unsupported", f"engine error: {ex!r}\n" + traceback.format_exc(limit=6)
            continue
        ax = exc_distinct_axiom()
        for o in rep.obligations:
            o.hyps.append(ax)
        allobls += rep.obligations
    results = solve.discharge(allobls, timeout_ms=timeout_ms, jobs=jobs, dump_dir=dump_dir, use_cvc5=use_cvc5)
    # an `unknown` is retried once with a much larger budget (both solvers) before it is reported:
    # verdicts must not flip because the machine is busy
    again = [o for o in allobls if not o.expect_fail and results[o.name]["verdict"] == "unknown"]
    if again:
        r2 = solve.discharge(again, timeout_ms=timeout_ms * 6, jobs=jobs, use_cvc5=use_cvc5)
        for o in again:
            r2[o.name]["time"] = round(r2[o.name]["time"] + results[o.name]["time"], 3)
            r2[o.name]["retried"] = True
            results[o.name] = r2[o.name]
    for rep in reports:
        rep.results = {o.name: results[o.name] for o in rep.obligations}
        bad = [o for o in rep.obligations if o.kind == "unreachable" and results[o.name]["verdict"] != "unsat"]
        if bad and rep.status == "ok":
            rep.status = "unsupported"
            rep.detail = "construct outside the subset on a path that is not excluded by the precondition: " + bad[0].name.split("#")[-1]
    return reports


def main(argv):
    import argparse
    ap = argparse.ArgumentParser()
    ap.add_argument("modules", nargs="+")
    ap.add_argument("--only", nargs="*")
    ap.add_argument("--timeout", type=int, default=10000)
    ap.add_argument("--dump")
    ap.add_argument("-v", action="store_true")
    a = ap.parse_args(argv)
    sys.path.insert(0, os.path.dirname(os.path.dirname(os.path.abspath(__file__))))
    t0 = time.time()
    reg, contracts = load_registry(a.modules)
    reports = verify_all(reg, contracts, timeout_ms=a.timeout, dump_dir=a.dump, only=a.only)
    bad = 0
    for rep in reports:
        und = rep.undischarged()
        vac = rep.vacuous_probes()
        print(f"{rep.contract.qualname:40s} {rep.status:11s} obligations={len(rep.real)} discharged={len(rep.real)-len(und)} "
              f"probes={len(rep.probes)} vacuous={len(vac)} {rep.detail[:200]}")
        for o in und:
            r = rep.results[o.name]
            print(f"    NOT DISCHARGED {o.name}  [{r['verdict']} {r['backend']} {r['time']}s]")
        for o in vac:
            print(f"    VACUOUS {o.name}")
        if a.v:
            for o in rep.real:
                r = rep.results[o.name]
                print(f"      {r['verdict']:7s} {r['time']:6.2f}s {o.name}")
        bad += len(und) + len(vac) + (rep.status != "ok")
    print(f"total {time.time()-t0:.1f}s")
    return 1 if bad else 0


if __name__ == "__main__":
    sys.exit(main(sys.argv[1:]))
