"""Engine specialisation for xdeps/refs.py: opaque Python values with uninterpreted operators,
exceptions as values, class table read from the real source on every run."""
import ast
import z3

from .engine import *          # noqa
from .engine import Engine, Ctx, Outcome, BoundMethod, PyExc, _handler_names, none_term, str_term
from .values import *          # noqa
from . import extract
from contracts import refspec as RS


class PyClass(Val):
    def __init__(self, name):
        self.name = name


class PyModule(Val):
    def __init__(self, name):
        self.name = name


class PyGen(Val):
    """(elt for x in tuple): recognised map of _mk_value over a tuple slot"""

    def __init__(self, term, xterm):
        self.t, self.xt = term, xterm


class ClassTable:
    """class facts introspected from the AST of refs.py (bases, methods, declared fields, class attrs)"""

    def __init__(self, relpath="xdeps/refs.py"):
        sm = extract.module(relpath)
        self.sm = sm
        self.classes = {}
        for cd in sm.classes():
            info = dict(bases=[b.id for b in cd.bases if isinstance(b, ast.Name)], methods={}, fields={}, attrs={},
                        properties=set(), static=set(), node=cd)
            for n in cd.body:
                if isinstance(n, ast.FunctionDef):
                    info["methods"][n.name] = n
                    for dec in n.decorator_list:
                        if isinstance(dec, ast.Name) and dec.id == "property":
                            info["properties"].add(n.name)
                        if isinstance(dec, ast.Name) and dec.id == "staticmethod":
                            info["static"].add(n.name)
                elif isinstance(n, ast.Assign) and len(n.targets) == 1 and isinstance(n.targets[0], ast.Name):
                    nm = n.targets[0].id
                    v = n.value
                    if (isinstance(v, ast.Call) and isinstance(v.func, ast.Attribute)
                            and isinstance(v.func.value, ast.Name) and v.func.value.id == "cython"
                            and v.func.attr == "declare"):
                        info["fields"][nm] = ast.unparse(v.args[0]) if v.args else "object"
                    elif isinstance(v, ast.Constant):
                        info["attrs"][nm] = v.value
            self.classes[cd.name] = info

    def mro(self, c):
        out, todo = [], [c]
        while todo:
            k = todo.pop(0)
            if k in out or k not in self.classes:
                continue
            out.append(k)
            todo += self.classes[k]["bases"]
        return out

    def is_refclass(self, c):
        return "BaseRef" in self.mro(c)

    def find(self, c, kind, name):
        for k in self.mro(c):
            if name in self.classes[k][kind]:
                return k, self.classes[k][kind][name]
        return None, None

    def subclasses(self, base):
        return [c for c in self.classes if base in self.mro(c) and c != base]


_ISINST = {}


def _isinstance_fn(name):
    if name not in _ISINST:
        _ISINST[name] = z3.Function("py_isinstance_" + name, V, BoolS)
    return _ISINST[name]


class RefsEngine(Engine):
    def __init__(self, reg, opts=None):
        super().__init__(reg, opts)
        self.ct = ClassTable()

    # ------------------------------------------------------------------ names
    def global_name(self, name, cx, node):
        if name in self.ct.classes:
            return PyClass(name)
        if name in ("builtins", "math", "operator", "cython"):
            return PyModule(name)
        if name in ("ZeroDivisionError", "AttributeError", "NotImplementedError", "TypeError", "LookupError"):
            return PyClass(name)
        if name == "special_methods":
            return PyObj(z3.Const("py_special_methods", V))
        return super().global_name(name, cx, node)

    # ------------------------------------------------------------------ attributes
    def getattr(self, obj, attr, cx, node=None):
        if isinstance(obj, PyModule):
            if obj.name in ("builtins", "math") and attr in RS.BUILTIN_FN:
                return PyObj(RS.BUILTIN_FN[attr])
            if obj.name == "cython" and attr == "compiled":
                return PyBool(FreshConst(BoolS, "cython_compiled"))
            raise Unsupported(f"{obj.name}.{attr}")
        if isinstance(obj, PyClass):
            return BoundMethod(obj, attr, node.value if node is not None else None)
        if isinstance(obj, PyRec) and attr in obj.fields:
            return obj.fields[attr]
        cls = getattr(obj, "cls", None)
        if isinstance(obj, (PyObj, PyRec)) and cls and cls in self.ct.classes:
            if attr in ("__class__",):
                return PyObj(type_of(self.ident(obj)))
            k, decl = self.ct.find(cls, "fields", attr)
            if k is not None:
                if attr == "_hash":
                    return PyInt(RS.fld_hash(self.ident(obj)))
                if attr not in RS.fld:
                    raise Unsupported(f"declared field {attr} without slot function")
                return PyObj(RS.fld[attr](self.ident(obj)))
            k, v = self.ct.find(cls, "attrs", attr)
            if k is not None:
                return PyStr(v) if isinstance(v, str) else PyObj(str_term(repr(v)))
            k, m = self.ct.find(cls, "methods", attr)
            if k is not None:
                if attr in self.ct.classes[k]["properties"]:
                    c = self.reg.lookup_method(cls, attr)
                    if c is None:
                        raise Unsupported(f"property {cls}.{attr} without contract")
                    return self.call_contract(c, [obj], {}, cx, node, arg_nodes=[node.value])
                return BoundMethod(obj, attr, node.value if node is not None else None)
            if self.ct.is_refclass(cls) and not (attr.startswith("__") and attr.endswith("__")):
                # BaseRef.__getattr__: an undeclared name silently becomes an AttrRef (DESIGN 2.3(4))
                me = self.ident(obj)
                return PyObj(RS.mk["AttrRef"](me, str_term(attr), RS.fld["_manager"](me)), "AttrRef")
        if isinstance(obj, PyObj) and attr == "__name__":
            return PyObj(name_of(obj.t))
        return super().getattr(obj, attr, cx, node)

    def ident(self, obj):
        if isinstance(obj, PyObj):
            return obj.t
        if isinstance(obj, PyRec):
            if not hasattr(obj.ty, "ident_term"):
                obj.ty.ident_term = FreshConst(V, "self_id")
            return obj.ty.ident_term
        raise Unsupported("identity of " + type(obj).__name__)

    # ------------------------------------------------------------------ operators on opaque values
    def binop_hook(self, op, a, b, cx, inplace, node):
        name = RS.AST_BINOP.get(type(op).__name__)
        if name is None:
            raise Unsupported(f"operator {type(op).__name__}")
        if inplace:
            # `x op= y` on an opaque value calls x.__iop__(y): it may mutate the object x denotes (a stored array, a list shared with
            # another location) and need not return what `x op y` returns -- not the binary operator, and outside the subset
            raise Unsupported(f"in-place operator {type(op).__name__} on an opaque value")
        at, bt = self.as_v(a), self.as_v(b)
        self.dispatch_fact(cx, name, at, bt)
        xt = RS.opx[name](at, bt)
        cx.raise_if(xt != RS.OK, "PyExc", term=xt)
        return PyObj(RS.opv[name](at, bt))

    def dispatch_fact(self, cx, name, at, bt):
        """ground instance of Python's operator dispatch (DESIGN 2.3(3)): with a BaseRef operand the
        operator call is the (separately proved) overload, i.e. the node of the operator's class"""
        cname = next(c for c, o in RS.BINARY_CLASSES.items() if o == name)
        cx.assume(z3.Implies(z3.Or(RS.is_ref(at), RS.is_ref(bt)),
                             z3.And(RS.opv[name](at, bt) == RS.mk[cname](at, bt), RS.opx[name](at, bt) == RS.OK,
                                    *RS.ctor_facts(cname, [at, bt]))))

    def compare_hook(self, op, a, b, cx, node):
        raise Unsupported("comparison of opaque values as a boolean")

    def eval_Compare(self, e, cx):
        # comparisons between opaque values produce opaque values (they may be arrays), not booleans
        if len(e.ops) == 1 and type(e.ops[0]).__name__ in RS.AST_CMP:
            a = self.eval(e.left, cx)
            b = self.eval(e.comparators[0], cx)
            if isinstance(a, PyObj) and isinstance(b, PyObj):
                name = RS.AST_CMP[type(e.ops[0]).__name__]
                self.dispatch_fact(cx, name, a.t, b.t)
                xt = RS.opx[name](a.t, b.t)
                cx.raise_if(xt != RS.OK, "PyExc", term=xt)
                return PyObj(RS.opv[name](a.t, b.t))
        return super().eval_Compare(e, cx)

    def unop_hook(self, op, v, cx, node):
        name = RS.AST_UNOP.get(type(op).__name__)
        if name is None or not isinstance(v, PyObj):
            raise Unsupported("unary operator")
        xt = RS.ux[name](v.t)
        cx.raise_if(xt != RS.OK, "PyExc", term=xt)
        return PyObj(RS.uv[name](v.t))

    def as_v(self, v):
        if isinstance(v, PyObj):
            return v.t
        if isinstance(v, PyNone):
            return none_term()
        if isinstance(v, PyStr):
            return str_term(v.s)
        if isinstance(v, PyInt):
            return int_val(v.t)
        if isinstance(v, PyRec):
            return self.ident(v)
        if isinstance(v, PyTuple):
            return tuple_term([self.as_v(x) for x in v.items])
        if isinstance(v, PyOpt):
            return z3.If(v.is_none, none_term(), self.as_v(v.value))
        if isinstance(v, PyClass):
            return class_val(v.name)
        raise Unsupported(f"value of {type(v).__name__} as opaque object")

    def val_ite(self, c, a, b, cx):
        try:
            return super().val_ite(c, a, b, cx)
        except Unsupported:
            # two values of different shapes (tuples of different length, ...): the conditional as an opaque object
            return PyObj(z3.If(c, self.as_v(a), self.as_v(b)))

    def truth_hook(self, v, cx):
        if isinstance(v, PyObj):
            cx.assume(z3.Implies(RS.is_ref(v.t), truthy(v.t)))      # objects without __bool__/__len__ are true
            return truthy(v.t)
        return super().truth_hook(v, cx)

    def is_same(self, a, b, cx):
        if isinstance(a, PyObj) and isinstance(b, PyNone) or isinstance(a, PyNone) and isinstance(b, PyObj):
            o = a if isinstance(a, PyObj) else b
            return o.t == none_term()
        return super().is_same(a, b, cx)

    # ------------------------------------------------------------------ try / except with opaque exceptions
    def exec_try(self, s, st, cx):
        if s.finalbody or s.orelse:
            raise Unsupported("try/finally, try/else")
        outs = self.exec_block(s.body, st)
        res = []
        for st2, out in outs:
            if out.kind != "raise":
                res.append((st2, out))
                continue
            pending = [(st2, out)]
            for h in s.handlers:
                names = _handler_names(h)
                if names is None:
                    raise Unsupported("except clause form")
                nxt = []
                for st3, o3 in pending:
                    if o3.exc == "PyExc":
                        conds = [o3.value == exc_const(n) for n in names if n not in ("Exception", "BaseException")]
                        if any(n in ("Exception", "BaseException") for n in names):
                            res += self.exec_block(h.body, st3)
                            continue
                        c = z3.Or(*conds)
                        hit = st3.fork()
                        hit.hyps.append(c)
                        if h.name:
                            hit.env[h.name] = PyExc(o3.exc, o3.value)
                        res += self.exec_block(h.body, hit)
                        miss = st3.fork()
                        miss.hyps.append(z3.Not(c))
                        nxt.append((miss, o3))
                    elif o3.exc in names or "Exception" in names or any(self.reg.exc_subclass(o3.exc, n) for n in names):
                        if h.name:
                            st3.env[h.name] = PyExc(o3.exc, o3.value)
                        res += self.exec_block(h.body, st3)
                    else:
                        nxt.append((st3, o3))
                pending = nxt
            res += pending
        return res

    # ------------------------------------------------------------------ calls
    def builtin_isinstance(self, e, cx):
        v = self.eval(e.args[0], cx)
        if isinstance(e.args[1], ast.Name):
            cn = e.args[1].id
            t = self.as_v(v)
            if cn == "BaseRef":
                return PyBool(RS.is_ref(t))
            if cn in RS.C or (cn in self.ct.classes and self.ct.is_refclass(cn)):
                subs = [c for c in RS.C if cn in self.ct.mro(c)]
                return PyBool(z3.Or(*[RS.cls_of(t) == RS.C[c] for c in subs]))
            if cn == "dict":
                return PyBool(is_dict(t))
            if cn in ("tuple", "list", "int", "float", "str", "bool", "complex", "set", "frozenset", "bytes"):
                # a builtin type: an uninterpreted predicate of the value (nothing is known about it: over-approximation)
                return PyBool(_isinstance_fn(cn)(t))
        if isinstance(e.args[1], ast.Tuple) and all(isinstance(x, ast.Name) for x in e.args[1].elts):
            # isinstance(x, (A, B, ...)): the disjunction
            parts = []
            for x in e.args[1].elts:
                fake = ast.Call(func=e.func, args=[e.args[0], x], keywords=[])
                parts.append(self.builtin_isinstance(fake, cx).t)
            return PyBool(z3.Or(*parts))
        raise Unsupported("isinstance form")

    def builtin_float(self, e, cx):
        a = self.eval(e.args[0], cx)
        if isinstance(a, PyStr) and a.s == "nan":
            return PyObj(RS.NAN)
        raise Unsupported("float(x)")

    def builtin_type(self, e, cx):
        v = self.eval(e.args[0], cx)
        return PyObj(type_of(self.as_v(v)))

    def builtin_hash(self, e, cx):
        v = self.eval(e.args[0], cx)
        return PyInt(hash_fn(self.as_v(v)))

    def builtin_tuple(self, e, cx):
        v = self.eval(e.args[0], cx)
        if isinstance(v, PyObj):
            return PyObj(as_tuple(v.t))
        raise Unsupported("tuple(x)")

    def builtin_getattr(self, e, cx):
        o, a = self.eval(e.args[0], cx), self.eval(e.args[1], cx)
        ot, at = self.as_v(o), self.as_v(a)
        xt = RS.hx_attr(ot, at)
        cx.raise_if(xt != RS.OK, "PyExc", term=xt)
        return PyObj(RS.h_attr(ot, at))

    def builtin_setattr(self, e, cx):
        o, a, v = (self.eval(x, cx) for x in e.args)
        self.heap_store(cx, "attr", self.as_v(o), self.as_v(a), self.as_v(v))
        return PyNone()

    def heap_store(self, cx, kind, o, k, v):
        log = cx.st.env.get("__stores")
        items = list(log.items) if isinstance(log, PyTuple) else []
        items.append(PyTuple([PyStr(kind), PyObj(o), PyObj(k), PyObj(v)]))
        cx.st.env["__stores"] = PyTuple(items)

    def getitem_hook(self, obj, idx, cx, node):
        if isinstance(obj, PyObj):
            ot, it = obj.t, self.as_v(idx)
            xt = RS.hx_item(ot, it)
            cx.raise_if(xt != RS.OK, "PyExc", term=xt)
            return PyObj(RS.h_item(ot, it))
        return super().getitem_hook(obj, idx, cx, node)

    def setitem_hook(self, obj, idx, v, cx, node):
        if isinstance(obj, PyObj):
            self.heap_store(cx, "item", obj.t, self.as_v(idx), self.as_v(v))
            return
        return super().setitem_hook(obj, idx, v, cx, node)

    def call_hook(self, e, cx):
        f = e.func
        if isinstance(f, ast.Name) and f.id in self.ct.classes and f.id in RS.mk:
            return self.construct(f.id, e, cx)
        return super().call_hook(e, cx)

    def construct(self, cname, e, cx):
        """C(args...): constructor term; arity checked against the real __cinit__ signature"""
        args, kwargs = self.eval_args(e, cx)
        k, cinit = self.ct.find(cname, "methods", "__cinit__")
        params = [a.arg for a in cinit.args.args][1:]
        ndef = len(cinit.args.defaults)
        if kwargs:
            raise Unsupported("keyword constructor call")
        if len(args) > len(params) or len(args) < len(params) - ndef:
            cx.raise_always("TypeError")
            raise PathAbort()
        full = [self.as_v(a) for a in args]
        for dnode in cinit.args.defaults[len(cinit.args.defaults) - (len(params) - len(args)):] if len(args) < len(params) else []:
            dv = Engine.eval(self, dnode, cx) if not (isinstance(dnode, ast.Tuple) and not dnode.elts) else None
            full.append(RS.EMPTY_TUPLE if dv is None else self.as_v(dv))
        for f_ in RS.ctor_facts(cname, full):
            cx.assume(f_)
        return PyObj(RS.mk[cname](*full), cname)

    def eval_Tuple(self, e, cx):
        return PyTuple([self.eval(x, cx) for x in e.elts])

    def call_method(self, recv, name, e, cx, recv_node):
        if isinstance(recv, PyClass):
            c = self.reg.lookup_method(recv.name, name)
            if c is None:
                raise Unsupported(f"{recv.name}.{name} has no contract")
            args, kwargs = self.eval_args(e, cx)
            return self.call_contract(c, args, kwargs, cx, e, arg_nodes=list(e.args))
        if isinstance(recv, (PyObj, PyRec)):
            cls = getattr(recv, "cls", None)
            if cls in self.ct.classes:
                k, m = self.ct.find(cls, "methods", name)
                if k is None and self.ct.is_refclass(cls) and not (name.startswith("__") and name.endswith("__")):
                    # not a method: __getattr__ makes it an AttrRef, which is then *called* -> CallRef
                    me = self.ident(recv)
                    fn = RS.mk["AttrRef"](me, str_term(name), RS.fld["_manager"](me))
                    args, kwargs = self.eval_args(e, cx)
                    return PyObj(RS.mk["CallRef"](fn, tuple_term([self.as_v(a) for a in args]), RS.EMPTY_TUPLE), "CallRef")
        return super().call_method(recv, name, e, cx, recv_node)

    def method_hook(self, recv, name, e, cx, recv_node):
        if isinstance(recv, PyObj) and name == "items" and not e.args:
            from contracts.refs_ctor import dict_items
            return PyObj(dict_items(recv.t))
        return super().method_hook(recv, name, e, cx, recv_node)

    def call_value(self, fv, e, cx):
        if isinstance(fv, PyObj):
            return self.apply_opaque(fv.t, e, cx)
        raise Unsupported("call of " + type(fv).__name__)

    def eval_Call(self, e, cx):
        f = e.func
        if isinstance(f, ast.Name) and f.id in cx.st.env and isinstance(cx.st.env[f.id], PyObj):
            return self.apply_opaque(cx.st.env[f.id].t, e, cx)
        if isinstance(f, ast.Attribute):
            # self._op(...) / self._func(...): calling the *value* of a declared field
            base = self.eval(f.value, cx)
            cls = getattr(base, "cls", None)
            if cls in self.ct.classes and self.ct.find(cls, "fields", f.attr)[0] is not None:
                fv = self.getattr(base, f.attr, cx, f)
                return self.apply_opaque(fv.t, e, cx)
        return super().eval_Call(e, cx)

    def apply_opaque(self, ft, e, cx):
        """f(a, *gen) and f(*args, **kwargs) over recognised maps"""
        pos = [a for a in e.args if not isinstance(a, ast.Starred)]
        star = [a for a in e.args if isinstance(a, ast.Starred)]
        dstar = [k for k in e.keywords if k.arg is None]
        if len(pos) == 1 and len(star) == 1 and not e.keywords:
            a = self.eval(pos[0], cx)
            g = self.eval(star[0].value, cx)
            if isinstance(g, PyGen):
                cx.raise_if(g.xt != RS.OK, "PyExc", term=g.xt)
                xt = RS.call1x(ft, self.as_v(a), g.t)
                cx.raise_if(xt != RS.OK, "PyExc", term=xt)
                return PyObj(RS.call1v(ft, self.as_v(a), g.t))
        if not pos and len(star) == 1 and len(dstar) == 1 and len(e.keywords) == 1:
            g = self.eval(star[0].value, cx)
            k = self.eval(dstar[0].value, cx)
            if isinstance(g, PyGen) and isinstance(k, PyGen):
                xt = RS.callx(ft, g.t, k.t)
                cx.raise_if(xt != RS.OK, "PyExc", term=xt)
                return PyObj(RS.callv(ft, g.t, k.t))
        raise Unsupported(f"call shape of an opaque callable (line {e.lineno})")

    # recognised comprehensions: map of BaseRef._mk_value over a tuple slot
    def _is_mkvalue_of(self, node, name):
        return (isinstance(node, ast.Call) and isinstance(node.func, ast.Attribute) and node.func.attr == "_mk_value"
                and isinstance(node.func.value, ast.Name) and node.func.value.id == "BaseRef"
                and len(node.args) == 1 and isinstance(node.args[0], ast.Name) and node.args[0].id == name
                and not node.keywords)

    def _map_comp(self, e, cx, elt, kw=False):
        if len(e.generators) != 1 or e.generators[0].ifs:
            raise Unsupported("comprehension shape")
        gen = e.generators[0]
        src = self.eval(gen.iter, cx)
        if not isinstance(src, PyObj):
            raise Unsupported("comprehension source")
        if not kw and isinstance(gen.target, ast.Name) and self._is_mkvalue_of(elt, gen.target.id):
            xt = RS.mapvalx(src.t)
            cx.raise_if(xt != RS.OK, "PyExc", term=xt)
            return PyGen(RS.mapval(src.t), RS.OK)
        raise Unsupported("comprehension element is not BaseRef._mk_value(<target>)")

    def eval_GeneratorExp(self, e, cx):
        return self._map_comp(e, cx, e.elt)

    def eval_ListComp(self, e, cx):
        try:
            return self._map_comp(e, cx, e.elt)
        except Unsupported:
            return super().eval_ListComp(e, cx)

    def eval_DictComp(self, e, cx):
        gen = e.generators[0] if len(e.generators) == 1 else None
        if (gen is not None and not gen.ifs and isinstance(gen.target, ast.Tuple) and len(gen.target.elts) == 2
                and all(isinstance(t, ast.Name) for t in gen.target.elts)
                and isinstance(e.key, ast.Name) and e.key.id == gen.target.elts[0].id
                and self._is_mkvalue_of(e.value, gen.target.elts[1].id)):
            src = self.eval(gen.iter, cx)
            if isinstance(src, PyObj):
                xt = RS.mapkwx(src.t)
                cx.raise_if(xt != RS.OK, "PyExc", term=xt)
                return PyGen(RS.mapkw(src.t), RS.OK)
        raise Unsupported("dict comprehension shape")

    # iteration over a tuple-valued slot
    def iterate(self, v, cx):
        if isinstance(v, PyObj):
            t = v.t
            return PyEnum(RS.tup_n(t), lambda j: RS.tup_at(t, j), TV, axioms=[RS.tup_n(t) >= 0])
        return super().iterate(v, cx)

    def unpack(self, v, n, cx):
        if isinstance(v, PyObj) and n == 2:
            return [PyObj(RS.kw_name(v.t)), PyObj(RS.kw_val(v.t))]
        return super().unpack(v, n, cx)

    def coerce(self, v, ty, cx, what):
        if isinstance(ty, TVCls) and not isinstance(v, PyObj):
            return PyObj(self.as_v(v), getattr(v, "cls", None))
        return super().coerce(v, ty, cx, what)


# ---- helper symbols -----------------------------------------------------------------
type_of = z3.Function("py_type", V, V)
name_of = z3.Function("py_name", V, V)
hash_fn = z3.Function("py_hash", V, IntS)
truthy = z3.Function("py_truth", V, BoolS)
is_dict = z3.Function("py_is_dict", V, BoolS)
int_val = z3.Function("py_int", IntS, V)
as_tuple = z3.Function("py_tuple_of", V, V)
_tuple_fns = {}
_class_vals = {}


def tuple_term(ts):
    n = len(ts)
    if n == 0:
        return RS.EMPTY_TUPLE
    if n not in _tuple_fns:
        _tuple_fns[n] = z3.Function(f"py_tuple{n}", *([V] * n + [V]))
    return _tuple_fns[n](*ts)


def class_val(name):
    if name not in _class_vals:
        _class_vals[name] = z3.Const("py_class_" + name, V)
    return _class_vals[name]
