"""pyvc.values -- symbolic values and the library models of DESIGN.md 2.3(2).

Every Python object the verified functions touch is represented by a `Val`
wrapping z3 terms.  One uninterpreted sort `V` stands for opaque Python objects
(refs, task ids, tasks, user values); ints/bools/reals are z3 ints/bools/reals;
built-in containers have *value semantics* (functional arrays), mutation is a
functional update written back along the access path by the engine.

The methods come in two flavours:
  * spec-level helpers returning raw z3 terms (`has`, `cnt`, `at`, ...) used by
    sidecar contracts;
  * `py_*` methods implementing the Python operation of the same name, used by
    the symbolic executor; they receive the engine context `cx` so they can
    assume axioms, create fresh symbols, or signal exceptions.
"""
import itertools
import z3

V = z3.DeclareSort("V")
E = z3.DeclareSort("Exc")          # exception *classes / instances* (opaque)
IntS, BoolS, RealS = z3.IntSort(), z3.BoolSort(), z3.RealSort()

_counter = itertools.count()


def fresh_name(hint):
    hint = "".join(ch if (ch.isalnum() or ch in "_.") else "_" for ch in str(hint))
    return f"{hint}!{next(_counter)}"


def FreshConst(sort, hint):
    return z3.Const(fresh_name(hint), sort)


def FreshFun(hint, *sig):
    return z3.Function(fresh_name(hint), *sig)


class Unsupported(Exception):
    """Construct outside the subset: the function is reported, never skipped."""


# --------------------------------------------------------------------------
# exceptions known to the model (constants of sort Exc)
EXC = {}


def exc_const(name):
    if name not in EXC:
        EXC[name] = z3.Const("exc_" + name, E)
    return EXC[name]


def exc_distinct_axiom():
    cs = list(EXC.values())
    return z3.Distinct(*cs) if len(cs) > 1 else z3.BoolVal(True)


# --------------------------------------------------------------------------
class Ty:
    """Type descriptor: how to make a fresh symbolic value / rewrap a term."""
    single = True          # representable as ONE z3 term (may be an array elem)

    def sort(self):
        raise NotImplementedError

    def wrap(self, term):
        raise NotImplementedError

    def fresh(self, hint="v"):
        return self.wrap(FreshConst(self.sort(), hint))

    def __repr__(self):
        return type(self).__name__


class Val:
    ty = None

    def same(self, other):
        """z3 formula: this value is unchanged w.r.t. `other` (frame)."""
        raise NotImplementedError

    def ident(self, other):
        """syntactic identity of the representation (cheap frame check)"""
        return False


# ---- scalars --------------------------------------------------------------
class TVCls(Ty):
    def __init__(self, cls=None):
        self.cls = cls

    def sort(self):
        return V

    def wrap(self, term):
        return PyObj(term, self.cls)

    def __repr__(self):
        return f"Obj[{self.cls}]" if self.cls else "V"


class PyObj(Val):
    """opaque Python object; `cls` (optional) = statically known class name"""

    def __init__(self, term, cls=None):
        self.t = term
        self.cls = cls
        self.ty = TVCls(cls)

    def same(self, other):
        return self.t == other.t

    def ident(self, other):
        return isinstance(other, PyObj) and self.t.eq(other.t)

    def __repr__(self):
        return f"PyObj({self.t})"


class TIntCls(Ty):
    def sort(self):
        return IntS

    def wrap(self, term):
        return PyInt(term)


class PyInt(Val):
    ty = TIntCls()

    def __init__(self, term):
        self.t = term if z3.is_expr(term) else z3.IntVal(term)

    def same(self, other):
        return self.t == other.t

    def ident(self, other):
        return isinstance(other, PyInt) and self.t.eq(other.t)


class TBoolCls(Ty):
    def sort(self):
        return BoolS

    def wrap(self, term):
        return PyBool(term)


class PyBool(Val):
    ty = TBoolCls()

    def __init__(self, term):
        self.t = term if z3.is_expr(term) else z3.BoolVal(term)

    def same(self, other):
        return self.t == other.t

    def ident(self, other):
        return isinstance(other, PyBool) and self.t.eq(other.t)


class TRealCls(Ty):
    def sort(self):
        return RealS

    def wrap(self, term):
        return PyReal(term)


class PyReal(Val):
    ty = TRealCls()

    def __init__(self, term):
        self.t = term if z3.is_expr(term) else z3.RealVal(term)

    def same(self, other):
        return self.t == other.t

    def ident(self, other):
        return isinstance(other, PyReal) and self.t.eq(other.t)


class TNoneCls(Ty):
    def fresh(self, hint="none"):
        return PyNone()


class PyNone(Val):
    ty = TNoneCls()

    def same(self, other):
        return z3.BoolVal(isinstance(other, PyNone))

    def ident(self, other):
        return isinstance(other, PyNone)


class PyStr(Val):
    """a *literal* string constant (attribute names, keyword names, messages)"""

    def __init__(self, s):
        self.s = s

    def same(self, other):
        return z3.BoolVal(isinstance(other, PyStr) and other.s == self.s)

    def ident(self, other):
        return isinstance(other, PyStr) and other.s == self.s


class PyTuple(Val):
    def __init__(self, items):
        self.items = list(items)

    def same(self, other):
        if not isinstance(other, PyTuple) or len(other.items) != len(self.items):
            return z3.BoolVal(False)
        return z3.And([a.same(b) for a, b in zip(self.items, other.items)] or [z3.BoolVal(True)])

    def ident(self, other):
        return (isinstance(other, PyTuple) and len(other.items) == len(self.items)
                and all(a.ident(b) for a, b in zip(self.items, other.items)))


class TOpt(Ty):
    """Optional[T]: a flag plus a value of T (meaningful when the flag is false)"""
    single = False

    def __init__(self, inner):
        self.inner = inner

    def fresh(self, hint="opt"):
        return PyOpt(FreshConst(BoolS, hint + "_isnone"), self.inner.fresh(hint), self.inner)

    def __repr__(self):
        return f"Opt[{self.inner}]"


class PyOpt(Val):
    def __init__(self, is_none, value, inner):
        self.is_none = is_none
        self.value = value
        self.ty = TOpt(inner)

    def same(self, other):
        return z3.And(self.is_none == other.is_none,
                      z3.Implies(z3.Not(self.is_none), self.value.same(other.value)))

    def ident(self, other):
        return (isinstance(other, PyOpt) and self.is_none.eq(other.is_none)
                and self.value.ident(other.value))


# ---- enumerations (what a `for` loop iterates) ------------------------------
class PyEnum(Val):
    """finite sequence view: length `n` (Int term) and `at(i)` (python callable
    Int-term -> element term); optional inverse `idx(elem) -> Int term` when the
    enumeration is duplicate-free (iteration over a set / dict keys).
    `axioms` are assumed when the loop is entered."""

    def __init__(self, n, at, elty, idx=None, axioms=(), dupfree=False):
        self.n, self.at_, self.elty, self.idx_ = n, at, elty, idx
        self.axioms = list(axioms)
        self.dupfree = dupfree

    def at(self, i):
        return self.at_(i)

    def idx(self, x):
        return self.idx_(x)

    def elem(self, i):
        return self.elty.wrap(self.at_(i))


def enum_of_pred(member, hint, elty=None):
    """Arbitrary duplicate-free enumeration of the set {x | member(x)}.

    This is the model of iterating a Python set / dict: the order is an
    unconstrained bijection between [0,n) and the members, so whatever is proved
    holds for every iteration order (= every hash seed)."""
    n = FreshConst(IntS, hint + "_n")
    at = FreshFun(hint + "_at", IntS, V)
    idx = FreshFun(hint + "_idx", V, IntS)
    i = z3.Int("i!e")
    x = z3.Const("x!e", V)
    ax = [
        n >= 0,
        z3.ForAll([i], z3.Implies(z3.And(0 <= i, i < n),
                                  z3.And(member(at(i)), idx(at(i)) == i)),
                  patterns=[at(i)]),
        z3.ForAll([x], z3.Implies(member(x),
                                  z3.And(0 <= idx(x), idx(x) < n, at(idx(x)) == x)),
                  patterns=[idx(x)]),
    ]
    return PyEnum(n, lambda j: at(j), elty or TV, idx=lambda y: idx(y), axioms=ax, dupfree=True)


# ---- set -------------------------------------------------------------------
class TSetCls(Ty):
    def sort(self):
        return z3.ArraySort(V, BoolS)

    def wrap(self, term):
        return PySet(term)


class PySet(Val):
    ty = TSetCls()

    def __init__(self, arr):
        self.arr = arr

    @staticmethod
    def empty():
        return PySet(z3.K(V, z3.BoolVal(False)))

    # spec helpers
    def has(self, x):
        return z3.Select(self.arr, _t(x))

    def same(self, other):
        return self.arr == other.arr

    def ident(self, other):
        return isinstance(other, PySet) and self.arr.eq(other.arr)

    # python operations
    def py_contains(self, cx, x):
        return PyBool(self.has(x))

    def py_iter(self, cx):
        return enum_of_pred(lambda x: z3.Select(self.arr, x), "set")

    def m_add(self, cx, x):
        return PyNone(), PySet(z3.Store(self.arr, _t(x), z3.BoolVal(True)))

    def m_update(self, cx, other):
        # set.update(iterable): union with the elements of `other`
        mem = _membership(other)
        new = FreshConst(self.ty.sort(), "upd")
        x = z3.Const("x!u", V)
        cx.assume(z3.ForAll([x], z3.Select(new, x) == z3.Or(z3.Select(self.arr, x), mem(x)),
                            patterns=[z3.Select(new, x)]))
        return PyNone(), PySet(new)

    def m_copy(self, cx):
        return PySet(self.arr), None


def _t(x):
    return x.t if isinstance(x, Val) else x


def _membership(val):
    """python callable term->Bool: `x in val` for the iterables we know"""
    if isinstance(val, PySet):
        return lambda x: z3.Select(val.arr, x)
    if isinstance(val, PyCount):
        return lambda x: z3.Select(val.arr, x) > 0
    raise Unsupported(f"membership of {type(val).__name__}")


# ---- RefCount (dict key -> positive count; absent == 0) ---------------------
class TCountCls(Ty):
    def sort(self):
        return z3.ArraySort(V, IntS)

    def wrap(self, term):
        return PyCount(term)


class PyCount(Val):
    """xdeps.refs.RefCount: a dict subclass mapping key -> number of occurrences.
    Abstract view: total map V -> Int, key present iff count > 0.  The class
    invariant "stored counts are >= 1" is established by RefCount's own methods
    (proved on the real `append/extend/remove`)."""
    ty = TCountCls()
    cls = "RefCount"

    def __init__(self, arr):
        self.arr = arr

    @staticmethod
    def empty():
        return PyCount(z3.K(V, z3.IntVal(0)))

    def cnt(self, x):
        return z3.Select(self.arr, _t(x))

    def has(self, x):
        return self.cnt(x) > 0

    def same(self, other):
        return self.arr == other.arr

    def ident(self, other):
        return isinstance(other, PyCount) and self.arr.eq(other.arr)

    def py_contains(self, cx, x):
        return PyBool(self.has(x))

    def py_iter(self, cx):
        return enum_of_pred(lambda x: z3.Select(self.arr, x) > 0, "cnt")

    def py_len_is_zero(self):
        x = z3.Const("x!l", V)
        return z3.ForAll([x], z3.Select(self.arr, x) <= 0)


# ---- defaultdict(RefCount) ---------------------------------------------------
class TDDictCls(Ty):
    def sort(self):
        return z3.ArraySort(V, z3.ArraySort(V, IntS))

    def wrap(self, term):
        return PyDDict(term)


class PyDDict(Val):
    """collections.defaultdict(RefCount).  Abstract view: total map
    V -> (V -> Int); an absent key and a key bound to an empty RefCount are the
    same abstract state (DESIGN 2.3(2)): no query the properties name can tell
    them apart, `cleanup()` is the identity on this view."""
    ty = TDDictCls()

    def __init__(self, arr):
        self.arr = arr

    @staticmethod
    def empty():
        return PyDDict(z3.K(V, z3.K(V, z3.IntVal(0))))

    def row(self, k):
        return z3.Select(self.arr, _t(k))

    def cnt(self, k, x):
        return z3.Select(z3.Select(self.arr, _t(k)), _t(x))

    def same(self, other):
        return self.arr == other.arr

    def ident(self, other):
        return isinstance(other, PyDDict) and self.arr.eq(other.arr)

    def py_getitem(self, cx, k):
        return PyCount(self.row(k))

    def py_setitem(self, cx, k, v):
        if not isinstance(v, PyCount):
            raise Unsupported("DDict store of non-RefCount")
        return PyDDict(z3.Store(self.arr, _t(k), v.arr))

    def py_delitem(self, cx, k):
        # abstractly: the entry becomes the empty count (requires presence; the
        # engine call sites in scope guard the del with `if k in d`)
        return PyDDict(z3.Store(self.arr, _t(k), z3.K(V, z3.IntVal(0))))

    def py_contains(self, cx, k):
        # `k in d`: true iff an entry exists.  An entry may exist with an empty
        # RefCount; the abstraction cannot see that, so the answer is a fresh
        # boolean constrained only by "non-empty row => present".
        b = FreshConst(BoolS, "ddict_in")
        x = z3.Const("x!d", V)
        cx.assume(z3.Implies(z3.Exists([x], self.cnt(k, x) > 0), b))
        return PyBool(b)


# ---- dict with opaque values (Manager.tasks) ---------------------------------
class TMap(Ty):
    single = False

    def __init__(self, valty=None, cls=None):
        self.valty = valty or TV
        self.cls = cls

    def fresh(self, hint="map"):
        return PyMap(FreshConst(z3.ArraySort(V, BoolS), hint + "_dom"),
                     FreshConst(z3.ArraySort(V, self.valty.sort()), hint + "_val"),
                     self.valty, self.cls)

    def __repr__(self):
        return f"Map[{self.valty}]"


class PyMap(Val):
    def __init__(self, dom, val, valty=None, cls=None):
        self.dom, self.val, self.valty = dom, val, valty or TV
        self.cls = cls
        self.ty = TMap(self.valty, cls)

    @staticmethod
    def empty(valty=None):
        valty = valty or TV
        return PyMap(z3.K(V, z3.BoolVal(False)), FreshConst(z3.ArraySort(V, valty.sort()), "emptyval"), valty)

    def has(self, k):
        return z3.Select(self.dom, _t(k))

    def get(self, k):
        return z3.Select(self.val, _t(k))

    def same(self, other):
        x = z3.Const("x!m", V)
        return z3.And(self.dom == other.dom,
                      z3.ForAll([x], z3.Implies(z3.Select(self.dom, x),
                                                z3.Select(self.val, x) == z3.Select(other.val, x))))

    def ident(self, other):
        return isinstance(other, PyMap) and self.dom.eq(other.dom) and self.val.eq(other.val)

    def py_contains(self, cx, k):
        return PyBool(self.has(k))

    def py_getitem(self, cx, k):
        cx.raise_if(z3.Not(self.has(k)), "KeyError")
        return self.valty.wrap(self.get(k))

    def py_setitem(self, cx, k, v):
        return PyMap(z3.Store(self.dom, _t(k), z3.BoolVal(True)),
                     z3.Store(self.val, _t(k), _t(v)), self.valty, self.cls)

    def py_delitem(self, cx, k):
        cx.raise_if(z3.Not(self.has(k)), "KeyError")
        return PyMap(z3.Store(self.dom, _t(k), z3.BoolVal(False)), self.val, self.valty, self.cls)

    def py_iter(self, cx):
        return enum_of_pred(lambda x: z3.Select(self.dom, x), "map")

    def m_copy(self, cx):
        return PyMap(self.dom, self.val, self.valty, self.cls), None

    @staticmethod
    def empty(valty=None, cls=None):
        valty = valty or TV
        return PyMap(z3.K(V, z3.BoolVal(False)), FreshConst(z3.ArraySort(V, valty.sort()), "emptymap_val"), valty, cls)

    def m_update(self, cx, other):
        """dict.update(other dict): other's entries win"""
        if not isinstance(other, PyMap) or other.valty.sort() != self.valty.sort():
            raise Unsupported("dict.update argument")
        x = z3.Const("x!mu", V)
        nd = FreshConst(z3.ArraySort(V, BoolS), "upd_dom")
        nv = FreshConst(z3.ArraySort(V, self.valty.sort()), "upd_val")
        cx.assume(z3.ForAll([x], z3.Select(nd, x) == z3.Or(z3.Select(self.dom, x), z3.Select(other.dom, x)),
                            patterns=[z3.Select(nd, x)]))
        cx.assume(z3.ForAll([x], z3.Select(nv, x) == z3.If(z3.Select(other.dom, x), z3.Select(other.val, x),
                                                            z3.Select(self.val, x)), patterns=[z3.Select(nv, x)]))
        return PyNone(), PyMap(nd, nv, self.valty, self.cls)

    def m_values(self, cx):
        """dict.values(): the values along an arbitrary duplicate-free enumeration of the keys"""
        ke = enum_of_pred(lambda x: z3.Select(self.dom, x), "mapk")
        val = self.val
        en = PyEnum(ke.n, lambda j: z3.Select(val, ke.at(j)), self.valty, axioms=ke.axioms)
        en.keys = ke
        return en, None

    def m_get(self, cx, k, default=None):
        kt = _t(k)
        if default is None or isinstance(default, PyNone):
            return PyOpt(z3.Not(z3.Select(self.dom, kt)), self.valty.wrap(z3.Select(self.val, kt)), self.valty), None
        if isinstance(default, (PyInt, PyBool, PyReal, PyObj)) and self.valty.sort() == default.t.sort():
            return self.valty.wrap(z3.If(z3.Select(self.dom, kt), z3.Select(self.val, kt), default.t)), None
        raise Unsupported("dict.get default type")


# ---- list / tuple as sequences ------------------------------------------------
class TSeq(Ty):
    single = False

    def __init__(self, elty=None):
        self.elty = elty or TV

    def fresh(self, hint="seq"):
        n = FreshConst(IntS, hint + "_n")
        return PySeq(n, FreshConst(z3.ArraySort(IntS, self.elty.sort()), hint + "_a"), self.elty, [n >= 0])

    def __repr__(self):
        return f"Seq[{self.elty}]"


class PySeq(Val):
    def __init__(self, n, arr, elty=None, axioms=()):
        self.n, self.arr, self.elty = n, arr, elty or TV
        self.ty = TSeq(self.elty)
        self.axioms = list(axioms)

    @staticmethod
    def empty(elty=None):
        elty = elty or TV
        return PySeq(z3.IntVal(0), FreshConst(z3.ArraySort(IntS, elty.sort()), "nil"), elty)

    def at(self, i):
        return z3.Select(self.arr, _t(i))

    def same(self, other):
        i = z3.Int("i!s")
        return z3.And(self.n == other.n,
                      z3.ForAll([i], z3.Implies(z3.And(0 <= i, i < self.n), self.at(i) == other.at(i))))

    def ident(self, other):
        return isinstance(other, PySeq) and self.n.eq(other.n) and self.arr.eq(other.arr)

    def py_iter(self, cx):
        en = PyEnum(self.n, lambda j: z3.Select(self.arr, j), self.elty, axioms=[self.n >= 0] + self.axioms)
        en.arr = self.arr
        return en

    def py_len(self, cx):
        return PyInt(self.n)

    def py_getitem(self, cx, i):
        if not isinstance(i, PyInt):
            raise Unsupported("sequence index must be int")
        # negative indices are not modelled: index must be within [0, n)
        cx.raise_if(z3.Or(i.t < 0, i.t >= self.n), "IndexError")
        return self.elty.wrap(self.at(i.t))

    def py_setitem(self, cx, i, v):
        cx.raise_if(z3.Or(i.t < 0, i.t >= self.n), "IndexError")
        return PySeq(self.n, z3.Store(self.arr, i.t, _t(v)), self.elty, self.axioms)

    def m_append(self, cx, v):
        return PyNone(), PySeq(self.n + 1, z3.Store(self.arr, self.n, _t(v)), self.elty, [self.n >= 0] + self.axioms)


# ---- collections.deque as an array slice [lo, hi) ------------------------------
class TDeque(Ty):
    single = False

    def __init__(self, elty=None):
        self.elty = elty or TV

    def fresh(self, hint="dq"):
        lo, hi = FreshConst(IntS, hint + "_lo"), FreshConst(IntS, hint + "_hi")
        return PyDeque(lo, hi, FreshConst(z3.ArraySort(IntS, self.elty.sort()), hint + "_a"), self.elty, [lo <= hi])


class PyDeque(Val):
    """deque = the slice arr[lo:hi].  appendleft stores at lo-1: no index shift."""

    def __init__(self, lo, hi, arr, elty=None, axioms=()):
        self.lo, self.hi, self.arr, self.elty = lo, hi, arr, elty or TV
        self.ty = TDeque(self.elty)
        self.axioms = list(axioms)

    @staticmethod
    def empty(elty=None):
        elty = elty or TV
        z = z3.IntVal(0)
        return PyDeque(z, z, FreshConst(z3.ArraySort(IntS, elty.sort()), "dq0"), elty)

    def at(self, i):
        return z3.Select(self.arr, _t(i))

    def n(self):
        return self.hi - self.lo

    def same(self, other):
        i = z3.Int("i!q")
        return z3.And(self.hi - self.lo == other.hi - other.lo,
                      z3.ForAll([i], z3.Implies(z3.And(0 <= i, i < self.hi - self.lo),
                                                self.at(self.lo + i) == other.at(other.lo + i))))

    def ident(self, other):
        return (isinstance(other, PyDeque) and self.lo.eq(other.lo) and self.hi.eq(other.hi)
                and self.arr.eq(other.arr))

    def m_appendleft(self, cx, v):
        return PyNone(), PyDeque(self.lo - 1, self.hi, z3.Store(self.arr, self.lo - 1, _t(v)), self.elty,
                                 [self.lo <= self.hi] + self.axioms)

    def m_append(self, cx, v):
        return PyNone(), PyDeque(self.lo, self.hi + 1, z3.Store(self.arr, self.hi, _t(v)), self.elty,
                                 [self.lo <= self.hi] + self.axioms)

    def to_seq(self):
        lo, arr = self.lo, self.arr
        n = FreshConst(IntS, "lst_n")
        a = FreshConst(z3.ArraySort(IntS, self.elty.sort()), "lst_a")
        i = z3.Int("i!ts")
        ax = [n == self.hi - self.lo, n >= 0,
              z3.ForAll([i], z3.Implies(z3.And(0 <= i, i < n), z3.Select(a, i) == z3.Select(arr, lo + i)),
                        patterns=[z3.Select(a, i)])]
        return PySeq(n, a, self.elty, ax)


# ---- graph (dict: vertex -> iterable of vertices), read-only ---------------------
class TGraphCls(Ty):
    single = False

    def fresh(self, hint="g"):
        return PyGraph.fresh(hint)


class PyGraph(Val):
    """Read-only adjacency mapping as used by xdeps.sorting: `graph.get(v, [])`.
    adj(v) = sequence (n(v), at(v, i)); a missing key is the empty sequence.
    `R` is an over-approximation-proof reachability relation: only reflexivity,
    transitivity and edge inclusion are assumed, so whatever is proved for it
    holds for the least such relation, i.e. true reachability."""

    def __init__(self, n, at, R, axioms):
        self.n_, self.at_, self.R_, self.axioms = n, at, R, list(axioms)
        self.ty = TGraphCls()

    @staticmethod
    def fresh(hint="g"):
        n = FreshFun(hint + "_n", V, IntS)
        at = FreshFun(hint + "_at", V, IntS, V)
        return PyGraph.make(n, at, hint)

    @staticmethod
    def make(n, at, hint="g", extra_axioms=()):
        R = FreshFun(hint + "_R", V, V, BoolS)
        x, y, z = z3.Consts("x!g y!g z!g", V)
        i = z3.Int("i!g")
        ax = [
            z3.ForAll([x], n(x) >= 0, patterns=[n(x)]),
            z3.ForAll([x], R(x, x), patterns=[R(x, x)]),
            z3.ForAll([x, y, z], z3.Implies(z3.And(R(x, y), R(y, z)), R(x, z)),
                      patterns=[z3.MultiPattern(R(x, y), R(y, z))]),
            z3.ForAll([x, i], z3.Implies(z3.And(0 <= i, i < n(x)), R(x, at(x, i))),
                      patterns=[at(x, i)]),
        ]
        return PyGraph(n, at, R, ax + list(extra_axioms))

    def n(self, v):
        return self.n_(_t(v))

    def at(self, v, i):
        return self.at_(_t(v), _t(i))

    def R(self, a, b):
        return self.R_(_t(a), _t(b))

    def same(self, other):
        return z3.BoolVal(self is other)

    def ident(self, other):
        return self is other

    def adj(self, v):
        v = _t(v)
        return PyEnum(self.n_(v), lambda j: self.at_(v, j), TV, axioms=[self.n_(v) >= 0])

    def m_get(self, cx, k, default=None):
        # graph.get(v, []): a missing key is the empty adjacency (model: n(v) == 0)
        if default is not None and not (isinstance(default, PySeq) and z3.is_int_value(default.n)
                                        and default.n.as_long() == 0):
            raise Unsupported("graph.get default must be an empty list")
        return self.adj(k), None


# canonical graph view of a defaultdict(RefCount): the functions take the array
# term itself as first argument, so the same index state denotes the same view
# (same enumeration, same reachability symbol) wherever it is mentioned.
_DDA = z3.ArraySort(V, z3.ArraySort(V, IntS))
DD_n = z3.Function("dd_adj_n", _DDA, V, IntS)
DD_at = z3.Function("dd_adj_at", _DDA, V, IntS, V)
DD_idx = z3.Function("dd_adj_idx", _DDA, V, V, IntS)
DD_R = z3.Function("dd_reach", _DDA, V, V, BoolS)


def graph_of_ddict(dd, hint="rt"):
    """View a defaultdict(RefCount) as the graph `toposort` walks: adj(v) is an
    arbitrary duplicate-free enumeration of the support of dd[v]."""
    A = dd.arr
    n = lambda v: DD_n(A, v)
    at = lambda v, k: DD_at(A, v, k)
    idx = lambda v, w: DD_idx(A, v, w)
    R = lambda a, b: DD_R(A, a, b)
    x, y, z = z3.Consts("x!gd y!gd z!gd", V)
    i = z3.Int("i!gd")
    cnt = lambda a, b: z3.Select(z3.Select(A, a), b)
    ax = [
        z3.ForAll([x], n(x) >= 0, patterns=[n(x)]),
        z3.ForAll([x], R(x, x), patterns=[R(x, x)]),
        z3.ForAll([x, y, z], z3.Implies(z3.And(R(x, y), R(y, z)), R(x, z)),
                  patterns=[z3.MultiPattern(R(x, y), R(y, z))]),
        z3.ForAll([x, i], z3.Implies(z3.And(0 <= i, i < n(x)), R(x, at(x, i))), patterns=[at(x, i)]),
        z3.ForAll([x, y], z3.Implies(cnt(x, y) > 0, R(x, y)), patterns=[cnt(x, y)]),
        z3.ForAll([x, i], z3.Implies(z3.And(0 <= i, i < n(x)),
                                     z3.And(cnt(x, at(x, i)) > 0, idx(x, at(x, i)) == i)),
                  patterns=[at(x, i)]),
        z3.ForAll([x, y], z3.Implies(cnt(x, y) > 0,
                                     z3.And(0 <= idx(x, y), idx(x, y) < n(x), at(x, idx(x, y)) == y)),
                  patterns=[idx(x, y), cnt(x, y)]),
    ]
    g = PyGraph(n, at, R, ax)
    g.idx_ = idx
    g.source = dd
    return g


# ---- mutable record (`self`) ---------------------------------------------------
class TRec(Ty):
    single = False

    def __init__(self, cls, fields):
        self.cls, self.fields = cls, dict(fields)

    def fresh(self, hint="rec"):
        return PyRec(self.cls, {k: t.fresh(f"{hint}.{k}") for k, t in self.fields.items()}, self)

    def __repr__(self):
        return f"Rec[{self.cls}]"


class PyRec(Val):
    """object whose fields the verified function may assign (`self`)"""

    def __init__(self, cls, fields, ty=None):
        self.cls = cls
        self.fields = dict(fields)
        self.ty = ty or TRec(cls, {k: v.ty for k, v in fields.items()})

    def __getattr__(self, name):
        f = self.__dict__.get("fields", {})
        if name in f:
            return f[name]
        raise AttributeError(name)

    def with_field(self, name, val):
        f = dict(self.fields)
        f[name] = val
        return PyRec(self.cls, f, self.ty)

    def same(self, other):
        # (a field the verified body creates itself -- not declared in the record type, absent before -- is outside the frame)
        return z3.And([v.same(other.fields[k]) for k, v in self.fields.items() if k in other.fields] or [z3.BoolVal(True)])

    def ident(self, other):
        return (isinstance(other, PyRec) and self.fields.keys() == other.fields.keys()
                and all(v.ident(other.fields[k]) for k, v in self.fields.items()))


# singletons
TV = TVCls()
TInt = TIntCls()
TBool = TBoolCls()
TReal = TRealCls()
TNone = TNoneCls()
TSet = TSetCls()
TCount = TCountCls()
TDDict = TDDictCls()
TGraph = TGraphCls()


def TObj(cls):
    return TVCls(cls)


def term(x):
    """raw z3 term of a scalar Val (identity on z3 terms)"""
    return _t(x)


class TTuple(Ty):
    """fixed-length tuple of typed components (results of functions returning several values)"""
    single = False

    def __init__(self, *tys):
        self.tys = tys

    def fresh(self, hint="tup"):
        return PyTuple([t.fresh(f"{hint}.{k}") for k, t in enumerate(self.tys)])
