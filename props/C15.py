ID = "C15"
LEVEL = "other"
CONTRACT_MODULES = ["contracts.optimize_state", "contracts.optimize", "contracts.matrixutils"]
FUNCTIONS = ["Optimize.step@take-best-block", "Optimize.step@start-row-block", "Optimize.reload@restore-block", "Optimize.step@self-calls",
             "Optimize.reload@self-calls", "Optimize.add_point_to_log@self-calls", "Optimize.tag@self-calls", "Optimize.clear_log@self-calls"]
# every method of Optimize that touches self._log, directly or through self-calls (read off the real class on every run)
from contracts.optimize import LOG_METHODS as _LM      # noqa: E402
FUNCTIONS += [f"Optimize.{m}@log-aligned" for m in _LM]
# which knobs / targets take part in an evaluation is read off the CURRENT active flags on every access
FUNCTIONS += ["MeritFunctionForMatch.mask_input", "MeritFunctionForMatch.mask_output"]
RAC = "rac/c15.py"
RAC_BUDGET = {"quick": 60, "thorough": 900}
RAC_MIN = {"quick": 160, "thorough": 160}      # fewer run-time evaluations than this = the harness skipped its work: checker broken, not "held"
DESIGN_REF = "DESIGN.md section 4, C15"
TECHNIQUE = "contract-based deductive verification of the take_best / starting-row / restore blocks of Optimize.step and Optimize.reload (pyvc block contracts over the log's penalty column; z3) and of the class invariant 'all log columns have the same length on every normal and exceptional exit' over every Optimize method that touches the log (pyvc column-alignment engine) + run-time contracts: every row of every log reloaded and re-evaluated independently"
TRUSTED = ["floats are treated as reals (DESIGN 2.3(1)); every 'up to rounding' clause is run-time only", 'numpy-lite model of pyvc/num_engine.py (vectors as length + array, in-place scaling as a scalar factor, np.abs/argmin/all, zip/enumerate/range) and, for element-wise numpy code, the pointwise abstraction of pyvc/pointwise_engine.py', 'numpy / LAPACK / scipy themselves', 'z3 (NRA/LRA + quantifiers), cvc5']
ASSUMPTIONS = ["log alignment: len, hasattr, isinstance, range, ''.join and _bool_array_to_string do not raise; in the step loop, set_knobs_from_x / _extract_knob_values after a successful solver.step re-write / read back the values the merit function has just written and are assumed not to raise (deterministic containers); attribute loads do not raise; asynchronous exceptions (KeyboardInterrupt) are outside the model", "reload(i) reproduces row i's penalty (determinism of the user function) -- assumed by the take_best block, checked at run time", 'the last logged row describes the point in the containers when the take_best block starts (established by the logging code of the step loop; run-time checked)']
BOUNDED = ["each row is truthful (penalty and targets equal an independent evaluation at the row's knobs, reload re-logs the same penalty): run-time only, on random call sequences (step/solve/reload/tag/enable/disable/clear_log) over generated problems"]
EXPLANATION = "proved: a log row is appended completely or not at all -- at every return, raise, assert, may-raise call, subscript and loop edge of every log-touching method all eleven columns have the same length (so row i of every column describes the same point); after the take_best block the current point is within tolerance or its penalty is <= every penalty logged since the row of the call's starting point (np.argmin over log[i_log_start:], reload of i_best + i_log_start); i_log_start is the index of the row logged for the starting point; reload's loop restores value and flag of every knob of the row"
LEVEL_TEXT = "Mixed: the functions and blocks listed under `functions` are proved (every obligation discharged from the real source on every run); the clauses listed under `bounded` are run-time contract checks on generated problems. Never claimed as proof."
LEVEL_NOTE = "See TRUSTED / BOUNDED / ASSUMPTIONS in the evidence file."
