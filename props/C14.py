ID = "C14"
LEVEL = "other"
CONTRACT_MODULES = ["contracts.table_rect", "contracts.table_ctor"]
FUNCTIONS = ["Table.__init__@unchecked", "Table.keys", "Table._select_rows", "Table._select_cols", "Table._copy", "Table.__mul__", "Table.__add__", "Table._append_row@rect", "Table._concatenate_table@rect",
             "Table.__getitem__@string-argument", "Table.__getitem__@column-of-a-cell-access"]
RAC = "rac/c14.py"
RAC_BUDGET = {"quick": 60, "thorough": 600}
RAC_MIN = {"quick": 2553, "thorough": 2553}      # fewer run-time evaluations than this = the harness skipped its work: checker broken, not "held"
DESIGN_REF = "DESIGN.md section 4, C14"
TECHNIQUE = ("contract-based deductive verification of the class invariant Rect across the deriving methods every selection goes "
             "through (pyvc rect engine: column lists with object identity, dicts, numpy selection length; z3) + run-time contracts "
             "on exhaustive derivation chains with snapshots of every earlier table")
TRUSTED = ["numpy along the first axis: len(np.concatenate([a] * k)) == k * len(a) (ValueError for k <= 0), len(np.concatenate([a, b])) == len(a) + len(b) "
           "or ValueError, len(np.r_[a, [x]]) == len(a) + 1", "numpy: len(a[rows]) depends on rows and len(a) only; element-wise evaluation of column expressions (Table.__getitem__ with a string: assumed contract)",
           "Table.__init__: the unchecked constructor (verify=False) stores its arguments as given and starts without lookup tables -- proved on the real text as Table.__init__@unchecked (contracts/table_ctor.py); at the call sites inside the derivations it is used as that fact; the CHECKED constructor (dtype tests, set of column lengths) copies dict and list and refuses ragged columns: assumed, run-time checked",
           "z3 / cvc5"]
ASSUMPTIONS = ["_append_row / _concatenate_table: no claim when a column is missing in the row / numpy refuses a column half way (the loop "
               "raises with columns of two lengths); t * num with a non-integer num is outside the contract",
               "deriving itself changes nothing in the source; in-place cell/column writes on a derived table that shares ARRAYS with its "
               "source (row slices are numpy views, _copy/cols share column arrays) are outside the statement",
               "_select_cols may insert the index name into the list it is given (declared in its frame); cols[...] always passes a fresh list",
               "requested column names are distinct and are columns or expressions, not scalar entries"]
BOUNDED = ["the module-level concatenate, transposition, _select (expression fallback with row views), the checked constructor's rejections, "
           "element-wise evaluation of column expressions: run-time only (all derivation chains of length <= 2 on tables of 0..4 rows)"]
EXPLANATION = ("proved: t['text'] and the column of t['text', row] resolve alike -- the stored entry if there is one, else the text evaluated with the "
               "math functions as globals and the table's entries as LOCALS (a column named like a function means the column); "
               "proved for t * num (__mul__: every listed column of a copy repeated num times), t1 + t2 (__add__: a copy of t1 concatenated in "
               "place with t2, empty frame on both operands), _concatenate_table and _append_row (Rect with len1 + len2 / len + 1 rows, "
               "same column list; tables with the same columns as sets), and for "
               "_select_rows (behind rows[...], head, tail, reverse, unary minus), _select_cols (behind cols[...]) and _copy: "
               "Rect(self) implies Rect(result) with the expected common length, the same index column, the derived column list is a "
               "new list object (never the source's, never the caller's), scalar entries are carried over, and nothing reachable "
               "from the source table is modified")
LEVEL_TEXT = ("Mixed: seven deriving methods proved (z3), the others are run-time contract checks over exhaustive short "
              "derivation chains. Never claimed as proof.")
LEVEL_NOTE = "See TRUSTED / BOUNDED in the evidence file."
