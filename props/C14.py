ID = "C14"
LEVEL = "other"
CONTRACT_MODULES = ["contracts.table_rect"]
FUNCTIONS = ["Table._select_rows", "Table._select_cols", "Table._copy"]
RAC = "rac/c14.py"
RAC_BUDGET = {"quick": 60, "thorough": 600}
DESIGN_REF = "DESIGN.md section 4, C14"
TECHNIQUE = ("contract-based deductive verification of the class invariant Rect across the deriving methods every selection goes "
             "through (pyvc rect engine: column lists with object identity, dicts, numpy selection length; z3) + run-time contracts "
             "on exhaustive derivation chains with snapshots of every earlier table")
TRUSTED = ["numpy: len(a[rows]) depends on rows and len(a) only; element-wise evaluation of column expressions (Table.__getitem__ with a string: assumed contract)",
           "Table.__init__: the unchecked constructor stores its arguments as given, the checked one copies dict and list (assumed)",
           "Table.keys(exclude_columns=True) == set(_data) - set(_col_names) (assumed)", "z3 / cvc5"]
ASSUMPTIONS = ["deriving itself changes nothing in the source; in-place cell/column writes on a derived table that shares ARRAYS with its "
               "source (row slices are numpy views, _copy/cols share column arrays) are outside the statement",
               "_select_cols may insert the index name into the list it is given (declared in its frame); cols[...] always passes a fresh list",
               "requested column names are distinct and are columns or expressions, not scalar entries"]
BOUNDED = ["+, *, concatenate, transposition, _select (expression fallback with row views), the checked constructor's rejections, "
           "element-wise evaluation of column expressions: run-time only (all derivation chains of length <= 2 on tables of 0..4 rows)"]
EXPLANATION = ("proved for _select_rows (behind rows[...], head, tail, reverse, unary minus), _select_cols (behind cols[...]) and _copy: "
               "Rect(self) implies Rect(result) with the expected common length, the same index column, the derived column list is a "
               "new list object (never the source's, never the caller's), scalar entries are carried over, and nothing reachable "
               "from the source table is modified")
LEVEL_TEXT = ("Mixed: three deriving methods proved (34 obligations, z3), the others are run-time contract checks over exhaustive short "
              "derivation chains. Never claimed as proof.")
LEVEL_NOTE = "See TRUSTED / BOUNDED in the evidence file."
