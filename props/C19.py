ID = "C19"
LEVEL = "other"
CONTRACT_MODULES = ["contracts.madx"]
FUNCTIONS = ["MadxEval.__init__@callbacks", "MadxEval.assign_var@token-keys", "MadxEval.var@token-keys", "MadxEval.getitem@token-keys",
             "MadxEval.getattr@token-keys"]
# the arithmetic a parsed expression is made of: operator constructors and node evaluation (C04), dependency walkers (C05)
import props.C04 as _p4      # noqa: E402
BORROW = [("C04", [f for f in _p4.FUNCTIONS if not f.startswith("MutableRef.__i") and f not in ("AttrRef._set_value", "ItemRef._set_value")]), ("C05", ['MutableRef._get_dependencies', 'Ref._get_dependencies', 'BinOpExpr._get_dependencies', 'UnaryOpExpr._get_dependencies', 'LiteralExpr._get_dependencies', 'BuiltinRef._get_dependencies', 'CallRef._get_dependencies']),
          # "keeps doing so after the variables change through the manager": the assignment stores the value and runs the dependants
          ("C01", ["Manager.set_value", "Manager.run_tasks", "ExprTask.run", "ExprTask.__init__"])]
RAC = "rac/c19.py"
RAC_BUDGET = {"quick": 60, "thorough": 600}
RAC_MIN = {"quick": 149, "thorough": 149}      # fewer run-time evaluations than this = the harness skipped its work: checker broken, not "held"
DESIGN_REF = "DESIGN.md section 4, C19"
TECHNIQUE = ("contract-based: the callback table and the grammar of the single evaluator class shared by the deferred and the immediate "
             "evaluation are decided on the real source (each callback bound to the operator function its rule stands for), the operator "
             "homomorphisms themselves are the proved C04 overload contracts; + run-time contracts on generated sentences of the grammar")
TRUSTED = ["lark: LALR construction, both Lark instances parse a string to the same tree, bottom-up Transformer walk",
           "C04 contracts (operator.f on a reference builds the node whose value is f of the operand values; NaN only for / by zero)",
           "Python float arithmetic for the 'fully parenthesised equals Python' clause"]
ASSUMPTIONS = ["a zero raised to a negative power raises ZeroDivisionError in both evaluations (not a division: no NaN substitution)",
               "the induction over the parse tree is carried by lark's Transformer (trusted), rule by rule the callbacks are the same objects"]
BOUNDED = ["deferred == immediate == Python on all sentences to depth 2 (quick) / 3, after changes through the manager, repeated "
           "evaluation of one string, literal-sensitive pairs: run-time only"]
EXPLANATION = ("decided on every run from xdeps/madxutils.py: add/sub/mul/div/pow/neg/pos are class attributes bound to operator.add/sub/mul/"
               "truediv/pow/neg/pos, number to float; the grammar maps + - * / ^ ** and the unary signs to exactly these callbacks with the "
               "documented nesting, and defines no other callback")
LEVEL_TEXT = "Mixed: callback/grammar table decided syntactically (27 obligations), operator semantics inherited from C04, parser trusted, values bounded at run time. Never claimed as proof."
LEVEL_NOTE = "See TRUSTED / BOUNDED in the evidence file."
