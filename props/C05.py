from pyvc.refs_engine import RefsEngine
from contracts import refs_deps as _d
ID = "C05"
LEVEL = "proof"
CONTRACT_MODULES = ["contracts.refs", "contracts.refs_deps"]
FUNCTIONS = [c.qualname for c in _d.CONTRACTS if not c.trusted]
ENGINE = RefsEngine
# the manager's report of an expression's dependencies: ExprTask.__init__ stores expr._get_dependencies() unchanged (proved under C01's configuration)
BORROW = [("C01", ["ExprTask.__init__"])]
RAC = "rac/c05.py"
RAC_BUDGET = {"quick": 60, "thorough": 120}
RAC_MIN = {"quick": 955, "thorough": 955}      # fewer run-time evaluations than this = the harness skipped its work: checker broken, not "held"
DESIGN_REF = "DESIGN.md section 4, C05"
TECHNIQUE = "contract-based deductive verification (pyvc, z3: set-valued postcondition result == out U locs(self) per override) + run-time contracts per node class and slot"
TRUSTED = ["tuple slots are finite sequences (tuple_len/tuple_at)", "z3", "Cython compiles refs.py faithfully"]
ASSUMPTIONS = [
    "locs is defined from the statement over ALL constructor slots of each class (contracts/refspec.py SLOTS), element-wise for tuple slots and over kwargs values",
    "UnaryOpExpr._arg is a ref (unary nodes are only built by BaseRef.__neg__/__pos__/__invert__)",
    "dynamic dispatch on child._get_dependencies uses the generic contract; each override is proved against it (structural induction)",
]
BOUNDED = ["'changing a location changes the dependant' (needs C01's propagation) is checked at run time by perturbing each location"]
EXPLANATION = ("every override of _get_dependencies (MutableRef, Ref, BinOpExpr, UnaryOpExpr, LiteralExpr, BuiltinRef, CallRef) "
               "is proved to return a set equal to out U locs(self) and to update a caller-supplied accumulator in place")
LEVEL_TEXT = "Set-valued postconditions discharged by z3 for arbitrary nodes; loops over tuple slots with prefix-union invariants."
LEVEL_NOTE = "Trusted: tuple model, SMT solver. Node classes are re-discovered from the source on every run."
