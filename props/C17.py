from pyvc.tasks_engine import TasksEngine
ID = "C17"
LEVEL = "proof"
CONTRACT_MODULES = ["contracts.sorting", "contracts.refcount", "contracts.tasks", "contracts.tasks_proto"]
FUNCTIONS = ["Manager.freeze_tree", "Manager.unfreeze_tree", "Manager.register", "Manager.unregister",
             "Manager.register@protocol", "Manager.refresh", "Manager.load", "Manager.set_value",
             "Manager.copy_expr_from", "ExprTask.__init__"]
# after a thawed refresh the indices equal F(registered tasks) (C03)
BORROW = [("C03", ["Manager.refresh@rebuild", "Manager.register@rebuild", "Manager.cleanup@abstract-identity"])]
RAC = "rac/c17.py"
RAC_BUDGET = {"quick": 60, "thorough": 900}
RAC_MIN = {"quick": 2741, "thorough": 2741}      # fewer run-time evaluations than this = the harness skipped its work: checker broken, not "held"
DESIGN_REF = "DESIGN.md section 4, C17"
TECHNIQUE = ("contract-based deductive verification (pyvc VC generation from the real AST of every Manager mutator; "
             "frozen => raises ValueError with an empty frame, or returns with the graph unchanged; z3/cvc5) + run-time "
             "contracts on exhaustive short histories")
TRUSTED = [
    "pyvc container library models (dict/set/defaultdict(RefCount)/list)",
    "virtual callees assumed by contract: BaseRef._get_value (pure), MutableRef._set_value (one store; a raising store "
    "leaves the data unchanged), Task.run, BaseRef._get_dependencies (result = locs, proved under C05)",
    "ExprTask(...) constructor call runs ExprTask.__init__ on a fresh object (ExprTask.__init__ is proved)",
    "Manager.cleanup changes no count of any index: proved (Manager.cleanup@abstract-identity, borrowed from C03); absent entry == empty entry is the modelling decision (DESIGN 2.3(2))",
    "counting lemma / finite-sum axioms of C03", "z3 / cvc5", "Cython compilation of refs.py",
]
ASSUMPTIONS = [
    "all mutation of user data goes through MutableRef._set_value and Task.run (ghost heap / run trace)",
    "user-level failures are modelled as one exception class UserError; the verified methods contain no handler",
    "copy_expr_from: decided syntactically (receiver reached only through self.load and a read of self.containers)",
    "in-place operators and __setitem__/__setattr__ of refs reduce to Manager.set_value (C04 contracts)",
    "refresh: proved here: frozen => raises first, definitions and flag unchanged otherwise; IdxWF after a thawed refresh is "
    "proved as Manager.refresh@rebuild (borrowed from C03)",
]
BOUNDED = ["query answers (_expr, tartasks, find_deps) and 'behaves as if never frozen' after unfreeze: run-time only "
           "(they are functions of tasks/indices/flag, which are proved unchanged)"]
EXPLANATION = ("for every Manager method that can write tasks or an index (register, unregister, set_value, load, "
               "copy_expr_from, refresh) the contract 'frozen => (raises ValueError and modifies nothing) or (returns "
               "with tasks, indices and flag unchanged)' is discharged from the real source; freeze_tree/unfreeze_tree "
               "modify only the flag; set_value's plain-value path is proved to store and then run exactly the "
               "scheduled dependants")
LEVEL_TEXT = ("All obligations of the listed methods are discharged by z3 for every manager state satisfying the index "
              "invariant, every ref/value and every iteration order; a run that leaves any obligation open records "
              "level 'other'.")
LEVEL_NOTE = ("Trusted: library models, virtual-callee contracts (user containers, task actions), cleanup as abstract "
              "identity, SMT solvers. copy_expr_from is a syntactic frame check. Behavioural clauses (queries, "
              "as-if-never-frozen) are additionally checked at run time on all histories of length <=2 (quick) / 3.")
