ID = "C16"
LEVEL = "other"
CONTRACT_MODULES = ["contracts.optimize", "contracts.matrixutils"]
FUNCTIONS = ["SVD.lstsq", "MeritFuctionView._scaled_to_native", "MeritFuctionView._scaled_from_native", "MeritFunctionForMatch._x_to_knobs",
             "MeritFunctionForMatch._knobs_to_x", "MeritFunctionForMatch.get_jacobian@finite-difference-block",
             "MeritFuctionView.get_jacobian@chain-rule-factor", "MeritFuctionView._check_for_scalability@reads-only",
             "MeritFunctionForMatch._get_x_limits@proved"]
# the caller of SVD.lstsq: the Newton step is lstsq(y[mask_output], rcond=<step's rcond>, sing_val_cutoff=<step's cutoff>) of the masked Jacobian (proved under C10's configuration)
BORROW = [("C10", ["JacobianSolver.step@newton-step-block"])]
RAC = "rac/c16.py"
RAC_BUDGET = {"quick": 60, "thorough": 900}
RAC_MIN = {"quick": 586, "thorough": 586}      # fewer run-time evaluations than this = the harness skipped its work: checker broken, not "held"
DESIGN_REF = "DESIGN.md section 4, C16"
TECHNIQUE = 'contract-based deductive verification (pyvc pointwise engine: SVD.lstsq computes the truncated pseudo-inverse term, the view scalings are the two affine maps and are proved mutually inverse as lemmas; z3 NRA) + run-time contracts against numpy.linalg references and finite differences'
TRUSTED = ["floats are treated as reals (DESIGN 2.3(1)); every 'up to rounding' clause is run-time only", 'numpy-lite model of pyvc/num_engine.py (vectors as length + array, in-place scaling as a scalar factor, np.abs/argmin/all, zip/enumerate/range) and, for element-wise numpy code, the pointwise abstraction of pyvc/pointwise_engine.py', 'numpy / LAPACK / scipy themselves', 'z3 (NRA/LRA + quantifiers), cvc5']
ASSUMPTIONS = ['finite-difference block: the merit function is a deterministic map of the evaluation point (uninterpreted); finite-difference steps non-zero, weights positive', 'bounds[:,1] != bounds[:,0] and rescale_x[1] != rescale_x[0] (not enforced by _check_for_scalability)']
BOUNDED = ["that the pseudo-inverse term is the minimum-norm least-squares solution (linear algebra, trusted), one-step convergence on well-conditioned linear problems, agreement of view Jacobians with finite differences, all 'up to rounding' clauses: run-time only"]
EXPLANATION = 'proved: the factor by which the rescaled view multiplies the columns of the native Jacobian is (upper - lower) / (rescale_x[1] - rescale_x[0]) from the current bounds, for every normalised interval (through the proved _scaled_to_native); in MeritFunctionForMatch.get_jacobian every active column is the forward difference (merit(x + h e_j) - f0) / h with ONE h = step_j / weight_j (optimizer units) for the increment and the divisor, and the evaluation point is put back after every column; SVD.lstsq returns Vh[:c].T @ diag(s+) @ U[:,:c].T @ b with s+[i] = 1/s[i] iff i < cutoff, s[i] > 0 and not s[i] < rcond*s[0] (relative threshold), else 0; _scaled_to_native/_scaled_from_native are the affine maps between the normalised interval and the native bounds, inverse to each other in both directions, with chain-rule factor (hi-lo)/(s1-s0); _x_to_knobs/_knobs_to_x are inverse for positive weights; _get_x_limits is the knob limits divided by the weights (the bounds the rescaled views interpolate between); _check_for_scalability only reads the view'
LEVEL_TEXT = "Mixed: the functions and blocks listed under `functions` are proved (every obligation discharged from the real source on every run); the clauses listed under `bounded` are run-time contract checks on generated problems. Never claimed as proof."
LEVEL_NOTE = "See TRUSTED / BOUNDED / ASSUMPTIONS in the evidence file."
