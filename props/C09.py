ID = "C09"
LEVEL = "other"
CONTRACT_MODULES = ["contracts.optimize_state", "contracts.optimize", "contracts.matrixutils", "contracts.jacobian_bisect"]
FUNCTIONS = ["Optimize.solve", "Optimize.solve@self-calls", "Optimize.step@self-calls", "Optimize.reload@self-calls", "Optimize.reload@restore-block",
             "MeritFunctionForMatch.__call__@within-tol-flag", "MeritFunctionForMatch.__call__@knob-block", "Optimize.set_knobs_from_x",
             "JacobianSolver.step@bisection-block", "JacobianSolver.eval@calls-the-merit-function-at-x"]
# "otherwise restores the knobs": the restore goes through reload(iteration=0), whose block writes EVERY knob of the logged row and its flags (proved under C15)
BORROW = [("C15", ["Optimize.reload@restore-block"])]
# which knobs / targets take part in an evaluation is read off the CURRENT active flags on every access
FUNCTIONS += ["MeritFunctionForMatch.mask_input", "MeritFunctionForMatch.mask_output"]
RAC = "rac/c09.py"
RAC_BUDGET = {"quick": 60, "thorough": 900}
RAC_MIN = {"quick": 239, "thorough": 239}      # fewer run-time evaluations than this = the harness skipped its work: checker broken, not "held"
DESIGN_REF = "DESIGN.md section 4, C09"
TECHNIQUE = 'contract-based deductive verification of the solve() protocol and of the blocks that restore / evaluate (pyvc: exceptional postconditions, block contracts on the real statements; z3) + run-time contracts on generated matching problems with an independent evaluator'
TRUSTED = ["floats are treated as reals (DESIGN 2.3(1)); every 'up to rounding' clause is run-time only", 'numpy-lite model of pyvc/num_engine.py (vectors as length + array, in-place scaling as a scalar factor, np.abs/argmin/all, zip/enumerate/range) and, for element-wise numpy code, the pointwise abstraction of pyvc/pointwise_engine.py', 'numpy / LAPACK / scipy themselves', 'z3 (NRA/LRA + quantifiers), cvc5']
ASSUMPTIONS = ['bisection block: every numerical value is opaque (pyvc/opaque_engine.py: a OP b is one uninterpreted term wherever it is evaluated; comparisons, subscripts, numpy calls arbitrary); JacobianSolver.eval(x) evaluates the merit function exactly once, at x (assumed at the call site, proved on the body of eval); func._get_x_limits() is pure', 'Optimize.step / Optimize.reload are assumed by contract at the call sites inside solve() (append-only log, reload(0) restores row 0); their inner blocks are proved separately', "user function deterministic, never returns the string 'failed'", 'assert_within_tol is on (the default); with it off the first clause is void']
BOUNDED = ['that the flag refers to the knob values left in the containers (evalpt = K across Optimize.step and JacobianSolver.step), Optimize.step as a whole and JacobianSolver.step as a whole are assumed at the call sites of solve(); checked at run time: 1200 (quick) / 8000 generated solves incl. user-action failures, limit violations, knobs enabled after row 0']
EXPLANATION = "proved: in JacobianSolver.step the bisection block ends with an evaluation of the merit function at exactly the point it then writes to self.x (also when the limit check has cancelled the whole sub-step), so the within-tolerance flag describes the accepted point; on the error_on_penalty_increase exit the block re-evaluates at the unchanged point; Optimize.solve returns normally only with the within-tolerance flag of the last evaluation set (assert_within_tol), and every exceptional exit with restore_if_fail passes through reload(iteration=0) (handler covers every exception class); the flag is assigned, in both branches, to 'all active targets within tolerance'; reload's loop writes the raw logged value and flag of every knob; knob writers touch active knobs only"
LEVEL_TEXT = "Mixed: the functions and blocks listed under `functions` are proved (every obligation discharged from the real source on every run); the clauses listed under `bounded` are run-time contract checks on generated problems. Never claimed as proof."
LEVEL_NOTE = "See TRUSTED / BOUNDED / ASSUMPTIONS in the evidence file."
