ID = "C10"
LEVEL = "other"
CONTRACT_MODULES = ["contracts.optimize", "contracts.matrixutils", "contracts.jacobian_bisect"]
FUNCTIONS = ["MeritFunctionForMatch._clip_to_max_steps", "MeritFunctionForMatch._x_to_knobs", "MeritFunctionForMatch._knobs_to_x",
             "JacobianSolver.step@limit-block", "Optimize.set_knobs_from_x", "MeritFunctionForMatch.__call__@knob-block", "Optimize.step@self-calls",
             "JacobianSolver.step@newton-step-block"]
# take_best reloads a logged row (knob values AND active flags): which rows it may pick is decided under C15
BORROW = [("C15", ["Optimize.step@start-row-block", "Optimize.step@take-best-block", "Optimize.reload@restore-block"])]
RAC = "rac/c10.py"
RAC_BUDGET = {"quick": 60, "thorough": 900}
RAC_MIN = {"quick": 519, "thorough": 519}      # fewer run-time evaluations than this = the harness skipped its work: checker broken, not "held"
DESIGN_REF = "DESIGN.md section 4, C10"
TECHNIQUE = 'contract-based deductive verification (pyvc: nonlinear real arithmetic loop invariants for _clip_to_max_steps, block contract on the limit loop of JacobianSolver.step, frame of the knob writers via a ghost write map; z3) + run-time contracts on generated problems (log rows, write trace, two-run comparison)'
TRUSTED = ["floats are treated as reals (DESIGN 2.3(1)); every 'up to rounding' clause is run-time only", 'numpy-lite model of pyvc/num_engine.py (vectors as length + array, in-place scaling as a scalar factor, np.abs/argmin/all, zip/enumerate/range) and, for element-wise numpy code, the pointwise abstraction of pyvc/pointwise_engine.py', 'numpy / LAPACK / scipy themselves', 'z3 (NRA/LRA + quantifiers), cvc5']
ASSUMPTIONS = ['Newton-step block: every numerical value is opaque and, inside the block, reads are functions of their operands (no collaborator is mutated between the statements of the block); SVD(...), .lstsq(...), ._clip_to_max_steps(...), .copy() are pure', 'x inside the limits at the entry of the limit block is the solver invariant (started inside; only moved by steps that passed the block)', "weights positive (Vary's constructor assert), max_step >= 0"]
BOUNDED = ["'a disabled target has no influence on the steps' (relational, two runs), the bisection factor and the composition of the blocks inside JacobianSolver.step / Optimize.step, limits in the presence of rounding for non-unit weights: run-time only"]
EXPLANATION = 'proved: the Newton-step block of JacobianSolver.step computes exactly clip(scatter(zeros, mi, lstsq(SVD(jac[mo, :][:, mi]), y[mo]))) with mi = active knobs not frozen at a limit and mo = active targets -- a disabled target contributes neither a row of the Jacobian nor an entry of the residual, a masked knob gets a zero step, and max_step is applied to the full-length vector (matched to knobs by position); _clip_to_max_steps returns lam*x_step with 0<=lam<=1 and weight*|step_i| <= max_step_i for every knob with a max_step; the limit loop of JacobianSolver.step leaves x - step inside the closed limits coordinate by coordinate (given x inside: solver invariant); _x_to_knobs/_knobs_to_x multiply/divide by the positive weight (so limits commute with the scaling); set_knobs_from_x and the knob loop of __call__ write exactly the active knobs, the latter raising before the offending knob is written when check_limits; every self-call in Optimize.step matches the real signatures (disable_target keyword)'
LEVEL_TEXT = "Mixed: the functions and blocks listed under `functions` are proved (every obligation discharged from the real source on every run); the clauses listed under `bounded` are run-time contract checks on generated problems. Never claimed as proof."
LEVEL_NOTE = "See TRUSTED / BOUNDED / ASSUMPTIONS in the evidence file."
