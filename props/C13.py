ID = "C13"
LEVEL = "other"
CONTRACT_MODULES = ["contracts.sorting", "contracts.refcount", "contracts.tasks", "contracts.tasks_proto"]
FUNCTIONS = ["Manager.mk_fun", "Manager.find_tasks", "Manager.find_taskids", "toposort"]
# the generated setter starts from the dependencies of its arguments (C05)
BORROW = [('C05', ['MutableRef._get_dependencies', 'Ref._get_dependencies']),
          # every line of the generated function is the PRINTED form of a task (target = expression): the printing rules are C11's
          ('C11', ['Ref.__repr__', 'AttrRef.__repr__', 'ItemRef.__repr__', 'BinOpExpr.__repr__', 'UnaryOpExpr.__repr__', 'LiteralExpr.__repr__',
                   'EqExpr.__repr__', 'NeExpr.__repr__', 'BuiltinRef.__repr__', 'CallRef.__repr__', 'BinOpExpr.__repr__@operator-tokens'])]
RAC = "rac/c13.py"
RAC_BUDGET = {"quick": 60, "thorough": 900}
RAC_MIN = {"quick": 5387, "thorough": 5387}      # fewer run-time evaluations than this = the harness skipped its work: checker broken, not "held"
DESIGN_REF = "DESIGN.md section 4, C13"
TECHNIQUE = ("contract-based deductive verification of the structure of the generated source (pyvc: Manager.mk_fun against the proved "
             "find_tasks/toposort contracts, f-strings and joins as uninterpreted text functions; z3) + run-time translation validation: "
             "generated setter vs set_value on twin managers")
TRUSTED = ["Python's exec / parser: executing the generated text performs the stores and evaluations its lines denote (printing faithfulness "
           "is C11's subject)", "f-strings and str.join as uninterpreted functions of their parts (equal parts, equal text)",
           "virtual callee BaseRef._get_dependencies (proved under C05)", "pyvc container models, z3 / cvc5"]
ASSUMPTIONS = ["expression-only managers (a FunctionTask prints as <Task ...> and cannot be part of a generated function)",
               "equivalence with assigning through the manager (first sentence) follows from C01 for acyclic declared graphs; it is checked "
               "at run time, not proved", "known finding K1 (C01) applies to both executions alike"]
BOUNDED = ["container state after f(*values) == after set_value per argument: run-time only (all managers of <= 3/4 definitions x all argument "
           "subsets of <= 3 undefined locations; arguments inside containers that another task reads as a whole; regeneration after a removal)"]
EXPLANATION = ("proved: the text returned by mk_fun is the header, then one line `ref = argname` per keyword argument in order, then one line per "
               "task of find_tasks(start) in order, where start is the union of the argument locations and their enclosing containers (what "
               "set_value uses); by the proved find_tasks contract these are exactly the triggered tasks, once each, in dependency order")
LEVEL_TEXT = "Mixed: structure of the generated source proved (23 + callee obligations), behavioural equivalence bounded at run time. Never claimed as proof."
LEVEL_NOTE = "See TRUSTED / BOUNDED in the evidence file."
