from pyvc.refs_engine import RefsEngine
from contracts import refs as _r
ID = "C04"
LEVEL = "proof"
CONTRACT_MODULES = ["contracts.refs"]
FUNCTIONS = [c.qualname for c in _r.CONTRACTS if not c.trusted]
ENGINE = RefsEngine
RAC = "rac/c04.py"
RAC_BUDGET = {"quick": 60, "thorough": 300}
RAC_MIN = {"quick": 1575, "thorough": 1575}      # fewer run-time evaluations than this = the harness skipped its work: checker broken, not "held"
DESIGN_REF = "DESIGN.md section 4, C04"
TECHNIQUE = "contract-based deductive verification (pyvc: quantifier-free VCs over uninterpreted Python operators, z3) + differential run-time contracts on the compiled extension"
TRUSTED = [
    "Python operator dispatch model (DESIGN 2.3(3)): a OP b with a BaseRef operand calls the overload, ground instances only",
    "MutableRef._expr (property reading Manager.tasks) returns the registered expression or None: assumed contract",
    "recognised comprehension shapes (map of BaseRef._mk_value over a tuple slot) are modelled by map_val/map_kw",
    "z3 (QF_UF)", "Cython compiles refs.py faithfully (the run-time part executes the compiled extension)",
]
ASSUMPTIONS = [
    "operators, builtins and calls on opaque Python values are uninterpreted functions with an exception component",
    "expected operator and operand order per special method come from the Python data-model table in contracts/refspec.py, not from method bodies",
    "numpy scalar/array standing to the left of a ref is excluded (statement of C04)",
    "__rlt__/__rle__/__rge__/__rgt__ are not Python hooks (never called by the interpreter) and get no contract",
    "in-place operators: operand is a plain value",
]
BOUNDED = []
EXPLANATION = ("every _get_value override (22 operator classes, literal, builtin, call, item/attribute/top-level refs), "
               "_mk_value, 32 operator overloads, 7 builtin hooks (round in both call forms) and all 13 in-place operators "
               "are proved against eval/val as defined by the statement; structural induction over expression depth is "
               "carried by dynamic dispatch on the generic _get_value contract")
LEVEL_TEXT = ("All obligations are quantifier-free and discharged by z3 for arbitrary operand values and arbitrary nesting "
              "(modular: children through the generic contract). The differential run-time check covers what the "
              "uninterpreted-operator abstraction cannot see (actual Python/numpy arithmetic, result types).")
LEVEL_NOTE = "Trusted: dispatch model, _expr property contract, comprehension models, z3, Cython."
