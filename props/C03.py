ID = "C03"
LEVEL = "proof"
CONTRACT_MODULES = ["contracts.sorting", "contracts.refcount", "contracts.tasks", "contracts.tasks_proto", "contracts.tasks_rebuild"]
FUNCTIONS = ["RefCount.append", "RefCount.extend", "RefCount.remove", "Manager.register", "Manager.unregister", "Manager.set_value",
             # the two methods that rebuild the indices from the registered tasks: indices == F(tasks) afterwards, whatever they held before
             "Manager.register@rebuild", "Manager.refresh@rebuild", "Manager.clone", "Manager.__init__@fresh-manager", "Manager.cleanup@abstract-identity"]
# refresh rebuilds the indices from the registered tasks (C17)
# load replaces / adds definitions through unregister + register and keeps the index invariant (C17)
BORROW = [('C17', ['Manager.refresh', 'Manager.load'])]
# code-independent lemmas behind the SMT axioms (counting lemma, prefix-count equations, finite sums, history independence): checked by Lean 4 + Mathlib
LEMMAS = ["lemmas/Counting.lean", "lemmas/Sums.lean"]
RAC = "rac/c03.py"
RAC_BUDGET = {"quick": 60, "thorough": 900}
RAC_MIN = {"quick": 2912, "thorough": 2912}      # fewer run-time evaluations than this = the harness skipped its work: checker broken, not "held"
DESIGN_REF = "DESIGN.md section 4, C03"
TECHNIQUE = "contract-based deductive verification (pyvc VC generation from the real AST, z3/cvc5) + run-time contracts on exhaustive short histories"
TRUSTED = [
    "CPython dict/set/defaultdict semantics via pyvc library models (pyvc/values.py)",
    "counting lemma (prefix count over a duplicate-free enumeration of A of membership in B equals |A n B|), the defining equations / monotonicity of the "
    "prefix count, the finite-sum facts about rdeps_sum (empty, add / remove one summand, dominates each summand) and history independence (exact +delta / "
    "-delta steps give the sum over the final task set) are PROVED in lemmas/Counting.lean and lemmas/Sums.lean and re-checked by Lean 4 + Mathlib in this "
    "check (evidence: lemmas_checked); trusted: that the SMT axioms in contracts/tasks.py are these theorems instantiated (sets as characteristic "
    "arrays, the enumeration as the loop's iteration order)",
    "z3 / cvc5", "Cython compiles refs.py (RefCount) faithfully",
    "the constructor call Manager() runs Manager.__init__ on a fresh object (Manager.__init__ is proved: no tasks, empty indices, thawed)",
    "Manager.cleanup: proved to change no count of any index (Manager.cleanup@abstract-identity); that an absent entry and an empty one are the same "
    "abstract state is the modelling decision behind it (DESIGN 2.3(2)); in its loop `for dct in self.rdeps, ...` the variable is read as a reference to "
    "the field it stands for, and list(d.items()) as an arbitrary enumeration of some keys",
    "dict.values() enumerates the values along an arbitrary duplicate-free enumeration of the keys; dict.update: the argument's entries win",
]
ASSUMPTIONS = [
    "a task's dependencies/targets sets are not mutated after registration",
    "register() is not called with a task id that is already registered (set_value/load unregister first)",
    "absent key == empty RefCount in the abstract index state (cleanup() is the identity on it)",
    "history independence = the state predicate IdxWF: indices are a function F of the registered task set only",
]
BOUNDED = ["verify() and the query answers (_expr, tartasks, find_deps) compared with a freshly built manager at run time only (length<=3/4 histories); "
           "clone() and refresh() are proved AND compared at run time"]
EXPLANATION = ("class invariant IdxWF (indices == F(registered tasks), count-exact) proved preserved by the real "
               "Manager.register and Manager.unregister, over the proved contracts of RefCount.append/extend/remove; Manager.set_value "
               "replaces a definition by unregister + register and schedules from the UPDATED indices (a removed task is not run); "
               "refresh() (thawed) and clone() re-register task after task into emptied / fresh indices: loop invariant indices == F(ids "
               "registered so far) over Manager.register@rebuild (the same real body of register, proved for a ghost set of registered ids), "
               "so afterwards indices == F(tasks) WITHOUT assuming the invariant before -- refresh repairs, clone never inherits a trace; "
               "clone leaves the original unchanged (frame)")
LEVEL_TEXT = ("IdxWF is a function of the registered task set only, so 'no trace of removed definitions' is the invariant "
              "itself; register/unregister are proved to preserve it for all task sets and all set iteration orders "
              "(35 + 83 + 22 obligations, z3).")
LEVEL_NOTE = ("Trusted: container library models, the counting lemma and the finite-sum axioms named in the evidence, "
              "SMT solvers. set_value/load/clone/refresh compose the two proved methods; their behavioural equivalence "
              "with a fresh manager is additionally checked at run time on all histories of length <=3 (quick) / 4.")
