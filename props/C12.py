from pyvc.refs_engine import RefsEngine
from contracts import refs_ctor as _c
ID = "C12"
LEVEL = "other"
CONTRACT_MODULES = ["contracts.refs", "contracts.refs_ctor"]
FUNCTIONS = [c.qualname for c in _c.CINITS + _c.REDUCES] + [c.qualname + "@" + c.extra["variant"] for c in _c.VARIANTS]
ENGINE = RefsEngine
RAC = "rac/c12.py"
RAC_BUDGET = {"quick": 50, "thorough": 300}
RAC_MIN = {"quick": 68, "thorough": 68}      # fewer run-time evaluations than this = the harness skipped its work: checker broken, not "held"
DESIGN_REF = "DESIGN.md section 4, C12"
TECHNIQUE = "contract-based deductive verification of every __reduce__/__cinit__ pair (reduce returns the constructor arguments slot by slot; QF_UF, z3) + run-time pickle round trips"
TRUSTED = ["the pickle protocol (memoisation preserves sharing, so restored refs point into the restored containers only)",
           "picklability of defaultdict, Task instances and the user's containers (the library's own container AttrDict is under contract: rebuilt through __init__)", "z3", "Cython"]
ASSUMPTIONS = ["attribute reads in __reduce__ resolve to declared fields; an undeclared name goes through BaseRef.__getattr__ and yields an AttrRef (modelled)",
               "Manager has no __reduce__: its state is __dict__ (dicts, defaultdict(RefCount), tasks)"]
BOUNDED = ["containers section: default AttrDict containers (item and attribute routes, nested), attribute objects, frozen managers, pickle and deepcopy: 5 scenarios x mirrored follow-up assignments", "behavioural identity and independence of the restored manager: all 1-/2-subsets (thorough: 3-subsets) of 19 expressions covering every node class"]
EXPLANATION = ("proved: for every class with a __reduce__ the returned pair is (type(self), args) with args equal, position by "
               "position, to the slots that __cinit__ (proved separately) stores them in, so type(self)(*args) rebuilds the node; "
               "_hash is recomputed by __cinit__; AttrDict (the default container of Manager.ref()) is rebuilt by calling the class, so "
               "that it is its own __dict__ again. The pickle machinery itself is trusted; round trips are checked at run time.")
LEVEL_TEXT = "Per-class proof of reduce o cinit = id on slots + trusted pickle protocol + bounded round trips."
LEVEL_NOTE = "See TRUSTED in the evidence file."
