from contracts import refs_repr as _r
ID = "C11"
LEVEL = "other"
CONTRACT_MODULES = ["contracts.sorting", "contracts.refcount", "contracts.tasks", "contracts.tasks_proto", "contracts.refs", "contracts.refs_repr"]
FUNCTIONS = [c.qualname for c in _r.REPRS] + ["BinOpExpr.__repr__@operator-tokens", "Manager.load", "Manager.copy_expr_from"]
RAC = "rac/c11.py"
RAC_BUDGET = {"quick": 60, "thorough": 900}
RAC_MIN = {"quick": 2040, "thorough": 2040}      # fewer run-time evaluations than this = the harness skipped its work: checker broken, not "held"
DESIGN_REF = "DESIGN.md section 4, C11"
TECHNIQUE = ("contract-based deductive verification of the printing rule of each reference/expression class (pyvc: __repr__ bodies against "
             "statement-level templates over uninterpreted text functions; operator tokens per class; load/copy_expr_from frame and index "
             "invariant) + run-time contracts: print/eval round trip on enumerated trees, dump/load and copy_expr_from on generated managers")
TRUSTED = ["Python's parser and eval: the printed template parses back to the node (keys and arguments printed with repr are literals; children "
           "are atoms) -- checked at run time on ~7600 enumerated trees, not proved",
           "str()/repr() of a slot value and f-strings as uninterpreted text functions", "z3"]
ASSUMPTIONS = ["functions inside CallRef are references (the API route f_ref.name(...)); a CallRef built directly on a plain Python function prints "
               "a bare name that text cannot rebuild (outside the statement)", "a LiteralExpr wrapper prints as, and is identified with, its literal",
               "value propagation among members of one nested container after copy_expr_from is subject to known finding K1 (C01)"]
BOUNDED = ["BuiltinRef.__repr__ and CallRef.__repr__ (list building and joins), the parse-back direction, dump/load/copy_expr_from behaviour: "
           "run-time only"]
EXPLANATION = ("proved: the __repr__ of Ref, AttrRef, ItemRef, BinOpExpr (negative left literal parenthesised), UnaryOpExpr, LiteralExpr, EqExpr, "
               "NeExpr returns exactly the statement-level template over str/repr of the node's slots; every operator class prints the Python token "
               "of its operator; load keeps the index invariant and is the only way copy_expr_from reaches the manager")
LEVEL_TEXT = "Mixed: printing templates and operator tokens proved, the parser direction trusted, round trips bounded at run time. Never claimed as proof."
LEVEL_NOTE = "See TRUSTED / BOUNDED in the evidence file."
