ID = "C11"
LEVEL = "other"
CONTRACT_MODULES = []
FUNCTIONS = []
RAC = "rac/c11.py"
RAC_BUDGET = {"quick": 60, "thorough": 900}
DESIGN_REF = "DESIGN.md section 4, C11"
TECHNIQUE = "run-time contracts (print/eval round trip on enumerated expression trees, dump/load and copy_expr_from on generated managers); deductive part under construction"
TRUSTED = ["Python's parser and eval"]
ASSUMPTIONS = ["functions inside CallRef are references (the API route f_ref.name(...)); a CallRef built directly on a plain Python function prints a bare name that text cannot rebuild (outside the statement)",
               "a LiteralExpr wrapper prints as, and is identified with, its literal"]
BOUNDED = ["everything (this revision)"]
EXPLANATION = "bounded run-time contract check"
LEVEL_TEXT = "bounded"
LEVEL_NOTE = "bounded"
