ID = "C08"
LEVEL = "other"
CONTRACT_MODULES = ["contracts.table_sel"]
FUNCTIONS = ["Table._get_row_indices@value-range", "Table._get_row_indices@name-span"]
RAC = "rac/c08.py"
RAC_BUDGET = {"quick": 60, "thorough": 900}
DESIGN_REF = "DESIGN.md section 4, C08"
TECHNIQUE = ("contract-based deductive verification of Table._get_row_indices one selector form per variant contract (value ranges and "
             "name spans; pyvc selector engine with numpy-lite masks and np.where; z3) + run-time contracts against a reference selector "
             "for every selector form, composition and many-name tables")
TRUSTED = ["numpy-lite: element-wise comparison of a column with a bound as an uninterpreted order, & as conjunction, np.where(mask)[0] as the "
           "ascending sequence of the mask's positions; numpy and re themselves", "Table._get_row_index is assumed by contract here (decided under C07)", "z3 / cvc5"]
ASSUMPTIONS = ["selectors whose offset shifts outside the table are not constrained by the statement",
               "the constructs of the other selector forms are unreachable under each variant's precondition (obligations of kind `unreachable`)"]
BOUNDED = ["regular-expression selectors with ::count and offsets (Table._get_regexp_indices: loop over a set of names -- checked at run time on "
           "tables with 12..30 distinct names so that set order differs from table order), position lists, masks, rows[s1, s2] == rows[s1].rows[s2], "
           "rows.indices / rows.mask consistency: run-time only"]
EXPLANATION = ("proved: for a value range lo:hi:'col' the result denotes exactly the rows with lo <= col <= hi (each bound optional, zero "
               "included), in ascending order, in all four bound combinations; for a name span a:b it is the slice from the position of a to "
               "the position of b inclusive, either side optional")
LEVEL_TEXT = "Mixed: two selector forms proved (31 obligations incl. unreachability of the other forms), the rest run-time contracts. Never claimed as proof."
LEVEL_NOTE = "See TRUSTED / BOUNDED in the evidence file."
