ID = "C08"
LEVEL = "other"
CONTRACT_MODULES = ["contracts.table_sel", "contracts.table_cache", "contracts.table_regexp"]
FUNCTIONS = ["Table._get_row_indices@value-range", "Table._get_row_indices@name-span", "Table._get_regexp_indices@scan", "Table._get_regexp_indices@combine", "Table._get_row_cache"]
# name-based selectors resolve through the lookup tables: their coherence with the index column across updates is C07's class invariant
BORROW = [("C07", ["Table.__setitem__", "Table._append_row", "Table._concatenate_table", "Table.__delitem__", "Table.pop", "Table._get_cache", "Table._make_cache",
                   # the endpoints of a name span a:b are resolved by _get_row_index
                   "Table._get_row_index@int", "Table._get_row_index@str", "Table._get_row_index@tuple2", "Table._get_row_index@tuple3",
                   # 'regexp::count<<offset' is split by the same function as a row designator
                   "Table._split_name_count_offset@text",
                   # derived tables are born without lookup tables (wave 9, C08-17 made them inherit the source's)
                   "Table.__init__@unchecked"])]
RAC = "rac/c08.py"
RAC_BUDGET = {"quick": 60, "thorough": 900}
RAC_MIN = {"quick": 18749, "thorough": 18749}      # fewer run-time evaluations than this = the harness skipped its work: checker broken, not "held"
DESIGN_REF = "DESIGN.md section 4, C08"
TECHNIQUE = ("contract-based deductive verification of Table._get_row_indices one selector form per variant contract (value ranges and "
             "name spans; pyvc selector engine with numpy-lite masks and np.where; z3) and of Table._get_regexp_indices in two mechanically "
             "extracted blocks (scan of the index column with fullmatch; combination per matched name through the proved _get_row_cache, sorted, "
             "shifted; pyvc regexp engine with ghost position maps) + run-time contracts against a reference selector "
             "for every selector form, composition and many-name tables")
TRUSTED = ["numpy-lite: element-wise comparison of a column with a bound as an uninterpreted order, & as conjunction, np.where(mask)[0] as the "
           "ascending sequence of the mask's positions; numpy and re themselves",
           "regular expressions: pattern.fullmatch(name) is an uninterpreted predicate of (pattern, name); sorted(list of int) is an ascending "
           "rearrangement; np.array(list) + k shifts element-wise; iteration over a set is an arbitrary duplicate-free enumeration", "Table._get_row_index is assumed by contract here (decided under C07)", "z3 / cvc5"]
ASSUMPTIONS = ["selectors whose offset shifts outside the table are not constrained by the statement",
               "the constructs of the other selector forms are unreachable under each variant's precondition (obligations of kind `unreachable`)"]
BOUNDED = ["the first three statements of Table._get_regexp_indices (the call that splits 'regexp::count<<offset' -- the splitter itself is proved on the six "
           "spellings, borrowed from C07 -- and the exact-name shortcut = known finding K2) are outside the two proved blocks: run-time only; position lists, masks, rows[s1, s2] == rows[s1].rows[s2], "
           "rows.indices / rows.mask consistency: run-time only"]
EXPLANATION = ("proved: for a value range lo:hi:'col' the result denotes exactly the rows with lo <= col <= hi (each bound optional, zero "
               "included), in ascending order, in all four bound combinations; for a name span a:b it is the slice from the position of a to "
               "the position of b inclusive, either side optional; for a regular-expression selector (past the exact-name shortcut) "
               "the result is, in ascending order and exactly, the rows whose index name is fully matched and -- with ::count -- whose occurrence "
               "number is the requested one (negative counts from the last occurrence), each shifted by the offset: every row is tested, "
               "each matched name contributes its one row through the proved _get_row_cache, whatever the iteration order of the name set")
LEVEL_TEXT = "Mixed: value ranges, name spans and the two blocks of the regular-expression selector proved (z3); the exact-name shortcut (K2), lists, masks and composition are run-time contracts. Never claimed as proof."
LEVEL_NOTE = "See TRUSTED / BOUNDED in the evidence file."
