from pyvc.table_engine import TableEngine
ID = "C07"
LEVEL = "other"
CONTRACT_MODULES = ["contracts.table_cache"]
FUNCTIONS = ["Table._make_cache", "Table._get_cache", "Table._get_row_cache", "Table._get_row_cache_raise"]
RAC = "rac/c07.py"
RAC_BUDGET = {"quick": 60, "thorough": 900}
DESIGN_REF = "DESIGN.md section 4, C07"
TECHNIQUE = ("contract-based deductive verification of the row-name cache (pyvc: _make_cache builds exactly the scan of the "
             "current index column, _get_cache keeps the class invariant CacheOK, _get_row_cache(_raise) return the scan "
             "position or None/KeyError; z3) + run-time contracts against a linear-scan oracle after every sequence of API updates")
TRUSTED = ["numpy-lite model: _data[k] is a read-only column view inside the verified functions; dict keyed by 2-tuples as an "
           "injective pair function; dict.items() as an arbitrary enumeration whose values are read at loop entry; enumerate",
           "numpy itself (array stores, object arrays), Python string methods", "z3 / cvc5"]
ASSUMPTIONS = [
    "names contain no separator substring (:: << >>): _split_name_count_offset is checked at run time only",
    "column arrays are not shared with another table that mutates them in place (row slices and _copy share arrays)",
    "the unique-label array (third result of _make_cache, f-strings) is outside the proved contract; get_index_unique is "
    "checked at run time",
    "uniqueness of 'the' row with a given name and occurrence number is a property of the specification function "
    "(prefix counts strictly increase on the rows carrying the name)",
]
BOUNDED = [
    "class invariant CacheOK across Table.__setitem__/__setattr__/__delitem__/pop/_append_row/_concatenate_table: run-time "
    "only (all update sequences of length <=2 on all index columns of length <=3/4, cache warmed before each update)",
    "_split_name_count_offset (string parsing), __getitem__/__setitem__ row-designator dispatch, __floordiv__, "
    "rows.get_index, cols.get_index_unique: run-time only (all designator spellings, reads and writes)",
]
EXPLANATION = ("proved for every index column, name, count and offset: the cache built by _make_cache is complete, sound and "
               "count-exact w.r.t. a scan (prefix-count specification function), _get_cache establishes/keeps CacheOK, "
               "_get_row_cache returns None iff no row has the name with that occurrence number (negative counts from the "
               "last) and otherwise such a row's position plus the offset, _get_row_cache_raise raises KeyError exactly "
               "then; the coherence of the cache with later updates is the bounded part")
LEVEL_TEXT = ("Mixed: the four cache functions are proved (61 obligations, z3); invariant preservation by the mutators and the "
              "string/tuple designator dispatch are run-time contract checks against a linear-scan oracle. Never claimed as proof.")
LEVEL_NOTE = "See TRUSTED/BOUNDED in the evidence file."
