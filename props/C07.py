from pyvc.table_engine import TableEngine
ID = "C07"
LEVEL = "other"
CONTRACT_MODULES = ["contracts.table_cache", "contracts.table_setitem", "contracts.table_desig", "contracts.table_split", "contracts.table_labels", "contracts.table_ctor"]
FUNCTIONS = ["Table._make_cache", "Table._get_cache", "Table._get_row_cache", "Table._get_row_cache_raise", "Table.__setitem__", "Table._append_row", "Table._concatenate_table", "Table.__delitem__", "Table.pop",
             # which row a designator (position / text / (name, count[, offset])) resolves to, and the entry points that forward to it
             "Table._get_row_index@int", "Table._get_row_index@str", "Table._get_row_index@tuple2", "Table._get_row_index@tuple3", "Table._get_row_index@other",
             "Table.__floordiv__@forwards", "_RowView.get_index@forwards",
             # what a designator TEXT denotes: the six spellings of the statement over SMT-LIB strings (pyvc/strsplit_engine.py, cvc5 --strings-exp)
             "Table._split_name_count_offset@text",
             # the unique row labels: third result of _make_cache, handed out unchanged by cols.get_index_unique
             "Table._make_cache@labels", "_ColView.get_index_unique@forwards-labels",
             # a freshly constructed table (every derivation builds its result this way) has no lookup tables: CacheOK holds trivially at birth
             "Table.__init__@unchecked",
             # t[col, row] and t[col, row] = v carry their own copies of the designator dispatch (lookup-table shortcut first): extracted as blocks
             "Table.__getitem__@designator-block-str", "Table.__getitem__@designator-block-tuple2", "Table.__getitem__@designator-block-tuple3",
             "Table.__setitem__@designator-block-str", "Table.__setitem__@designator-block-tuple2", "Table.__setitem__@designator-block-tuple3"]
RAC = "rac/c07.py"
RAC_BUDGET = {"quick": 60, "thorough": 900}
RAC_MIN = {"quick": 8400, "thorough": 8400}      # fewer run-time evaluations than this = the harness skipped its work: checker broken, not "held"
DESIGN_REF = "DESIGN.md section 4, C07"
TECHNIQUE = ("contract-based deductive verification of the row-name cache (pyvc: _make_cache builds exactly the scan of the "
             "current index column, _get_cache keeps the class invariant CacheOK, _get_row_cache(_raise) return the scan "
             "position or None/KeyError; the mutators Table.__setitem__ (= __setattr__), __delitem__, pop, _append_row, _concatenate_table give "
             "CacheOK back on every exit: data model with column-wise frame, pyvc/setitem_engine.py; z3) + run-time contracts against a linear-scan oracle after every sequence of API updates")
TRUSTED = ["mutators: a store into column k yields data whose other columns are unchanged; a store that raises leaves the data unchanged; "
           "isinstance / hasattr / len / `in self.__dict__` / `in self._col_names` as uninterpreted predicates; callees of __setitem__ "
           "(_split_name_count_offset, _get_row_indices, __len__) by the weak contract 'requires/ensures CacheOK, modifies the cache "
           "fields only, may raise' (implied by the proved contracts for _get_cache and _get_row_cache_raise)",
           "numpy-lite model: _data[k] is a read-only column view inside the verified cache functions; dict keyed by 2-tuples as an "
           "injective pair function; dict.items() as an arbitrary enumeration whose values are read at loop entry; enumerate",
           "numpy itself (array stores, object arrays), Python string methods", "z3 / cvc5",
           "designators: isinstance(row, int / str / tuple) as uninterpreted, mutually exclusive-by-precondition predicates; a tuple designator is a pair or a "
           "triple whose count / offset are ints; at the call site in _get_row_index the splitter is an uninterpreted map text -> (name, count or None, offset); "
           "what that map IS on the six spellings of the statement is proved on the splitter's own body (Table._split_name_count_offset@text)",
           "text designators: Python's `in`, str.split(sep[, 1]) and tuple unpacking as str.contains / str.indexof / str.substr over SMT-LIB strings; int() is an "
           "uninterpreted function with an acceptance predicate; the separators are the defaults of the real Table.__init__ (a table built with other "
           "separators is outside the contract); cvc5's theory of strings (--strings-exp)"]
ASSUMPTIONS = [
    "attribute-style assignment is API for the documented fields only: key not in {_data, _index_cache, _count_cache, _names_cache} "
    "(precondition api-key of __setitem__); __delitem__/pop: not the index column itself",
    "spec-function lemma: prefix_count depends on the column content only (induction over its defining equations; stated as an axiom); "
    "strictness of prefix_count on the rows carrying the name is re-derived from step + monotonicity on every run",
    "_append_row / _concatenate_table: no claim on an exception raised half way through the column loop (the table is then "
    "non-rectangular: C14)",
    "designator blocks of __getitem__ / __setitem__: a text that IS a row name parses to (itself, no count, offset 0) -- spelling 1 of the proved splitter for names free of "
    "':' '<' '>' -- so that the lookup-table shortcut (row, 0) agrees with the parsed reading; a pair designator used as a dictionary key is the lookup key of (name, count), "
    "a triple is never equal to a pair (Python tuple equality), stated as preconditions",
    "text designators: names / patterns contain none of the characters ':' '<' '>' (the alphabet of the three separators; with one of them the spellings of the "
    "statement are ambiguous), counts and offsets are texts int() accepts; the first-occurrence facts the path obligations use are proved per form from the form's hypotheses",
    "column arrays are not shared with another table that mutates them in place (row slices and _copy share arrays)",
    "unique labels: proved is WHAT the label of each row is (the plain name when it occurs once, else f-string(name, _sep_count, occurrence number), "
    "the f-string an uninterpreted function of its three values) and that cols.get_index_unique returns that array; that such a label resolves back to "
    "its own row follows from the proved splitter (spellings 1 and 2) and the proved _get_row_cache_raise, with f-string == concatenation with str(int) "
    "and int(str(c)) == c trusted (contracts/table_labels.py); the round trip itself is also checked at run time",
    "uniqueness of 'the' row with a given name and occurrence number is a property of the specification function "
    "(prefix counts strictly increase on the rows carrying the name)",
]
BOUNDED = [
    "the store col[idx] = v / the read col[idx] themselves (numpy), row SELECTORS (slices, lists) inside t[col, rows] (C08), the evaluation of a column "
    "expression in t['expr', row]: run-time only (all update sequences of length <=2 on all index columns of length <=3/4, cache warmed before each update); "
    "WHICH position a designator reaches inside t[col, row] and t[col, row] = v is proved (designator blocks)",
    "the label round trip get_index_unique -> get_index on real tables (fixed-width string columns included), text designators on tables built with other "
    "separators or with names containing a separator character: run-time only (all designator spellings, reads and writes); t // row and rows.get_index(row) are proved "
    "to resolve the parsed / given (name, count, offset) against the current index column, and checked at run time as well",
]
EXPLANATION = ("proved for every index column, name, count and offset: a designator given as a position, a text, a pair (name, count) or a triple (name, count, offset) is resolved by Table._get_row_index -- and hence by t // row and t.rows.get_index(row), which forward to it unchanged -- to the position of the count-th occurrence of the name on the CURRENT index column plus the offset, KeyError exactly when there is none (for a text: of the triple _split_name_count_offset makes of it, assumed); the cache built by _make_cache is complete, sound and "
               "count-exact w.r.t. a scan (prefix-count specification function), _get_cache establishes/keeps CacheOK, "
               "_get_row_cache returns None iff no row has the name with that occurrence number (negative counts from the "
               "last) and otherwise such a row's position plus the offset, _get_row_cache_raise raises KeyError exactly "
               "then; every mutator of the table gives CacheOK back (on every exit of __setitem__: whenever the index column or `_index` "
               "may have changed, the lookup tables end up dropped -- before the store when nothing rebuilds them in between, after it "
               "otherwise -- and a store into any other column leaves them right: column-wise frame); every syntactic store into a "
               "table's data in the module sits in one of the methods carrying the invariant")
LEVEL_TEXT = ("Mixed: the four cache functions and the class invariant across the five mutators are proved (z3); which position a designator reaches inside t[col, row] / t[col, row] = v is proved as blocks, the numpy store itself is run-time checked; the unique labels are proved as values, their round trip composed from proved contracts and checked at run time against a linear-scan oracle. Never claimed as proof.")
LEVEL_NOTE = "See TRUSTED/BOUNDED in the evidence file."
