from pyvc.refs_engine import RefsEngine
from contracts import refs_ctor as _c
ID = "C06"
LEVEL = "other"
CONTRACT_MODULES = ["contracts.refs", "contracts.refs_ctor", "contracts.refs_paths"]
FUNCTIONS = [c.qualname for c in _c.CINITS] + ["BaseRef.__hash__", "BaseRef.__getitem__", "MutableRef.__setitem__", "BaseRef.__eq__"]
# equality is equality of the printed form: the printing rules of the path-building classes are part of the property (C11's contracts)
BORROW = [("C11", ["Ref.__repr__", "AttrRef.__repr__", "ItemRef.__repr__", "BinOpExpr.__repr__", "UnaryOpExpr.__repr__", "LiteralExpr.__repr__",
                   "BuiltinRef.__repr__", "CallRef.__repr__"]),
          # a reference rebuilt through its pickle hook (deepcopy, pickle, Manager.copy) must be the same kind of reference over the same slots:
          # __reduce__ returns type(self) and the constructor slots, and no concrete reference class defines a hook of its own (proved under C12)
          ("C12", ["MutableRef.__reduce__", "BinOpExpr.__reduce__", "UnaryOpExpr.__reduce__", "LiteralExpr.__reduce__", "BuiltinRef.__reduce__", "CallRef.__reduce__",
                   "Ref.__cinit__@default-pickling", "AttrRef.__cinit__@default-pickling", "ItemRef.__cinit__@default-pickling",
                   "ObjectAttrRef.__getattr__@default-pickling"])]
ENGINE = RefsEngine
RAC = "rac/c06.py"
RAC_BUDGET = {"quick": 50, "thorough": 400}
RAC_MIN = {"quick": 72162, "thorough": 72162}      # fewer run-time evaluations than this = the harness skipped its work: checker broken, not "held"
DESIGN_REF = "DESIGN.md section 4, C06"
TECHNIQUE = "contract-based deductive verification of the hash computation (relational obligation on each __cinit__, QF_UF, z3) + run-time contracts on all pairs of adversarial paths"
TRUSTED = ["hash() of tuples is a function of the element values (congruence of the uninterpreted py_hash)",
           "Python's lexer/repr: that the printed forms of distinct paths differ (character-level half, bounded check only)",
           "z3", "Cython"]
ASSUMPTIONS = ["container labels are identifiers and unique per manager; keys are str/int/float/tuples thereof; attribute names are identifiers",
               "identity slots per class: Ref (label), AttrRef/ItemRef (owner, key), expression nodes (all operand slots); never the manager, never id(self)"]
BOUNDED = ["a == b  <=>  same path  (BaseRef.__eq__ compares printed forms): all pairs of paths of depth <=2 (quick) / sampled depth 3 over a 19-key adversarial pool",
           "hash spread (bucket bound) over 15000/60000 similar keys"]
EXPLANATION = ("proved: every __cinit__ stores its arguments in the declared slots and computes a hash that is a function of "
               "the dynamic class and the identity slots only (two executions agreeing on those agree on the hash), and "
               "__hash__ returns it -- hence same path => same hash. The equality half (printed forms of distinct paths "
               "differ) depends on Python's repr/lexer and is carried by the exhaustive bounded check.")
LEVEL_TEXT = "Mixed: hash half proved (relational QF_UF obligations), equality half bounded; never claimed as proof."
LEVEL_NOTE = "See TRUSTED/BOUNDED in the evidence file."
