ID = "C02"
LEVEL = "proof"
CONTRACT_MODULES = ["contracts.sorting", "contracts.refcount", "contracts.tasks", "contracts.tasks_proto"]
FUNCTIONS = ["_dfs", "toposort", "Manager.find_taskids", "Manager.find_tasks", "Manager.run_tasks", "Manager.set_value",
             "Manager.copy@independent-copy"]
# the indices the downstream set is read from are maintained by register/unregister (C03)
# "exactly those tasks that transitively DEPEND on the assigned location": a task's dependencies are what the walkers report for its expression (proved under C05),
# stored unchanged by ExprTask.__init__ (proved under C01)
BORROW = [('C03', ['Manager.register', 'Manager.unregister']),
          ('C05', ['MutableRef._get_dependencies', 'Ref._get_dependencies', 'BinOpExpr._get_dependencies', 'UnaryOpExpr._get_dependencies', 'LiteralExpr._get_dependencies', 'BuiltinRef._get_dependencies', 'CallRef._get_dependencies']),
          ('C01', ['ExprTask.__init__'])]
RAC = "rac/c02.py"
RAC_BUDGET = {"quick": 60, "thorough": 600}
RAC_MIN = {"quick": 16038, "thorough": 16038}      # fewer run-time evaluations than this = the harness skipped its work: checker broken, not "held"
TRUSTED = [
    "CPython dict/set/list/deque semantics via pyvc library models (pyvc/values.py)",
    "Cython compiles xdeps/refs.py faithfully (proofs are about the .py text; run-time checks use the compiled build)",
    "z3 4.x/5.1 and cvc5 as SMT back ends",
]
ASSUMPTIONS = [
    "task.dependencies / task.targets are not mutated after registration (functions of the task value)",
    "iteration order of a set/dict is an arbitrary duplicate-free enumeration (covers every hash seed)",
    "reachability R is constrained only by reflexivity, transitivity and edge inclusion: what is proved holds for true reachability",
    "termination of the iterative search is not proved (each iteration consumes a neighbour or pops a node); memory exhaustion not modelled (chains up to 5000 checked at run time)",
    "the iterator stored in the DFS stack is shared with the local variable: every element a for-loop takes advances it (pyvc/dfs_engine.py)",
]
BOUNDED = []
EXPLANATION = ("Manager.set_value computes its schedule AFTER replacing the definition (from the updated indices) and Manager.run_tasks "
               "runs exactly that schedule, each entry once, in order (runs == schedule); "
               "contracts on sorting._dfs, sorting.toposort, Manager.find_taskids, Manager.find_tasks: result = each task "
               "reachable from the start exactly once, in an order compatible with every ordering edge unless the edge "
               "closes a cycle; discharged by z3 from the real source; the same clauses evaluated at run time on the "
               "compiled build over all small graphs")
DESIGN_REF = "DESIGN.md section 4, C02"
TECHNIQUE = "contract-based deductive verification (pyvc VC generation from the real AST, z3/cvc5) + run-time contracts on small scopes"
LEVEL_TEXT = ("Function contracts for the ordering walk (sorting._dfs, sorting.toposort, Manager.find_taskids, "
              "Manager.find_tasks) and for the two methods that build and execute the schedule (Manager.set_value, Manager.run_tasks) are discharged for all graphs, all start sets and all iteration orders; a run "
              "that leaves any obligation open records level 'other' in its evidence.")
LEVEL_NOTE = ("Trusted: library models of dict/set/deque/iterators, Cython compilation, SMT solvers. virtual callees of run_tasks/set_value (Task.run, _get_value, _set_value) "
              "assumed by contract as under C18; the run-time check covers all digraphs on <=3/4 vertices x all orders.")
