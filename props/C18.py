from pyvc.tasks_engine import TasksEngine
ID = "C18"
LEVEL = "proof"
CONTRACT_MODULES = ["contracts.sorting", "contracts.refcount", "contracts.tasks", "contracts.tasks_proto", "contracts.tasks_knob"]
FUNCTIONS = ["Manager.run_tasks", "Manager.set_value", "ExprTask.run", "ExprTask.__init__",
             "Manager.find_taskids", "Manager.find_tasks", "Manager.register", "Manager.unregister",
             # a knob whose store raises must not have recorded the new source value yet: repeating the assignment then applies the same change
             "LinearKnob.run"]
# the only expression nodes with an exception handler of their own: it may catch the node's OWN ZeroDivisionError only (C04)
BORROW = [('C04', ['TruedivExpr._get_value', 'FloordivExpr._get_value', 'ModExpr._get_value'])]
RAC = "rac/c18.py"
RAC_BUDGET = {"quick": 60, "thorough": 900}
RAC_MIN = {"quick": 4038, "thorough": 4038}      # fewer run-time evaluations than this = the harness skipped its work: checker broken, not "held"
DESIGN_REF = "DESIGN.md section 4, C18"
TECHNIQUE = ("contract-based deductive verification (pyvc: exceptional postconditions of run_tasks / set_value / "
             "ExprTask.run over a ghost run trace and heap, z3/cvc5) + run-time contracts with fault injection at every "
             "store of an update")
TRUSTED = [
    "pyvc container library models", "z3 / cvc5", "Cython compilation of refs.py",
    "virtual callees assumed by contract: BaseRef._get_value pure and may raise; MutableRef._set_value is one store and a "
    "raising store leaves the data as before; Task.run may raise after arbitrary effects of the failing task itself",
    "counting lemma / finite-sum axioms of C03 (register/unregister)",
]
ASSUMPTIONS = [
    "user-level failures are modelled as one exception class UserError: the verified methods contain no handler, so the "
    "class is immaterial (a handler added to the code turns the exceptional path into a normal one and the "
    "postcondition runs == schedule fails)",
    "reading of 'unchanged' for a failing initial store of an assignment that (re)defines the location: the definitions "
    "are those the assignment asked for, the data are untouched (DESIGN section 4, C18)",
    "recoverability = C01's run_tasks argument from the weaker precondition 'Cons holds for tasks not downstream of "
    "ref'; checked at run time (repeat of the assignment vs the pull-model oracle)",
]
BOUNDED = ["'repeating the assignment re-establishes every dependant' is checked at run time only (fault at every store "
           "of every update over all histories of <=3 (quick) / 4 definitions)"]
EXPLANATION = ("run_tasks: on an exception from the k-th task the exception propagates, the run trace is exactly "
               "tasks[0..k], tasks and indices are not in the frame; ExprTask.run: evaluate then one store, a raise in "
               "either leaves the heap as before; set_value: the definition step is complete and IdxWF holds before "
               "the first store, on a failure either nothing was stored or exactly a prefix of the schedule ran; LinearKnob.run (the one task kind "
               "that ADDS to its targets): when a read or store raises at its k-th target the data are those after the first k stores and exactly the "
               "first k per-target records hold the new source value, so that running it again adds nothing to them and the full change to the others")
LEVEL_TEXT = ("Exceptional postconditions discharged by z3 for every manager state, every schedule and every failing "
              "position; a run that leaves any obligation open records level 'other'.")
LEVEL_NOTE = "Trusted: virtual-callee contracts on user containers and task actions, library models, SMT solvers."
