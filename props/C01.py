ID = "C01"
LEVEL = "other"
CONTRACT_MODULES = ["contracts.sorting", "contracts.refcount", "contracts.tasks"]
FUNCTIONS = ["toposort", "Manager.find_taskids", "Manager.find_tasks", "Manager.register", "Manager.unregister"]
RAC = "rac/c01.py"
RAC_BUDGET = {"quick": 70, "thorough": 1200}
DESIGN_REF = "DESIGN.md section 4, C01"
TECHNIQUE = "contract-based deductive verification of the functions an update is composed of (pyvc, z3/cvc5) + run-time contracts against a pull-model oracle on exhaustive short histories"
TRUSTED = ["pyvc container library models", "counting lemma / finite-sum axioms (see C03)", "z3 / cvc5", "Cython compilation of refs.py"]
ASSUMPTIONS = [
    "tree-shaped user data, no computed key aliasing a constant key, containers not mutated behind the manager's back (excluded by the statement)",
    "Acyc: the declared ordering graph has no cycle of length >= 2 among triggered tasks (known finding K1 when violated by siblings of one nested container)",
    "user functions of FunctionTask are deterministic and do not call back into the manager",
]
BOUNDED = ["Cons (every expression-defined location equals its definition) is checked at run time against an independent pull-model "
           "evaluator: all histories of length <=3 (quick) / 4 (thorough) over 24 operations, random histories to length 14, chains to 4000"]
EXPLANATION = ("proved: the functions one assignment is composed of (ordering walk, index maintenance); the composition "
               "argument 'order + closure + frame => consistency' is not yet discharged mechanically and is covered by "
               "the bounded run-time check against a pull-model oracle")
LEVEL_TEXT = ("Mixed: the callee contracts (toposort, find_taskids/find_tasks, register, unregister) are discharged for all "
              "inputs; the top-level consistency clause is a bounded run-time contract check. One known finding (K1).")
LEVEL_NOTE = "Known finding K1 recorded in known_findings.json; statement exclusions taken as preconditions."
