from pyvc.tasks_engine import TasksEngine
ID = "C01"
LEVEL = "other"
CONTRACT_MODULES = ["contracts.sorting", "contracts.refcount", "contracts.tasks", "contracts.tasks_proto", "contracts.tasks_knob"]
FUNCTIONS = ["_dfs", "toposort", "Manager.find_taskids", "Manager.find_tasks", "Manager.register", "Manager.unregister",
             "Manager.run_tasks", "Manager.run_tasks@consistency", "Manager.set_value", "ExprTask.run", "ExprTask.__init__",
             "LinearKnob.run", "LinearKnob.__init__"]
# functions of other properties' configurations that an assignment through a reference goes through: the in-place operators (C04) and the
# dependency walkers (C05)
BORROW = [('C04', ['MutableRef.__iadd__', 'MutableRef.__isub__', 'MutableRef.__imul__', 'MutableRef.__imatmul__', 'MutableRef.__itruediv__', 'MutableRef.__ifloordiv__', 'MutableRef.__imod__', 'MutableRef.__ipow__', 'MutableRef.__ilshift__', 'MutableRef.__irshift__', 'MutableRef.__iand__', 'MutableRef.__ior__', 'MutableRef.__ixor__', 'AttrRef._set_value', 'ItemRef._set_value']), ('C05', ['MutableRef._get_dependencies', 'Ref._get_dependencies', 'BinOpExpr._get_dependencies', 'UnaryOpExpr._get_dependencies', 'LiteralExpr._get_dependencies', 'BuiltinRef._get_dependencies', 'CallRef._get_dependencies'])]
RAC = "rac/c01.py"
RAC_BUDGET = {"quick": 70, "thorough": 1200}
RAC_MIN = {"quick": 2943, "thorough": 2943}      # fewer run-time evaluations than this = the harness skipped its work: checker broken, not "held"
DESIGN_REF = "DESIGN.md section 4, C01 (and section 0)"
TECHNIQUE = ("contract-based deductive verification of every function one assignment is composed of and of the composition step "
             "(pyvc: running a schedule with the proved find_tasks postcondition re-establishes consistency of every definition, "
             "under the heap frame axioms and Acyc; z3/cvc5) + run-time contracts against a pull-model oracle on exhaustive short histories")
TRUSTED = ["heap frame axioms (DESIGN section 3): a store to a task's target changes neither an expression none of whose reported "
           "dependencies it writes (C05: dependencies == locations read; tree-shaped data) nor another task's target, and is read back",
           "virtual callees: BaseRef._get_value, MutableRef._set_value, Task.run (= ExprTask.run for expression tasks, proved)",
           "pyvc container / iterator library models", "counting lemma / finite-sum axioms (see C03)", "z3 / cvc5", "Cython compilation of refs.py"]
ASSUMPTIONS = [
    "tree-shaped user data, no computed key aliasing a constant key, containers not mutated behind the manager's back (excluded by the statement)",
    "Acyc: in the declared ordering graph no task feeds itself and no edge closes a cycle -- violated by two expression-defined members of one "
    "nested container, one feeding the other: known finding K1 (the composition proof does not cover those managers; the run-time part does and reports K1)",
    "the composition proof is stated for expression tasks; a FunctionTask's action is user code (deterministic, no call back into the manager); LinearKnob.run and "
    "LinearKnob.__init__ are proved on their own (arithmetic on the values opaque: py_sub / py_add / py_mul, the last two commutative; as many weights as targets)",
    "the initial store of set_value affects only tasks in the schedule (start set = tasks depending on the location or an enclosing container: closure "
    "clause of find_tasks) -- argued, not mechanised",
]
BOUNDED = ["the end-to-end clause 'after every assignment every location equals its definition' (incl. nested containers, in-place operators, "
           "function and linear-knob tasks) is checked at run time against an independent pull-model evaluator: all histories of length <=3 (quick) / 4 "
           "over 24 operations, the same over 13 operations around containers read as a whole, over 18 operations with linear knobs and function tasks "
           "(rac/c01_tasks.py), random histories to length 14, chains to 6000, all 13 in-place operators"]
EXPLANATION = ("proved: the ordering walk (iterative DFS, toposort, find_taskids/find_tasks), index maintenance (register/unregister), "
               "set_value (definition step, one store, runs == schedule), ExprTask.run (evaluate, one store) and the composition step: "
               "Manager.run_tasks on a schedule satisfying the find_tasks postcondition leaves EVERY registered expression task consistent "
               "(target location == expression evaluated on the current data), given consistency outside the schedule, IdxWF, the frame axioms and Acyc; "
               "LinearKnob: the constructor declares {source} as dependencies and every target together with every container holding one as targets "
               "(union of locs; the closure whose absence was defect F28), run() stores value(target_i) + weight_i * (source - previous source) into "
               "target_i for i = 0..n-1 in order, each read on the data left by the previous store, then remembers the source value, and stores nothing else")
LEVEL_TEXT = ("Mixed: all functions of the update path and the composition step are discharged for all inputs (under the stated frame axioms and "
              "Acyc); the end-to-end consistency clause on real containers is a bounded run-time contract check. One known finding (K1).")
LEVEL_NOTE = "Known finding K1 recorded in known_findings.json; statement exclusions taken as preconditions."
