import Mathlib.Data.Finset.Card
import Mathlib.Data.List.Count
import Mathlib.Data.Finset.Basic

/-!
Counting lemma used by the `Manager.register` / `Manager.unregister` contracts (contracts/tasks.py, LEMMA_COUNT):
for a duplicate-free enumeration `l` of a finite set `A` and a set `B`,
the number of positions `j` with `l[j] ∈ B` equals `|A ∩ B|`, and `|A ∩ B| = |B ∩ A|`.
In the contracts: `l` = the iteration order of `task.dependencies` (any order: the lemma holds for every
duplicate-free `l`), `B` = targets of another task, and the count is what the nested loops add to `rtasks[w][r]`.
-/

theorem prefix_count_eq_card_inter {α : Type} [DecidableEq α] (l : List α) (hl : l.Nodup) (B : Finset α) :
    l.countP (fun x => decide (x ∈ B)) = (l.toFinset ∩ B).card := by
  rw [List.countP_eq_length_filter, ← List.toFinset_card_of_nodup (hl.filter _)]
  congr 1
  ext x
  simp [Finset.mem_inter]

theorem card_inter_comm' {α : Type} [DecidableEq α] (A B : Finset α) : (A ∩ B).card = (B ∩ A).card := by
  rw [Finset.inter_comm]

/-- the prefix count is monotone and steps by the indicator (the defining equations of `prefix_count` in the contracts) -/
theorem countP_take_succ {α : Type} (p : α → Bool) (l : List α) (a : Nat) (h : a < l.length) :
    (l.take (a + 1)).countP p = (l.take a).countP p + (if p (l[a]) then 1 else 0) := by
  rw [List.take_add_one, List.countP_append]
  simp [List.getElem?_eq_getElem h, List.countP_cons, List.countP_nil]

theorem countP_take_mono {α : Type} (p : α → Bool) (l : List α) (a b : Nat) (h : a ≤ b) :
    (l.take a).countP p ≤ (l.take b).countP p := by
  have : l.take a = (l.take b).take a := by rw [List.take_take]; congr 1; omega
  rw [this]
  exact (List.take_sublist a (l.take b)).countP_le
