import Mathlib.Algebra.BigOperators.Group.Finset.Basic
import Mathlib.Algebra.Order.BigOperators.Group.Finset
import Mathlib.Data.Finset.Basic

/-!
Finite-sum facts behind `rdeps_sum` (contracts/tasks.py: `rdsum_lower`, `rdsum_add`, `rdsum_del`, and `rdsum_empty` of
contracts/tasks_rebuild.py).  `rdeps_sum(dom, val, d, x) = Σ_{t ∈ dom} ind(val t, d, x)` with `ind ∈ {0, 1}`.
-/
open Finset

theorem rdsum_empty {α : Type} (f : α → ℕ) : (∑ t ∈ (∅ : Finset α), f t) = 0 := by simp

theorem rdsum_nonneg_and_dominates {α : Type} (s : Finset α) (f : α → ℕ) (t : α) (ht : t ∈ s) :
    0 ≤ ∑ u ∈ s, f u ∧ f t ≤ ∑ u ∈ s, f u :=
  ⟨Nat.zero_le _, Finset.single_le_sum (fun _ _ => Nat.zero_le _) ht⟩

/-- registering a task under a fresh id: the value map is updated at that id only -/
theorem rdsum_add {α : Type} [DecidableEq α] (s : Finset α) (f g : α → ℕ) (t : α) (ht : t ∉ s)
    (hfg : ∀ u ∈ s, g u = f u) : (∑ u ∈ insert t s, g u) = (∑ u ∈ s, f u) + g t := by
  rw [Finset.sum_insert ht, Finset.sum_congr rfl hfg, Nat.add_comm]

theorem rdsum_del {α : Type} [DecidableEq α] (s : Finset α) (f : α → ℕ) (t : α) (ht : t ∈ s) :
    (∑ u ∈ s.erase t, f u) = (∑ u ∈ s, f u) - f t := by
  have h := Finset.add_sum_erase s f ht
  omega

/-!
History independence (DESIGN section 4, C03): every index is a map `K → ℤ`; `register t` adds `δ t` pointwise, `unregister t`
subtracts it.  After ANY well-formed history (register only ids that are absent, unregister only ids that are present) the
indices are `Σ_{t ∈ S} δ t` for the set `S` of ids registered at the end -- a function of `S` alone.
-/
inductive Op (α : Type) | reg (t : α) | unreg (t : α)

def stepS {α : Type} [DecidableEq α] (S : Finset α) : Op α → Finset α
  | Op.reg t => insert t S
  | Op.unreg t => S.erase t

def stepI {α K : Type} (δ : α → K → ℤ) (I : K → ℤ) : Op α → (K → ℤ)
  | Op.reg t => fun k => I k + δ t k
  | Op.unreg t => fun k => I k - δ t k

def wfOp {α : Type} (S : Finset α) : Op α → Prop
  | Op.reg t => t ∉ S
  | Op.unreg t => t ∈ S

theorem step_keeps_sum {α K : Type} [DecidableEq α] (δ : α → K → ℤ) (S : Finset α) (I : K → ℤ) (o : Op α)
    (hI : ∀ k, I k = ∑ t ∈ S, δ t k) (hw : wfOp S o) : ∀ k, stepI δ I o k = ∑ t ∈ stepS S o, δ t k := by
  intro k
  cases o with
  | reg t =>
    simp only [stepI, stepS]
    rw [Finset.sum_insert hw, hI k, add_comm]
  | unreg t =>
    simp only [stepI, stepS]
    have h := Finset.add_sum_erase S (fun u => δ u k) hw
    rw [hI k]
    omega

def runS {α : Type} [DecidableEq α] : List (Op α) → Finset α → Finset α
  | [], S => S
  | o :: os, S => runS os (stepS S o)

def runI {α K : Type} (δ : α → K → ℤ) : List (Op α) → (K → ℤ) → (K → ℤ)
  | [], I => I
  | o :: os, I => runI δ os (stepI δ I o)

def WF {α : Type} [DecidableEq α] : List (Op α) → Finset α → Prop
  | [], _ => True
  | o :: os, S => wfOp S o ∧ WF os (stepS S o)

theorem history_independent {α K : Type} [DecidableEq α] (δ : α → K → ℤ) :
    ∀ (ops : List (Op α)) (S : Finset α) (I : K → ℤ), (∀ k, I k = ∑ t ∈ S, δ t k) → WF ops S →
      ∀ k, runI δ ops I k = ∑ t ∈ runS ops S, δ t k := by
  intro ops
  induction ops with
  | nil => intro S I h _ k; exact h k
  | cons o os ih =>
    intro S I h hw k
    exact ih (stepS S o) (stepI δ I o) (step_keeps_sum δ S I o h hw.1) hw.2 k
