"""C02, manager level: one assignment on a generated manager; the trace of task.run() calls is
compared with the downstream closure computed from the tasks' own dependency/target sets."""
import itertools
from rac import mgrgen as G


def downstream(m, start_refs):
    tasks = dict(m.tasks)
    start = {tid for tid, t in tasks.items() if set(t.dependencies) & set(start_refs)}
    edges = {w: [r for r, rt in tasks.items() if set(wt.targets) & set(rt.dependencies)] for w, wt in tasks.items()}
    seen, todo = set(), list(start)
    while todo:
        v = todo.pop()
        if v in seen:
            continue
        seen.add(v)
        todo += edges[v]
    return seen, edges


def reaches(edges, a, b):
    seen, todo = set(), [a]
    while todo:
        v = todo.pop()
        if v == b:
            return True
        if v in seen:
            continue
        seen.add(v)
        todo += edges.get(v, [])
    return False


OBS_SRC = '''
import xdeps.tasks as _T
def add_observers(m, r):
    """side-effect-only tasks (no targets) on every location and on every nested container"""
    refs = [r['a'], r['b'], r['c'], r['n'], r['n']['x'], r['n']['y'], r['n']['z'], r['l'], r['l'][0], r['l'][1], r['o'], r['o'].p, r['o'].q]
    for rf in refs:
        m.register(_T.FunctionTask(("watch", str(rf)), (lambda: None), set(), {rf}))
'''
exec(OBS_SRC)

TRACE_TAIL = '''
import xdeps.tasks as T
add_observers(m, r)
trace = []
for cls in (T.ExprTask, T.FunctionTask, T.LinearKnob):
    def mk(orig):
        def run(self):
            trace.append(self.taskid); return orig(self)
        return run
    cls.run = mk(cls.run)
ASSIGN
tasks = dict(m.tasks)
start_refs = REF._get_dependencies()
start = {tid for tid, t in tasks.items() if set(t.dependencies) & set(start_refs)}
edges = {w: [r_ for r_, rt in tasks.items() if set(wt.targets) & set(rt.dependencies)] for w, wt in tasks.items()}
seen, todo = set(), list(start)
while todo:
    v = todo.pop()
    if v not in seen:
        seen.add(v); todo += edges[v]
assert len(trace) == len(set(trace)), ("a task ran twice", trace)
assert set(trace) == seen, ("ran", sorted(map(str, trace)), "downstream", sorted(map(str, seen)))
print("trace ok:", [str(t) for t in trace])
'''


def run(rac):
    import xdeps.tasks as T
    trace = []
    origs = {}
    for cls in (T.ExprTask, T.FunctionTask, T.LinearKnob):
        origs[cls] = cls.run

        def mk(orig):
            def run_(self):
                trace.append(self.taskid)
                return orig(self)
            return run_
        cls.run = mk(cls.run)
    try:
        quick = rac.tier == "quick"
        alpha = [o for o in G.op_alphabet(small=True) if o[0] == "expr"] + [o for o in G.CONTAINER_OPS if o[0] == "expr"][:2]
        # assigned locations: every observed one, plus members that NO task reads one by one (only their container is read) and a new key
        assigned = list(G.LOCS) + [("l", 2), ("n", "w")]
        L = 3 if quick else 4
        rac.section("manager", f"managers built by every sequence of <= {L} expression definitions (of {len(alpha)}), "
                    "(two of them reading a nested container as a whole through a function reference), "
                    "plus side-effect-only observer tasks (no targets) on every location and nested container, "
                    "then every location -- and two members that no task reads one by one -- assigned once (for histories of <= 2 definitions also after a "
                    "copy() of the manager had every definition removed from it) (a plain value; on an expression-defined location it replaces the definition); run trace == downstream closure of the declared graph, each once, "
                    "producers first unless the declared edge closes a cycle; non-trivial = at least one task ran",
                    f"<= {L} definitions x {len(assigned)} assigned locations")
        for n in range(1, L + 1):
            for ops in itertools.permutations(alpha, n):
                if rac.out_of_time(0.8):
                    rac.sections["manager"]["exhaustive"] = False
                    return
                orc = G.Oracle()
                if not all(G.legal(orc, o) and (orc.apply(o) or True) for o in ops):
                    continue
                for loc, edited_copy in itertools.product(assigned, (False, True)):
                    if edited_copy and (n > 2 or loc not in G.LOCS[:6]):
                        continue
                    # (a location that HAS a definition is assigned too: the value replaces the definition, whose task must not run)
                    w = G.World()
                    try:
                        for o in ops:
                            w.apply(o)
                        if edited_copy:
                            # an independent copy of the manager is edited (every definition removed there): the original schedules as before
                            other = w.m.copy()
                            for tid in list(other.tasks):
                                other.unregister(tid)
                        add_observers(w.m, w.r)
                        del trace[:]
                        ref = w.ref(loc)
                        w.apply(("val", loc, 6.5))
                        want, edges = downstream(w.m, ref._get_dependencies())
                        bad = None
                        if len(trace) != len(set(trace)):
                            bad = "a task ran twice"
                        elif set(trace) != want:
                            bad = f"ran {sorted(map(str, trace))}, downstream set is {sorted(map(str, want))}"
                        else:
                            pos = {t: k for k, t in enumerate(trace)}
                            for u in trace:
                                for v in edges[u]:
                                    if v != u and pos[u] > pos[v] and not reaches(edges, v, u):
                                        bad = f"{v} ran before its producer {u}"
                    except Exception as ex:  # noqa
                        bad = f"raised {type(ex).__name__}: {ex}"
                    rac.case((ops, loc, edited_copy), nontrivial=bool(trace), sample=[G.opstr(o) for o in ops] + (["copy() edited"] if edited_copy else []) + [f"assign {G.locstr(loc)}"])
                    if bad:
                        hist = "; ".join(G.opstr(o) for o in ops)
                        rs = "r" + "".join(s if isinstance(s, str) and s.startswith(".") else f"[{s!r}]" for s in loc)
                        tail = TRACE_TAIL.replace("ASSIGN", f"{rs} = 6.5").replace("REF", rs)
                        if edited_copy:
                            tail = "other = m.copy()\nfor tid in list(other.tasks): other.unregister(tid)\n" + tail
                        rac.fail(f"manager {hist} {'after an edited copy ' if edited_copy else ''}assign {G.locstr(loc)}", f"C02 [{hist}]{' (a copy() of the manager was edited in between)' if edited_copy else ''} then {G.locstr(loc)} = 6.5: {bad}",
                                 G.history_script(list(ops), OBS_SRC + tail), "Manager.set_value")
    finally:
        for cls, o in origs.items():
            cls.run = o
