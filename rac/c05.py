"""C05 bounded stand-in: for every expression node class of the compiled module (discovered by
introspection) x every operand slot x {ref directly in the slot, ref nested two levels below}:
`_get_dependencies()` must equal the reference `locs` (structural walk over the declared slots,
written from the statement), must be a set, and changing the location through the manager must
recompute a dependant defined by the expression."""
import itertools
import math
import operator
import os
import sys
sys.path.insert(0, os.path.dirname(os.path.dirname(os.path.abspath(__file__))))
from rac.common import Rac, PRELUDE


def main():
    rac = Rac("C05")
    import xdeps
    import xdeps.refs as R

    SLOTNAMES = ("_owner", "_key", "_lhs", "_rhs", "_arg", "_op", "_params", "_func", "_args", "_kwargs")

    def locs(e):
        """item/attribute locations occurring anywhere inside e (all slots, tuples element-wise)"""
        out = set()
        if isinstance(e, (tuple, list)):
            for it in e:
                out |= locs(it)
            return out
        if not isinstance(e, R.BaseRef):
            return out
        if isinstance(e, (R.AttrRef, R.ItemRef)):
            out.add(e)
        for s in SLOTNAMES:
            if s in dir(type(e)):
                v = getattr(e, s)
                if s == "_kwargs":
                    for _, vv in v:
                        out |= locs(vv)
                else:
                    out |= locs(v)
        return out

    classes = sorted(n for n, c in vars(R).items() if isinstance(c, type) and issubclass(c, R.BaseRef))
    seen_classes = set()

    class F:
        @staticmethod
        def f(*a, **k):
            return sum(a) + sum(k.values())

    def world():
        d = dict(a=1.5, b=2.0, c=3.0, k="a", i=1, lst=[10.0, 20.0, 30.0], n=dict(x=4.0, y=5.0), t=0.0, tbl={0: 7.0, 1: 8.0})
        m = xdeps.Manager()
        r = m.ref(d, "d")
        fr = m.ref(F, "f")
        return d, m, r, fr

    # builders: name -> source of an expression with X placed in the slot of interest
    def builders(r, fr):
        S = []
        for op in ("add", "sub", "mul", "truediv", "floordiv", "mod", "pow", "lt", "le", "ge", "gt"):
            S.append((f"{op}.lhs", f"operator.{op}(X, 2)"))
            S.append((f"{op}.rhs", f"operator.{op}(2, X)"))
        for op in ("and_", "or_", "xor", "lshift", "rshift"):
            S.append((f"{op}.lhs", f"operator.{op}(X, 1)"))
            S.append((f"{op}.rhs", f"operator.{op}(1, X)"))
        S += [("eq.lhs", "X._eq(2)"), ("ne.lhs", "X._neq(2)"), ("eq.rhs", "r['c']._eq(X)")]
        for op in ("neg", "pos", "invert"):
            S.append((f"{op}.arg", f"operator.{op}(X)"))
        S += [("abs.arg", "abs(X)"), ("round.arg", "round(X)"), ("round.param", "round(r['c'], X)"),
              ("divmod.arg", "divmod(X, 2)"), ("divmod.param", "divmod(r['c'], X)"), ("trunc.arg", "math.trunc(X)"),
              ("floor.arg", "math.floor(X)"), ("ceil.arg", "math.ceil(X)"), ("call.arg0", "fr.f(X, 1)"),
              ("call.arg1", "fr.f(1, X)"), ("call.kwarg", "fr.f(1, q=X)"), ("call.func", "X(1)"),
              ("call.literal-first", "fr.f(R.LiteralExpr(0.5), X)"), ("call.literal-then-kw", "fr.f(R.LiteralExpr(1), q=X)"),
              ("call.literal-func-arg", "R.CallRef(math.hypot, (R.LiteralExpr(0.0), X, r['b']), {})"),
              ("builtin.literal-arg", "R.BuiltinRef(R.LiteralExpr(2.5), round, (X,))"),
              ("item.key", "r['lst'][X]"), ("item.owner", "X[0]"), ("attr.owner", "X.real"), ("matmul.lhs", "X @ 2")]
        env = dict(r=r, fr=fr, operator=operator, math=math, R=R)
        return [(n, (lambda X, src=src: eval(src, dict(env, X=X)))) for n, src in S], dict(S)

    FILL = {"item": "r['a']", "nested-item": "r['n']['x']", "computed-key": "r['lst'][r['i']]",
            "deep": "(r['a'] + 1) * r['b']", "container": "r",
            # different locations whose keys (hence precomputed hashes) collide: hash(-1) == hash(-2); 1 == 1.0 == True; 0 == 0.0 == False
            "key -1": "r['lst'][-1]", "key -2": "r['lst'][-2]", "key 1": "r['tbl'][1]", "key 1.0": "r['tbl'][1.0]", "key True": "r['tbl'][True]",
            "key 0": "r['tbl'][0]", "key False": "r['tbl'][False]", "two colliding": "r['lst'][-2] - r['lst'][-1]"}
    WORLD_SRC = """import xdeps, operator, math
import xdeps.refs as R
class F:
    @staticmethod
    def f(*a, **k): return sum(a) + sum(k.values())
d = dict(a=1.5, b=2.0, c=3.0, k="a", i=1, lst=[10.0, 20.0, 30.0], n=dict(x=4.0, y=5.0), t=0.0, tbl={0: 7.0, 1: 8.0})
m = xdeps.Manager(); r = m.ref(d, "d"); fr = m.ref(F, "f")
SLOTS = ("_owner", "_key", "_lhs", "_rhs", "_arg", "_op", "_params", "_func", "_args", "_kwargs")
def locs(e):
    out = set()
    if isinstance(e, (tuple, list)):
        for it in e: out |= locs(it)
        return out
    if not isinstance(e, R.BaseRef): return out
    if isinstance(e, (R.AttrRef, R.ItemRef)): out.add(e)
    for s in SLOTS:
        if s in dir(type(e)):
            v = getattr(e, s)
            out |= locs([vv for _, vv in v]) if s == "_kwargs" else locs(v)
    return out
"""

    def slot_script(bsrc, fsrc):
        # (the harness has queried the other operands before, in this order, in the same process: state kept across queries is part of the input)
        warm = f"for _src in {list(FILL.values())!r}:\n    if _src == {fsrc!r}:\n        break\n    eval(_src)._get_dependencies()\n"
        return PRELUDE + WORLD_SRC + warm + f"X = {fsrc}\ne = {bsrc}\ngot = e._get_dependencies()\nprint(e, '->', got)\n" \
            "assert isinstance(got, set), 'result is not a set'\nassert got == locs(e), ('reported', sorted(map(str, got)), 'inside', sorted(map(str, locs(e))))\n"

    rac.section("slots", "every node class x operand slot, with an item ref / an attribute-style nested ref / an expression "
                "two levels deep / the top-level container ref in the slot; reported dependencies == reference locs, result "
                "is a set; non-trivial = locs non-empty", "about 60 slot builders x 5 fillers")
    d, m, r, fr = world()
    fillers = [(n, (lambda r, src=src: eval(src, dict(r=r)))) for n, src in FILL.items()]
    for (bname, build), (fname, fill) in itertools.product(builders(r, fr)[0], fillers):
        d, m, r, fr = world()
        bl, bsrcs = builders(r, fr)
        build = dict(bl)[bname]
        X = fill(r)
        try:
            e = build(X)
        except Exception as ex:      # noqa
            continue
        if not isinstance(e, R.BaseRef):
            continue
        seen_classes.add(type(e).__name__)
        script = slot_script(bsrcs[bname], FILL[fname])
        try:
            got = e._get_dependencies()
        except Exception as ex:      # noqa
            rac.fail(f"slot {bname} {fname}", f"_get_dependencies of {e} raised {type(ex).__name__}: {ex}", script, type(e).__name__ + "._get_dependencies")
            continue
        want = locs(e)
        rac.case((bname, fname), nontrivial=bool(want), sample=f"{bname} <- {fname}: {e}")
        if not isinstance(got, set):
            rac.fail(f"slot {bname} {fname}", f"_get_dependencies of {e} returned {got!r}, not a set", script, type(e).__name__ + "._get_dependencies")
        elif got != want:
            rac.fail(f"slot {bname} {fname}", f"_get_dependencies of {e}: reported {sorted(map(str, got))}, locations inside: {sorted(map(str, want))}",
                     script, type(e).__name__ + "._get_dependencies")
        # also with a caller-provided accumulator (non-empty and EMPTY: callers rely on in-place update)
        for acc0 in ({r["c"]}, set()):
            acc = set(acc0)
            try:
                ret = e._get_dependencies(acc)
                if acc != want | acc0:
                    rac.fail(f"slot-acc{len(acc0)} {bname} {fname}", f"_get_dependencies(out) of {e} with out={sorted(map(str, acc0))} left out = {sorted(map(str, acc))}, "
                             f"locations inside: {sorted(map(str, want))}", script.replace("got = e._get_dependencies()", "got = set(); e._get_dependencies(got)"),
                             type(e).__name__ + "._get_dependencies")
            except Exception as ex:      # noqa
                rac.fail(f"slot-acc {bname} {fname}", f"_get_dependencies(out) of {e} raised {ex!r}", script, type(e).__name__ + "._get_dependencies")
        # ... and for the SAME node obtained by another construction route (its pickle hook applied by hand, copy, deepcopy): a node
        # that precomputes anything from its constructor arguments must do so for every spelling of those arguments
        import copy as _copy
        for rname, route, rsrc in (("reduce", lambda q: type(q)(*q.__reduce__()[1]), "type(e0)(*e0.__reduce__()[1])"),
                                   ("copy", _copy.copy, "__import__('copy').copy(e0)"), ("deepcopy", _copy.deepcopy, "__import__('copy').deepcopy(e0)")):
            try:
                e2 = route(e)
                got2 = e2._get_dependencies()
            except Exception:      # noqa
                continue
            want2 = locs(e2)
            rac.case((bname, fname, rname), nontrivial=bool(want2))
            if got2 != want2:
                rac.fail(f"rebuilt {rname} {bname} {fname}", f"_get_dependencies of {e2} (rebuilt through {rname}): reported {sorted(map(str, got2 or []))}, "
                         f"locations inside: {sorted(map(str, want2))}",
                         slot_script(bsrcs[bname], FILL[fname]).replace("e = " + bsrcs[bname], "e0 = " + bsrcs[bname] + "\ne = " + rsrc),
                         type(e2).__name__ + "._get_dependencies")
        # ... and as an operand of an enclosing node (the enclosing node hands down its own, still empty, accumulator)
        for wname, wrap in (("1+e", lambda q: 1 + q), ("-e", lambda q: -q), ("abs(e)", abs), ("f(e)", lambda q: fr.f(q)),
                            ("f(k=e)", lambda q: fr.f(k=q))):
            try:
                w = wrap(e)
                gotw = w._get_dependencies()
            except Exception:      # noqa
                continue
            wantw = locs(w)
            rac.case((bname, fname, wname), nontrivial=bool(wantw))
            if gotw != wantw:
                rac.fail(f"nested {wname} {bname} {fname}", f"_get_dependencies of {w}: reported {sorted(map(str, gotw or []))}, locations inside: {sorted(map(str, wantw))}",
                         slot_script(bsrcs[bname], FILL[fname]).replace("e = " + bsrcs[bname], "e0 = " + bsrcs[bname] + "\ne = (%s)(e0)" % {
                             "1+e": "lambda q: 1 + q", "-e": "lambda q: -q", "abs(e)": "abs", "f(e)": "lambda q: fr.f(q)", "f(k=e)": "lambda q: fr.f(k=q)"}[wname]),
                         type(w).__name__ + "._get_dependencies")
    missing = [c for c in classes if c not in seen_classes and c not in ("BaseRef", "MutableRef", "BinOpExpr", "UnaryOpExpr",
                                                                      "Ref", "ObjectAttrRef", "LiteralExpr", "AttrRef", "ItemRef")]
    rac.section("perturb", "numeric expressions from the slot builders registered as the definition of d['t']; each "
                "location they read is changed through its ref and the dependant must be recomputed", "same builders")
    for (bname, _), (fname, fill) in itertools.product(builders(*world()[2:])[0], fillers[:4]):
        d, m, r, fr = world()
        bl, bsrcs = builders(r, fr)
        build = dict(bl)[bname]
        try:
            e = build(fill(r))
            v0 = e._get_value()
            float(v0) if not isinstance(v0, tuple) else None
        except Exception:      # noqa
            continue
        if bname in ("call.func", "item.owner", "attr.owner"):
            continue
        try:
            r["t"] = e
        except Exception as ex:      # noqa
            rac.fail(f"perturb-def {bname} {fname}", f"defining d['t'] = {e} raised {ex!r}", PRELUDE, "ExprTask.__init__")
            continue
        for loc in sorted(locs(e), key=str):
            try:
                cur = loc._get_value()
                if not isinstance(cur, (int, float)) or isinstance(cur, bool):
                    continue
                new = cur + 1
                loc._owner[loc._key] = new
                want = e._get_value()
                same = d["t"] == want or (d["t"] != d["t"] and want != want)
                rac.case((bname, fname, str(loc)), sample=f"d['t'] = {e}; {loc} = {new}")
                if not same:
                    rac.fail(f"perturb {bname} {fname} {loc}", f"d['t'] = {e}: after {loc} = {new!r} the dependant holds {d['t']!r}, the expression gives {want!r}",
                             PRELUDE + WORLD_SRC + f"X = {FILL[fname]}\ne = {bsrcs[bname]}\nr['t'] = e\n{loc} = {new!r}\nwant = e._get_value()\n"
                             "print(d['t'], want)\nassert d['t'] == want or (d['t'] != d['t'] and want != want), 'dependant not recomputed'\n".replace("d[", "r[", 0),
                             type(e).__name__ + "._get_dependencies")
            except Exception as ex:      # noqa
                pass
    rac.section("task-report", "the same expressions registered as the definition of (a) d['t'] and (b) d['n']['t'] -- a target that shares its owner "
                "with a location the expression reads: the dependencies the manager's task reports for the expression equal the locations inside it "
                "(owners included, also an owner that encloses the task's own target), and replacing such an owner through its reference by a "
                "container with other numbers recomputes the dependant", "same builders x 2 targets")
    import copy as _copy
    for (bname, _), (fname, fill), tgt in itertools.product(builders(*world()[2:])[0], fillers[:4], ("r['t']", "r['n']['t']")):
        if bname in ("call.func", "item.owner", "attr.owner"):
            continue
        d, m, r, fr = world()
        d["n"]["t"] = 0.0
        bl, bsrcs = builders(r, fr)
        try:
            e = dict(bl)[bname](fill(r))
            v0 = e._get_value()
            float(v0) if not isinstance(v0, tuple) else None
            tref = eval(tgt, dict(r=r))
            tref._owner[tref._key] = e
        except Exception:      # noqa
            continue
        want = locs(e)
        got = m.tasks[tref].dependencies
        head = PRELUDE + WORLD_SRC + f"d['n']['t'] = 0.0\nX = {FILL[fname]}\ne = {bsrcs[bname]}\n{tgt} = e\n"
        rac.case(("task-report", bname, fname, tgt), sample=f"{tgt} = {e}")
        if got != want or not isinstance(got, set):
            rac.fail(f"task-report {bname} {fname} {tgt}", f"{tgt} = {e}: the task reports dependencies {sorted(map(str, got or []))}, locations inside the expression: {sorted(map(str, want))}",
                     head + f"got = m.tasks[{tgt}].dependencies\nassert isinstance(got, set) and got == locs(e), (sorted(map(str, got)), sorted(map(str, locs(e))))\n", "ExprTask.__init__")
            continue
        for loc in sorted(want, key=str):
            try:
                cur = loc._get_value()
            except Exception:      # noqa
                continue
            if not isinstance(cur, (dict, list)):
                continue
            new = _copy.deepcopy(cur)
            for kk in (new if isinstance(new, dict) else range(len(new))):
                if isinstance(new[kk], float):
                    new[kk] = new[kk] + 1.0
            try:
                loc._owner[loc._key] = new
                wantv, gotv = e._get_value(), tref._get_value()
            except Exception as ex:      # noqa
                rac.fail(f"task-report replace {bname} {fname} {tgt} {loc}", f"{tgt} = {e}; {loc} = {new!r} raised {ex!r}", head + f"{loc} = {new!r}\n", "ExprTask.__init__")
                continue
            rac.case(("task-report-replace", bname, fname, tgt, str(loc)), sample=f"{tgt} = {e}; {loc} = {new!r}")
            if not (gotv == wantv or (gotv != gotv and wantv != wantv)):
                rac.fail(f"task-report replace {bname} {fname} {tgt} {loc}", f"{tgt} = {e}: after {loc} = {new!r} the dependant holds {gotv!r}, the expression gives {wantv!r}",
                         head + f"{loc} = {new!r}\nwant = e._get_value(); got = {tgt}._get_value()\nprint(got, want)\nassert got == want or (got != got and want != want), 'dependant not recomputed'\n".replace("d[", "r[", 0),
                         "ExprTask.__init__")
    if missing:
        rac.section("coverage", "node classes never produced by the builders", "introspection")
        rac.fail("coverage " + ",".join(missing), f"node classes without a slot builder (harness must be extended): {missing}", PRELUDE, None)
    return rac.finish()


if __name__ == "__main__":
    sys.exit(main())
