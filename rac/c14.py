"""C14 bounded stand-in: every table the API produces satisfies Rect and leaves its source untouched.

Rect(t):  t._index in t._col_names; every c in t._col_names is in t._data with len(t._data[c]) == len(t);
          (for derived tables) scalar entries of the source are carried over to row and column selections.
Source untouched: length, column list (also after the DERIVED table gains / loses a column: the two must not share
their column list), cell values and scalars of every earlier table equal their snapshot after each derivation.
Column expressions evaluate element-wise (compared with numpy on the raw columns).
Checked constructor: inconsistent inputs must raise ValueError (unequal lengths, missing index, non-array column).
"""
import itertools
import os
import sys
sys.path.insert(0, os.path.dirname(os.path.dirname(os.path.abspath(__file__))))
from rac.common import Rac, PRELUDE

SRC = '''
import numpy as np
import xdeps
def mk(n, kind=0):
    names = (["ip1", "mq", "ip1", "d", "mq", "e"] * 3)[:n]
    data = {"name": np.array(names, dtype=object), "a": np.arange(n, dtype=float) + 1, "b": (np.arange(n) * 3) % 5,
            "txt": np.array([f"t{i}" for i in range(n)], dtype=object)}
    cols = ["name", "a", "b", "txt"]
    if kind == 1:
        data["sc"] = 42.5; data["title"] = "hello"
        # non-column entries of other Python types: numpy scalars (what col.max() / np.sum(col) give) and an array that is not a column
        data["len"] = np.float64(6.0); data["cnt"] = np.int64(2); data["mat"] = np.eye(2)
    if kind == 2:
        data["pos"] = np.arange(2 * n, dtype=float).reshape(n, 2)       # one vector per row
        cols = cols + ["pos"]
    t = xdeps.Table(data, col_names=cols, index="name")
    return t
def rect(t):
    bad = []
    if t._index is not None and t._index not in t._col_names:
        bad.append("index column %r not among columns %r" % (t._index, t._col_names))
    n = None
    try:
        n = len(t)
    except Exception as ex:
        bad.append("len() raised %r" % (ex,))
    for c in t._col_names:
        if c not in t._data:
            bad.append("listed column %r missing from the data" % (c,))
        elif n is not None and len(t._data[c]) != n:
            bad.append("column %r has %d rows, table has %d" % (c, len(t._data[c]), n))
    if len(set(t._col_names)) != len(t._col_names):
        bad.append("duplicate column names %r" % (t._col_names,))
    return bad
def snapshot(t):
    return dict(n=len(t), cols=list(t._col_names), index=t._index,
                cells={c: [repr(np.asarray(x).tolist()) for x in t._data[c]] for c in t._col_names},
                scalars={k: repr(t._data[k]) for k in t._data if k not in t._col_names})
'''
exec(SRC)

# derivations: label -> (source text using t (and u, a second table with the same columns), carries_scalars)
DERIV = {
    "rows[1:]": ("t.rows[1:]", True), "rows[::2]": ("t.rows[::2]", True), "rows[[0]]": ("t.rows[[0]]", True),
    "rows[[]]": ("t.rows[[]]", True), "rows[mask]": ("t.rows[[i % 2 == 0 for i in range(len(t))]]", True),
    "rows['ip.*']": ("t.rows['ip.*']", True), "rows[name:name]": ("t.rows['ip1':'mq']", True),
    "rows[1.5:3:'a']": ("t.rows[1.5:3:'a']", True), "rows[None]": ("t.rows[None]", True),
    "rows['mq',0]": ("t.rows['mq', 0]", True), "head": ("t.rows.head(2)", True), "tail": ("t.rows.tail(2)", True),
    "reverse": ("-t", True), "cols['a']": ("t.cols['a']", True), "cols['a b']": ("t.cols['a b']", True),
    "cols[list]": ("t.cols[['b', 'txt']]", True), "cols[expr]": ("t.cols['a+b']", True), "cols[None]": ("t.cols[None]" if False else "t.cols['name a b txt']", True),
    "_select(rows,cols)": ("t._select([slice(0, 2)], ['a', 'b'])", True), "_select(expr)": ("t._select(([0, 1],), ['a', 'a+2*b'])", True),
    "_select(None,expr)": ("t._select(None, 'a a*2')", True),
    "_select_rows": ("t._select_rows(np.array([1, 0]))", True), "_select_cols": ("t._select_cols(['a', 'txt'])", True),
    "add": ("t + u", False), "mul": ("t * 2", False), "mul0": ("t * 1", False), "copy": ("t._copy()", False),
    "concatenate": ("xdeps.Table.concatenate([t, u])", False), "transpose": ("t._t", False),
}
FOLLOW = {  # column-list level updates of the DERIVED table (must not reach the source)
    "add column": "r['zz'] = np.zeros(len(r))", "delete column": "del r['b']", "pop column": "r.pop('a')",
}


def main():
    rac = Rac("C14")
    quick = rac.tier == "quick"
    import numpy as np
    rac.section("derive", "tables with 0..4 rows, with and without scalar entries; every derivation (rows by slice / list / mask "
                "/ regex / name span / value range / tuple, head, tail, reverse, cols by name / list / expression, _select, "
                "_select_rows, _select_cols, +, *, _copy, concatenate, transposition) and every chain of two; then a column is "
                "added to / deleted from / popped off the derived table; Rect of every result, scalars carried, every earlier "
                "table equal to its snapshot; non-trivial = result has rows", "rows<=4, chains<=2, 3 follow-ups")
    names = sorted(DERIV)
    chains = [(d,) for d in names] + [c for c in itertools.product(names, repeat=2)]
    for n, kind in itertools.product(range(0, 5), (0, 1, 2)):
        for chain in chains:
            if len(chain) > 1 and ((n in (0, 1) and kind == 1) or kind == 2):
                continue
            if kind == 2 and ("transpose" in chain or n == 0):
                continue
            if rac.out_of_time(0.8):
                rac.sections["derive"]["exhaustive"] = False
                rac.exhaustive = False
                break
            for fname, fsrc in list(FOLLOW.items()) + [("none", "pass")]:
                if len(chain) > 1 and fname not in ("add column", "none"):
                    continue
                t0 = mk(n, kind)
                u = mk(max(n - 1, 0), kind)
                tables = [("t", t0, snapshot(t0)), ("u", u, snapshot(u))]
                cur = t0
                key = f"derive n={n} kind={kind} {' | '.join(chain)} then {fname}"
                script = PRELUDE + SRC + f"t0 = mk({n}, {kind}); u = mk({max(n - 1, 0)}, {kind}); snaps = [(t0, snapshot(t0)), (u, snapshot(u))]\nt = t0\n"
                ok = True
                for d in chain:
                    src, carries = DERIV[d]
                    script += f"r = {src}\nassert not rect(r), rect(r)\nfor q, s in snaps:\n    assert snapshot(q) == s, ('source changed', s, snapshot(q))\nsnaps.append((r, snapshot(r))); t = r\n"
                    try:
                        res = eval(src, dict(t=cur, u=u, np=np, xdeps=xdeps))
                    except Exception:      # noqa  (derivation not applicable: name absent in this table, too few rows ...)
                        ok = False
                        break
                    bad = rect(res)
                    if bad:
                        rac.fail(key, f"C14 {key}: result of {d} is not rectangular: {bad[:2]}", script, "Table._select")
                        ok = False
                        break
                    if carries:
                        sc_src = {k: repr(cur._data[k]) for k in cur._data if k not in cur._col_names}
                        sc_res = {k: repr(res._data[k]) for k in res._data if k not in res._col_names}
                        if sc_src != sc_res:
                            rac.fail(key, f"C14 {key}: scalar entries {sc_src} not carried over to the result of {d}: {sc_res}",
                                     script + "assert {k: repr(t0._data[k]) for k in t0._data if k not in t0._col_names} == {k: repr(r._data[k]) for k in r._data if k not in r._col_names}\n",
                                     "Table._select_rows")
                            ok = False
                            break
                    for nm_, tb, sn in tables:
                        if snapshot(tb) != sn:
                            now = snapshot(tb)
                            diff = [k_ for k_ in sn if sn[k_] != now[k_]]
                            rac.fail(key, f"C14 {key}: deriving {d} changed {diff} of an earlier table ({nm_})", script, "Table._select_cols")
                            ok = False
                            break
                    if not ok:
                        break
                    tables.append((d, res, snapshot(res)))
                    cur = res
                if not ok:
                    continue
                # follow-up on the derived table only
                script += f"r = t\ntry:\n    {fsrc}\nexcept KeyError:\n    pass\nfor q, s in snaps[:-1]:\n    assert snapshot(q) == s, ('a change of the derived table reached its source', s, snapshot(q))\n"
                try:
                    exec(fsrc, dict(r=cur, np=np))
                except Exception:     # noqa
                    pass
                for nm_, tb, sn in tables[:-1]:
                    try:
                        now = snapshot(tb)
                    except Exception as ex:     # noqa
                        now = dict(error=repr(ex))
                    if now != sn:
                        diff = [k_ for k_ in sn if sn.get(k_) != now.get(k_)]
                        rac.fail(key, f"C14 {key}: '{fname}' on the derived table changed {diff} of its source ({nm_}): "
                                 f"{ {k_: (sn.get(k_), now.get(k_)) for k_ in diff if k_ != 'cells'} }", script, "Table._select_rows")
                        break
                rac.case((n, kind, chain, fname), nontrivial=len(cur) > 0, sample=dict(rows=n, chain=list(chain), follow=fname))
    rac.section("expressions", "column expressions t['a+2*b'], t.cols['a+b'], t['sqrt(a)'], t['a', row] with expression columns "
                "evaluate element-wise on the columns (compared with numpy on the raw arrays), also after a row selection",
                "5 expressions x tables of 0..5 rows x 3 row selections")
    for n in range(0, 6):
        for rsel in ("None", "slice(1, None)", "[0]"):
            t = mk(n, 1)
            try:
                tt = t.rows[eval(rsel)]
            except Exception:     # noqa
                continue
            a, b = np.array(tt["a"]), np.array(tt["b"])
            for ex, want in (("a+2*b", a + 2 * b), ("sqrt(a)", np.sqrt(a)), ("a*b-1", a * b - 1), ("a/(b+1)", a / (b + 1)), ("-a", -a)):
                rac.case((n, rsel, ex), nontrivial=n > 0, sample=dict(rows=n, sel=rsel, expr=ex))
                try:
                    g1 = np.array(tt[ex], dtype=float)
                    g2 = np.array(tt.cols[ex][ex], dtype=float)
                    g3 = np.array(tt._select(None, [ex])[ex], dtype=float)
                    okx = all(len(g) == len(want) and np.allclose(g, want) for g in (g1, g2, g3))
                except Exception as e_:     # noqa
                    okx, g1 = False, repr(e_)
                if not okx:
                    rac.fail(f"expr n={n} {rsel} {ex}", f"C14 column expression {ex!r} on {n} rows after rows[{rsel}] is not the element-wise value {list(want)}: {g1}",
                             PRELUDE + SRC + f"t = mk({n}, 1).rows[{rsel}]\na, b = np.array(t['a']), np.array(t['b'])\nfrom numpy import sqrt\nwant = {ex}\n"
                             f"for g in (t[{ex!r}], t.cols[{ex!r}][{ex!r}], t._select(None, [{ex!r}])[{ex!r}]):\n    assert len(g) == len(want) and np.allclose(np.array(g, dtype=float), want), (g, want)\n",
                             "Table.__getitem__")
    rac.section("expressions-shadowing", "columns whose NAMES coincide with functions of the expression namespace (sign, sin, exp, mod, power): "
                "inside an expression the name means the column, on every access route (t[expr], t.cols[expr], t._select(None, [expr]), "
                "t[expr, row])", "5 expressions x tables of 1..4 rows")
    for n in range(1, 5):
        cols = {"name": np.array([f"e{i}" for i in range(n)], dtype=object), "sign": np.array([(-1.0) ** i * (i + 1) for i in range(n)]),
                "sin": np.arange(n) * 0.5 + 2, "exp": np.arange(n) + 1.5, "mod": np.arange(n) * 2.0 + 1, "power": np.arange(n) + 3.0,
                "k1": np.arange(n) * 0.25 + 1}
        mksrc = f"n = {n}\nt = xdeps.Table({{'name': np.array([f'e{{i}}' for i in range(n)], dtype=object), 'sign': np.array([(-1.0) ** i * (i + 1) for i in range(n)]), " \
                "'sin': np.arange(n) * 0.5 + 2, 'exp': np.arange(n) + 1.5, 'mod': np.arange(n) * 2.0 + 1, 'power': np.arange(n) + 3.0, 'k1': np.arange(n) * 0.25 + 1})\n"
        t = __import__("xdeps").Table(dict(cols))
        for ex, want in (("sign*k1", cols["sign"] * cols["k1"]), ("sin+1", cols["sin"] + 1), ("exp*2-mod", cols["exp"] * 2 - cols["mod"]),
                         ("sqrt(k1)*sign", np.sqrt(cols["k1"]) * cols["sign"]), ("power/k1", cols["power"] / cols["k1"])):
            rac.case(("shadow", n, ex), sample=dict(rows=n, expr=ex))
            try:
                g1 = np.array(t[ex], dtype=float)
                g2 = np.array(t.cols[ex][ex], dtype=float)
                g3 = np.array(t._select(None, [ex])[ex], dtype=float)
                g4 = np.array([t[ex, i] for i in range(n)], dtype=float)
                okx = all(len(g) == len(want) and np.allclose(g, want) for g in (g1, g2, g3, g4))
                got = [list(g) for g in (g1, g2, g3, g4)]
            except Exception as e_:     # noqa
                okx, got = False, repr(e_)
            if not okx:
                rac.fail(f"shadow n={n} {ex}", f"C14 column expression {ex!r} over columns named sign/sin/exp/mod/power is not the element-wise value "
                         f"{list(want)} on every route: {got}", PRELUDE + "import numpy as np\nimport xdeps\nfrom numpy import sqrt\n" + mksrc +
                         "sign, sin, exp, mod, power, k1 = (np.array(t[c]) for c in ('sign', 'sin', 'exp', 'mod', 'power', 'k1'))\n"
                         f"want = {ex}\nfor g in (t[{ex!r}], t.cols[{ex!r}][{ex!r}], t._select(None, [{ex!r}])[{ex!r}], [t[{ex!r}, i] for i in range(n)]):\n"
                         "    assert len(g) == len(want) and np.allclose(np.array(g, dtype=float), want), (g, want)\n", "Table.__getitem__")
    rac.section("in-place+derive", "every sequence of <= 2 in-place changes of a table through its API (an entry re-assigned as a column and back, new columns from "
                "arrays / lists / RAGGED lists that numpy refuses, deletions, a cell write, a column of the wrong length -- refused assignments are caught) "
                "with a derivation BEFORE the first change (whatever the table remembers about its entries is warm) and after every change: the table itself "
                "and every derived table are rectangular, derived tables carry exactly the current non-column entries", "12 changes, sequences <= 2, 3 derivations, tables of 2..4 rows")
    INPL = {
        "entry becomes a column": "t['sc'] = np.arange(len(t)) * 1.5", "column becomes an entry": "del t['b']; t['b'] = 7.0",
        "new entry": "t['note'] = 'x'", "new column (array)": "t['zz'] = np.zeros(len(t))", "new column (list)": "t['yy'] = [float(i) for i in range(len(t))]",
        "new column (ragged list, refused)": "t['rag'] = [[1.0], [1.0, 2.0]] + [[3.0]] * (len(t) - 2)",
        "new column (wrong length, refused)": "t['wl'] = np.zeros(len(t) + 1)", "delete column": "del t['a']", "pop entry": "t.pop('title')",
        "cell write": "t['a', 0] = -5.0", "entry replaced by an array entry": "t['sc'] = np.eye(3)", "column re-assigned": "t['b'] = np.arange(len(t))[::-1]",
    }
    DER = ["t.rows[1:]", "t.rows[[0]]", "t.cols['name txt']"]

    def entries_ok(src_t, res):
        a = {k: repr(src_t._data[k]) for k in src_t._data if k not in src_t._col_names}
        b = {k: repr(res._data[k]) for k in res._data if k not in res._col_names}
        return a == b, a, b
    for n in (2, 3, 4):
        for seq in [(a,) for a in INPL] + [(a, b) for a in INPL for b in INPL if a != b]:
            if len(seq) == 2 and (n != 3 or rac.out_of_time(0.9)):
                continue
            for dsrc in DER:
                key = f"in-place n={n} {' ; '.join(seq)} / {dsrc}"
                script = PRELUDE + SRC + f"t = mk({n}, 1)\n{dsrc}\n" + "".join(
                    f"try:\n    {INPL[c]}\nexcept (ValueError, KeyError, TypeError):\n    pass\nassert not rect(t), rect(t)\nr = {dsrc}\nassert not rect(r), rect(r)\n"
                    "assert {k: repr(t._data[k]) for k in t._data if k not in t._col_names} == {k: repr(r._data[k]) for k in r._data if k not in r._col_names}\n" for c in seq)
                t = mk(n, 1)
                try:
                    eval(dsrc, dict(t=t, np=np))
                except Exception:      # noqa
                    continue
                rac.case((n, seq, dsrc), sample=dict(rows=n, changes=list(seq), derivation=dsrc))
                for c in seq:
                    try:
                        exec(INPL[c], dict(t=t, np=np))
                    except Exception:      # noqa  (refused assignment: the caller goes on with the table)
                        pass
                    bad = rect(t)
                    if bad:
                        rac.fail(key, f"C14 {key}: after '{c}' the table itself is not rectangular: {bad[:2]}", script, "Table.__setitem__")
                        break
                    try:
                        res = eval(dsrc, dict(t=t, np=np))
                    except Exception:      # noqa  (a derivation that raises produces no table: not constrained by the statement --
                        continue               #  e.g. a column assigned as a plain Python list cannot be indexed with a list of positions)
                    bad = rect(res)
                    ok, a, b = entries_ok(t, res)
                    if bad or (not ok and "cols" not in dsrc):
                        rac.fail(key, f"C14 {key}: after '{c}' the derived table " + (f"is not rectangular: {bad[:2]}" if bad else f"carries entries {sorted(b)} while its source has {sorted(a)}"),
                                 script, "Table._select_rows")
                        break
    rac.section("constructor", "the checked constructor rejects non-rectangular input", "5 malformed inputs + 3 well-formed")
    bads = {"unequal lengths": "xdeps.Table({'name': np.array(['a', 'b'], dtype=object), 'x': np.array([1.0])})",
            "index missing": "xdeps.Table({'x': np.array([1.0])}, index='name')",
            "index not listed": "xdeps.Table({'name': np.array(['a'], dtype=object), 'x': np.array([1.0])}, col_names=['x'])",
            "column not an array": "xdeps.Table({'name': ['a', 'b'], 'x': np.array([1.0, 2.0])})",
            "listed column absent": "xdeps.Table({'name': np.array(['a'], dtype=object)}, col_names=['name', 'x'])"}
    for what, src in bads.items():
        rac.case(("ctor", what), sample=what)
        try:
            tb = eval(src, dict(xdeps=xdeps, np=np))
            if rect(tb):
                rac.fail("ctor " + what, f"C14 checked constructor accepted {what}: {rect(tb)}", PRELUDE + SRC + f"try:\n    t = {src}\nexcept (ValueError, KeyError):\n    raise SystemExit(0)\nassert not rect(t), rect(t)\n", "Table.__init__")
        except (ValueError, KeyError):
            pass
        except Exception as ex:     # noqa
            pass
    for k in range(3):
        tb = mk(k + 1, k % 2)
        rac.case(("ctor-ok", k), sample=k)
        if rect(tb):
            rac.fail(f"ctor-ok {k}", f"C14 constructor produced a non-rectangular table: {rect(tb)}", PRELUDE + SRC + f"assert not rect(mk({k + 1}, {k % 2}))\n", "Table.__init__")
    return rac.finish()


if __name__ == "__main__":
    sys.exit(main())
