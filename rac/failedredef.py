"""Run-time contract section for C03 (wave 10, C03-19): an assignment of an expression that FAILS to evaluate (caught by the caller), followed by
a successful replacement or removal of that location's definition: from then on the manager answers and reacts like a fresh manager holding the
surviving definitions only -- nothing of the failed expression (nor of the definition it displaced) may stay in the indices.
Each case is a standalone script (the replay file as it stands)."""
from rac.common import PRELUDE

SETUP = '''import xdeps
def world(defs):
    d = {'a': 1.0, 'b': 2.0, 'y': 0.0, 'z': 0.0, 'l': [1.0, 2.0]}
    m = xdeps.Manager(); r = m.ref(d, 'd'); fx = m.ref(FX, 'fx')
    globals()['fx'] = fx
    for f in defs:
        f(r)
    return d, m, r
class FX:
    @staticmethod
    def boom(x):
        raise ValueError("boom")
def answers(m, r):
    keys = [r['a'], r['b'], r['missing'], r['y'], r['z'], r['l'], r['l'][5]]
    return {str(k): (sorted(map(str, m.find_deps([k]))), sorted(map(str, m.tartasks.get(k, {}))), sorted(map(str, m.deptasks.get(k, {})))) for k in keys}
'''
FIRST = {"with an earlier definition": "lambda r: r.__setitem__('y', r['a'] * 2)", "without an earlier definition": "lambda r: None"}
FAILING = {"missing key": "r['y'] = r['b'] * r['missing']", "index out of range": "r['y'] = r['b'] + r['l'][5]", "failing function": "r['y'] = fx.boom(r['b'])"}
THEN = {"a value": ("r['y'] = 5.0", "lambda r: r.__setitem__('y', 5.0)"),
        "another expression": ("r['y'] = r['a'] + 10", "lambda r: r.__setitem__('y', r['a'] + 10)"),
        "unregister": ("m.unregister(r['y'])", "lambda r: None")}


def run(rac, prop="C03"):
    rac.section("failed-redefinition", "a location (with or without an earlier definition, with a dependant) is assigned an expression whose evaluation RAISES "
                "(missing key, index out of range, a user function that raises); the caller catches it; the location is then given a value / another expression / is "
                "unregistered: dependants, writers and readers of every location involved, verify() and the reaction to later assignments equal those of a fresh "
                "manager with the surviving definitions", f"{len(FIRST)} x {len(FAILING)} x {len(THEN)} histories")
    for fn, first in FIRST.items():
        for xn, failing in FAILING.items():
            for tn, (then, fresh_then) in THEN.items():
                src = (SETUP + f"z_def = lambda r: r.__setitem__('z', r['y'] + 1)\n"
                       f"d, m, r = world([{first}, z_def])\n"
                       f"try:\n    {failing}\nexcept (KeyError, IndexError, ValueError) as ex:\n    caught = type(ex).__name__\nelse:\n    caught = None\n"
                       f"{then}\n"
                       "assert caught is not None, 'the assignment did not raise'\n"
                       f"fd, fm, fr = world([z_def, {fresh_then}])\n"
                       "if r['y']._expr is None:\n    fr['y'] = d['y']          # (a location without a definition keeps the last value it was given)\n"
                       "m.verify()\n"
                       "assert answers(m, r) == answers(fm, fr), ('queries differ from a fresh manager', answers(m, r), answers(fm, fr))\n"
                       "for w in (d, fd):\n    w['missing'] = 1.0\n"
                       "for rr in (r, fr):\n    rr['missing'] = 3.0; rr['b'] = 7.0; rr['a'] = 9.0; rr['l'] = [4.0, 5.0]\n"
                       "assert d == fd, ('data differ from a fresh manager after later assignments', d, fd)\n")
                key = f"failed-redefinition {fn} / {xn} / then {tn}"
                rac.case(key, sample=dict(first=fn, failing=failing, then=then))
                try:
                    exec(src, {})
                except AssertionError as ex:
                    rac.fail(key, f"{prop} {fn}; {failing} raises and is caught; then {then}: {str(ex)[:600]}", PRELUDE + src, "Manager.set_value")
                except Exception as ex:      # noqa
                    rac.fail(key, f"{prop} {fn}; {failing} raises and is caught; then {then}: a later operation raised {type(ex).__name__}: {ex}", PRELUDE + src, "Manager.set_value")
