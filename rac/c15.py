"""C15 bounded stand-in: the optimizer log is truthful.

After random call sequences (step / solve / reload / tag / enable / disable / clear_log, failing solves included):
  every row i : reload(i) puts the row's knob values back (bit-exact for unit weights, 1e-12 relative otherwise) and the
                row's active flags; an INDEPENDENT evaluation of the user function at those knobs reproduces the row's
                penalty and target values;
  take_best   : a step(take_best=True) that returns normally ends within all tolerances, or on the point of minimum
                penalty among those logged during that call (the starting point included), hence never worse than its start.
"""
import copy
import json
import os
import sys
sys.path.insert(0, os.path.dirname(os.path.dirname(os.path.abspath(__file__))))
from rac.common import Rac, PRELUDE
from rac import optgen as G

CHECK_SRC = '''
def play(prob, calls):
    opt, d, act = build(prob, n_steps_max=5)
    notes = []
    valid_from = 0          # rows below this index were logged against target values the user has changed since
    for c in calls:
        n0 = len(opt._log["penalty"])
        flags0 = ("".join("y" if v.active else "n" for v in opt.vary), "".join("y" if t.active else "n" for t in opt.targets))
        try:
            with deadline(120):
                exec(c, dict(opt=opt, d=d, prob=prob))
            ok = True
        except Exception as ex:
            ok = False
        if "targets[0].value =" in c:
            valid_from = len(opt._log["penalty"])
        valid_from = min(valid_from, len(opt._log["penalty"]))
        if ok and c.startswith("opt.step(") and "take_best=False" not in c:
            # the point left in the container after a normally returning step(take_best=True)
            kn = knobs_of(d, prob)
            tact = [t.active for t in opt.targets]
            pend = penalty(prob, kn, tact)
            logged = opt._log["penalty"][n0:]        # the call logs its starting point first (row n0), then one row per step
            rows = [[float(x) for x in r] for r in opt._log["knobs"][n0:]]
            flags_now = ("".join("y" if v.active else "n" for v in opt.vary), "".join("y" if t.active else "n" for t in opt.targets))
            notes.append(dict(call=c, end_penalty=pend, within=all(within_tol(prob, kn, tact)), logged=[float(x) for x in logged], n0=n0,
                              end_knobs=[float(x) for x in kn], rows=rows, flags_before=flags0, flags_after=flags_now,
                              plain="enable" not in c and "disable" not in c))
    opt._rac_valid_from = valid_from
    return opt, d, notes

def take_best_violation(nt):
    """-> description if a normally returning step(take_best=True) broke its contract, else None"""
    if nt["within"] or not nt["logged"]:
        return None
    best = min(nt["logged"])
    if nt["end_penalty"] > best * (1 + 1e-9) + 1e-300:
        return f"ended at penalty {nt['end_penalty']} while the minimum logged during the call is {best}"
    # the end point must be one of the points logged DURING the call (a minimal one), not an older one
    cands = [r for r, p in zip(nt["rows"], nt["logged"]) if p <= best * (1 + 1e-9) + 1e-300]
    if not any(all(abs(a - b) <= 1e-12 * max(1.0, abs(b)) for a, b in zip(nt["end_knobs"], r)) for r in cands):
        return f"ended on knobs {nt['end_knobs']}, which is none of the minimum-penalty points logged during the call {cands[:3]}"
    if nt["plain"] and nt["flags_before"] != nt["flags_after"]:
        return f"changed the active flags from {nt['flags_before']} to {nt['flags_after']}"
    return None


def check_log(prob, opt, d):
    bad = []
    unit = all(w is None or w == 1 for w in prob["w"])
    n = len(opt._log["penalty"])
    for i in range(n):
        row = dict(knobs=[float(x) for x in opt._log["knobs"][i]], va=opt._log["vary_active"][i], ta=opt._log["target_active"][i],
                   pen=float(opt._log["penalty"][i]), tars=[float(x) for x in np.atleast_1d(opt._log["targets"][i])])
        tact = [c == "y" for c in row["ta"]]
        current = i >= getattr(opt, "_rac_valid_from", 0)
        # independent evaluation at the logged knobs
        pen = penalty(prob, row["knobs"], tact)
        if current and abs(pen - row["pen"]) > 1e-9 * max(1.0, abs(pen)):
            bad.append(("row penalty", i, row["pen"], pen))
            continue
        want_t = [float(x) for x in user(prob, row["knobs"])]
        if any(abs(a - b) > 1e-9 * max(1.0, abs(b)) for a, b in zip(row["tars"], want_t)):
            bad.append(("row targets", i, row["tars"], want_t))
            continue
        try:
            opt.reload(i)
        except Exception as ex:
            bad.append(("reload raised", i, repr(ex), None))
            continue
        kn = knobs_of(d, prob)
        same = all((a == b) if unit else abs(a - b) <= 1e-12 * max(1.0, abs(b)) for a, b in zip(kn, row["knobs"]))
        va = "".join("y" if v.active else "n" for v in opt.vary)
        ta = "".join("y" if t.active else "n" for t in opt.targets)
        if not same:
            bad.append(("reload knobs", i, kn, row["knobs"]))
        elif va != row["va"] or ta != row["ta"]:
            bad.append(("reload flags", i, (va, ta), (row["va"], row["ta"])))
        elif abs(float(opt._log["penalty"][-1]) - pen) > 1e-9 * max(1.0, abs(pen)):
            bad.append(("reload re-evaluation", i, float(opt._log["penalty"][-1]), row["pen"]))
    return bad
'''
exec(G.SRC + CHECK_SRC)

CALLS = ["opt.step(1)", "opt.step(3)", "dict.__setitem__(d, 'k0', float(d['k0']) + 0.37)", "opt.targets[0].value = opt.targets[0].value + 0.8; prob['val'][0] = float(opt.targets[0].value)",
         "dict.__setitem__(d, 'k0', float(d['k0']) - 1.2)", "opt.step(2, take_best=False)", "opt.solve()", "opt.tag('x')", "opt.reload(0)",
         "opt.reload(len(opt._log['penalty']) - 1)", "opt.reload(tag='x')", "opt.enable(vary=True)", "opt.disable(vary=[0])",
         "opt.disable(target=[0])", "opt.enable(target=True)", "opt.step(2, broyden=True)", "opt.clear_log()",
         "opt.disable(vary=[len(opt.vary) - 1])", "opt.step(1, enable_vary=[0])"]


def main():
    rac = Rac("C15")
    quick = rac.tier == "quick"
    N = 800 if quick else 6000
    rac.section("log", "generated problems x random call sequences of length 1..6 (step, solve, reload, tag, enable, disable, "
                "clear_log, per-call enable, Broyden; failing solves included); every row of the final log: independent "
                "re-evaluation reproduces penalty and targets, reload(i) restores knobs and flags and re-logs the same penalty; "
                "every normally returning step(take_best=True) ends within tolerance or on the minimum logged penalty of that call",
                f"{N} problems (seeded)", exhaustive=False)
    for n in range(N):
        if rac.out_of_time(0.85):
            break
        prob = G.rnd_problem(rac.rng, inactive=rac.rng.random() < 0.4, limits=rac.rng.random() < 0.3)
        if len(prob["k0"]) > 1 and rac.rng.random() < 0.5:
            prob["kact"][-1] = False
        calls = [rac.rng.choice(CALLS) for _ in range(rac.rng.randint(1, 6))]
        prob0 = copy.deepcopy(prob)
        try:
            opt, d, notes = play(prob, calls)
        except Exception as ex:     # noqa
            continue
        scr = PRELUDE + G.SRC + CHECK_SRC + f"prob = {prob0!r}\ncalls = {calls!r}\nopt, d, notes = play(prob, calls)\n"
        rac.case(json.dumps(prob) + str(calls), nontrivial=len(opt._log["penalty"]) > 1,
                 sample=dict(fam=prob["fam"], calls=calls, rows=len(opt._log["penalty"])))
        tb = next(((nt, take_best_violation(nt)) for nt in notes if take_best_violation(nt)), None)
        if tb is not None:
            rac.fail(f"take_best {n}", f"C15 {tb[0]['call']} returned normally outside tolerance and {tb[1]}",
                     scr + "for nt in notes:\n    assert take_best_violation(nt) is None, (nt['call'], take_best_violation(nt))\n", "Optimize.step")
            continue
        bad = check_log(prob, opt, d)
        if bad:
            kind, i, got, want = bad[0]
            rac.fail(f"log {kind} {n}", f"C15 after {calls} on a {prob['fam']} problem (weights {prob['w']}): {kind} of row {i}: {got} vs {want}",
                     scr + "bad = check_log(prob, opt, d)\nassert not bad, bad[:3]\n", "Optimize.reload")
    rac.section("crafted", "Newton overshoot on atan (every step worse than the start); row with a disabled knob whose value changed "
                "afterwards", "3 cases")
    atan = dict(fam="atan", A=[[1.0]], c=[0.0], k0=[100.0], val=[0.0], tol=[1e-9], tw=[None], lim=[None], w=[None], ms=[None], step=1e-6,
                kact=[True], tact=[True])
    two = dict(fam="linear", A=[[1.0, 0.5], [0.3, 1.0]], c=[0.0, 0.0], k0=[0.2, 0.4], val=[1.0, 2.0], tol=[1e-9, 1e-9], tw=[None, None],
               lim=[None, None], w=[None, 2.0], ms=[0.1, 0.1], step=1e-7, kact=[True, True], tact=[True, True])
    for name, prob, calls in [("atan overshoot 1 step", atan, ["opt.step(1)"]), ("atan overshoot 3 steps", atan, ["opt.step(3)"]),
                              ("disabled knob row", two, ["opt.disable(vary=[1])", "opt.step(1)", "opt.enable(vary=True)", "opt.step(3)"])]:
        try:
            opt, d, notes = play(copy.deepcopy(prob), calls)
        except Exception:     # noqa
            continue
        scr = PRELUDE + G.SRC + CHECK_SRC + f"prob = {prob!r}\ncalls = {calls!r}\nopt, d, notes = play(prob, calls)\n"
        rac.case(name, sample=name)
        tb = next(((nt, take_best_violation(nt)) for nt in notes if take_best_violation(nt)), None)
        if tb:
            rac.fail("crafted " + name, f"C15 {name}: {tb[0]['call']} {tb[1]}",
                     scr + "for nt in notes:\n    assert take_best_violation(nt) is None, (nt['call'], take_best_violation(nt))\n", "Optimize.step")
            continue
        bad = check_log(prob, opt, d)
        if bad:
            rac.fail("crafted " + name, f"C15 {name}: {bad[0]}", scr + "bad = check_log(prob, opt, d)\nassert not bad, bad[:3]\n", "Optimize.reload")
    return rac.finish()


if __name__ == "__main__":
    sys.exit(main())
