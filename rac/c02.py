"""C02 bounded stand-in: the contracts of contracts/sorting.py and the C02 clauses of
contracts/tasks.py evaluated at run time on the compiled working tree.

Section `toposort`: every digraph on <= N vertices (self-loops and cycles included) x every
start subset x every iteration order of the start set and of every adjacency list
(order-controlled iterables stand for the hash-seed dependent order of sets/dicts).
Oracle (independent of the repository code): result duplicate-free, equal as a set to the
vertices reachable from start, and for every edge u->w inside it with u != w: u before w
unless w reaches u (the edge closes a cycle).
Section `manager`: see rac/mgrgen.py -- one assignment on generated managers; the run trace
of the tasks is compared with the downstream closure computed from the tasks' own
dependency / target sets.
"""
import itertools
import sys
import os
sys.path.insert(0, os.path.dirname(os.path.dirname(os.path.abspath(__file__))))
from rac.common import Rac, PRELUDE


def reach(adj, start):
    seen, todo = set(), list(start)
    while todo:
        v = todo.pop()
        if v in seen:
            continue
        seen.add(v)
        todo += adj.get(v, [])
    return seen


def check_topo(adj, start, res):
    """-> None or a description of the violated clause"""
    if len(set(res)) != len(res):
        return "a vertex occurs twice"
    want = reach(adj, start)
    if set(res) != want:
        return f"result set {sorted(set(res))} != reachable set {sorted(want)}"
    pos = {v: k for k, v in enumerate(res)}
    for u in res:
        for w_ in adj.get(u, []):
            if w_ != u and pos[u] > pos[w_] and u not in reach(adj, [w_]):
                return f"edge {u}->{w_}: {w_} placed before {u} although no cycle"
    return None


def topo_script(adj, start):
    return PRELUDE + f'''from xdeps.sorting import toposort
adj = {adj!r}
start = {start!r}
res = toposort(adj, start)
print("toposort ->", res)
# contract (contracts/sorting.py: toposort): each reachable vertex exactly once, producers first
def reach(adj, start):
    seen, todo = set(), list(start)
    while todo:
        v = todo.pop()
        if v not in seen:
            seen.add(v); todo += adj.get(v, [])
    return seen
assert len(set(res)) == len(res), "duplicate"
assert set(res) == reach(adj, start), "wrong vertex set"
pos = {{v: k for k, v in enumerate(res)}}
for u in res:
    for w in adj.get(u, []):
        assert w == u or pos[u] < pos[w] or u in reach(adj, [w]), ("order", u, w)
print("contract holds")
'''


def run_topo(rac, nmax, full_orders):
    from xdeps.sorting import toposort
    for n in range(0, nmax + 1):
        verts = list(range(n))
        pairs = [(a, b) for a in verts for b in verts]
        for mask in range(1 << len(pairs)):
            edges = [p for k, p in enumerate(pairs) if mask >> k & 1]
            base = {v: [b for a, b in edges if a == v] for v in verts}
            base = {v: l for v, l in base.items() if l}      # missing key == no edges
            adj_orders = [base]
            if full_orders:
                keys = list(base)
                perms = [list(itertools.permutations(base[k])) for k in keys]
                adj_orders = [dict(zip(keys, map(list, combo))) for combo in itertools.product(*perms)]
            else:
                adj_orders = [base, {k: l[::-1] for k, l in base.items()}]
            for adj in adj_orders:
                for r in range(0, n + 1):
                    for sub in itertools.combinations(verts, r):
                        starts = itertools.permutations(sub) if full_orders else [sub, sub[::-1]]
                        for start in starts:
                            start = list(start)
                            try:
                                res = toposort(adj, start)
                                bad = check_topo(adj, start, res)
                            except Exception as ex:          # noqa
                                bad = f"raised {type(ex).__name__}: {ex}"
                            rac.case((tuple(sorted((k, tuple(v)) for k, v in adj.items())), tuple(start)),
                                     nontrivial=bool(start),
                                     sample=dict(adj=adj, start=start))
                            if bad:
                                rac.fail(f"toposort adj={adj} start={start}", f"toposort contract: {bad}",
                                         topo_script(adj, start), "toposort")
        if rac.out_of_time(0.5):
            break


def run_chain(rac, length):
    """long dependency chains: the update must terminate normally whatever the depth"""
    from xdeps.sorting import toposort
    adj = {k: [k + 1] for k in range(length)}
    try:
        res = toposort(adj, [0])
        bad = None if res == list(range(length + 1)) else "wrong order on a chain"
    except RecursionError as ex:
        bad = f"RecursionError on a chain of {length} vertices"
    rac.case(("chain", length), sample=dict(chain=length))
    if bad:
        rac.fail(f"toposort chain", f"toposort: {bad}",
                 PRELUDE + f"from xdeps.sorting import toposort\nn={length}\nres = toposort({{k: [k+1] for k in range(n)}}, [0])\nassert res == list(range(n+1))\nprint('ok')\n",
                 "toposort")


def main():
    rac = Rac("C02")
    quick = rac.tier == "quick"
    rac.section("toposort", "all digraphs on <=N vertices x all start subsets x iteration orders "
                "(quick: all permutations, N=3; thorough: N=4 with given/reversed orders plus N=3 all permutations); "
                "non-trivial = non-empty start", f"N={'3' if quick else '4'}", exhaustive=True)
    run_topo(rac, 3, full_orders=True)
    if not quick:
        run_topo(rac, 4, full_orders=False)
    rac.section("chains", "linear chains of 10..5000 vertices (depth independence)", "lengths 10,500,1500,5000")
    for ln in (10, 500, 1500, 5000):
        run_chain(rac, ln)
    from rac import c02_manager
    c02_manager.run(rac)
    return rac.finish()


if __name__ == "__main__":
    sys.exit(main())
