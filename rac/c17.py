"""C17 bounded stand-in: the frozen-manager contract evaluated on the real Manager.

For every history (rac/mgrgen.py) the manager is frozen, and every call of the statement's quantifier is tried
from that state, each on a fresh copy:
  graph-changing calls  -> must raise ValueError and leave definitions, index supports, data, query answers unchanged
  plain-value assignments (location without an expression, also in-place) -> must not raise, must update all
                           dependants (pull-model oracle), must leave definitions and indices unchanged
then unfreeze_tree() and a follow-up history is compared with a twin manager that was never frozen.
"""
import copy
import itertools
import os
import sys
sys.path.insert(0, os.path.dirname(os.path.dirname(os.path.abspath(__file__))))
from rac.common import Rac
from rac import mgrgen as G

SNAP_SRC = '''
import copy
def snap(m, d):
    idx = {n: {str(k): sorted(map(str, v)) for k, v in getattr(m, n).items() if len(v)}
           for n in ("rdeps", "rtasks", "deptasks", "tartasks")}
    return dict(defs=sorted(map(tuple, m.dump())), tasks=sorted(map(str, m.tasks)), idx=idx, data=copy.deepcopy(d),
                frozen=m._tree_frozen)
'''
exec(SNAP_SRC)


def queries(w):
    out = {}
    for loc in G.LOCS:
        rf = w.ref(loc)
        out[G.locstr(loc)] = (str(rf._expr), sorted(map(str, w.m.tartasks.get(rf, ()))),
                              sorted(map(str, w.m.find_deps([rf]))))
    return out


def build(hist):
    w, orc = G.World(), G.Oracle()
    for op in hist:
        if not G.legal(orc, op):
            return None, None
        orc.apply(op)
        w.apply(op)
    return w, orc


# calls that would add / replace / remove a definition, as source text over (m, r, d, xdeps)
def changing_calls(orc):
    calls = []
    defined = sorted(orc.defs)
    free = [l for l in G.LOCS if l not in orc.defs]

    def rs(loc):
        s = "r"
        for step in loc:
            s += step if isinstance(step, str) and step.startswith(".") else f"[{step!r}]"
        return s
    for loc in free[:3]:
        src = next((s for s in free if s != loc and not orc.would_cycle(loc, [s])), None)
        if src is not None:
            calls.append((f"{rs(loc)} = {rs(src)} * 3", "assign expression to " + G.locstr(loc)))
            calls.append((f"m.register(xdeps.tasks.ExprTask({rs(loc)}, {rs(src)} + 2))", "register on " + G.locstr(loc)))
            calls.append((f"m.load([({rs(loc).replace('r', 'd', 1)!r}, {(rs(src).replace('r', 'd', 1) + ' + 1')!r})])",
                          "load new definition of " + G.locstr(loc)))
    for loc in defined[:3]:
        calls.append((f"{rs(loc)} = 4.5", "replace expression of " + G.locstr(loc) + " by a value"))
        calls.append((f"m.unregister({rs(loc)})", "unregister " + G.locstr(loc)))
        calls.append((f"{rs(loc)} += 2.0", "in-place update of expression-defined " + G.locstr(loc)))
        calls.append((f"m.load([({rs(loc).replace('r', 'd', 1)!r}, '7.0 + d[\\'a\\']')], overwrite=True)"
                      if loc != ("a",) else f"m.load([({rs(loc).replace('r', 'd', 1)!r}, '7.0 + d[\\'b\\']')], overwrite=True)",
                      "load overwriting " + G.locstr(loc)))
    if defined:
        calls.append(("m.refresh()", "refresh"))
        calls.append(("m2 = xdeps.Manager(); d2 = {'a': 1.0, 'zz': 0.0}; r2 = m2.ref(d2, 'd'); r2['zz'] = r2['a'] * 2; "
                      "m.copy_expr_from(m2, 'd')", "copy_expr_from another manager"))
    return calls


def value_calls(orc):
    free = [l for l in G.LOCS if l not in orc.defs]
    out = []
    for loc in free[:4]:
        out.append((("val", loc, 6.25), "assign value to " + G.locstr(loc)))
    for loc in free[:2]:
        out.append((("iop", loc, "+=", 1.5), "in-place on value location " + G.locstr(loc)))
    # members that no task reads one by one (a task may read their container as a whole) ...
    for loc in (("l", 2), ("n", "z")):
        if loc not in orc.defs and (("val", loc, 6.25), "assign value to " + G.locstr(loc)) not in out:
            out.append((("val", loc, 6.25), "assign value to " + G.locstr(loc)))
    # ... and a whole container (it has no expression of its own) replaced by value; members that are expression-defined keep the value
    # their expression gives, so the pull-model oracle applies to every location
    for cl in G.CLOCS:
        cur = orc.value(cl)
        if isinstance(cur, dict):
            new = {k: (v if cl + (k,) in orc.defs else 0.5 + i) for i, (k, v) in enumerate(cur.items())}
        else:
            new = [(v if cl + (i,) in orc.defs else 0.5 + i) for i, v in enumerate(cur)]
        out.append((("val", cl, new), "assign a plain value to the whole container " + G.locstr(cl)))
    return out


def script(hist, body):
    return G.history_script(hist, SNAP_SRC + body)


def run_one(rac, hist):
    w, orc = build(hist)
    if w is None:
        return False
    hs = "; ".join(G.opstr(o) for o in hist)
    nt = bool(orc.defs)
    # -- graph-changing calls
    for src, what in changing_calls(orc):
        w, orc = build(hist)
        w.m.freeze_tree()
        s0, q0 = snap(w.m, w.data), queries(w)
        env = dict(m=w.m, r=w.r, d=w.data, xdeps=w.xdeps)
        raised = None
        try:
            exec(src, env)
        except ValueError:
            raised = "ValueError"
        except Exception as ex:          # noqa
            raised = type(ex).__name__ + ": " + str(ex)
        s1, q1 = snap(w.m, w.data), queries(w)
        key = f"frozen [{hs}] then {what}"
        body = f"m.freeze_tree()\ns0 = snap(m, d)\ntry:\n    {src}\n    raise SystemExit('no ValueError raised')\nexcept ValueError:\n    pass\ns1 = snap(m, d)\nassert s0 == s1, [(k, s0[k], s1[k]) for k in s0 if s0[k] != s1[k]]\n"
        if raised != "ValueError":
            rac.fail(key, f"C17 {key}: expected ValueError, got {raised or 'normal return'}", script(hist, body),
                     "Manager.set_value")
        elif s0 != s1 or q0 != q1:
            diff = [k for k in s0 if s0[k] != s1[k]] or ["query answers"]
            rac.fail(key, f"C17 {key}: raised ValueError but changed {diff}", script(hist, body), "Manager.refresh")
        rac.case((tuple(hist), src), nontrivial=True, sample=dict(history=hs, call=what))
    # -- plain values still propagate
    for op, what in value_calls(orc):
        w, orc = build(hist)
        w.m.freeze_tree()
        s0 = snap(w.m, w.data)
        key = f"frozen [{hs}] then {what}"
        body = f"m.freeze_tree()\n" + G.history_script([op]).split("m = xdeps.Manager(); r = m.ref(d, 'd')\n")[1]
        try:
            w.apply(op)
            orc.apply(op)
        except Exception as ex:      # noqa
            rac.fail(key, f"C17 {key}: raised {type(ex).__name__}: {ex}", script(hist, body), "Manager.set_value")
            continue
        s1 = snap(w.m, w.data)
        exp, act = orc.expected(), w.actual()
        bad = [(G.locstr(l), act[l], exp[l]) for l in G.LOCS if not G.close(exp[l], act[l])]
        if bad and not (orc.sibling_feed() or w.k1_seen or G.declared_cycle(w.m)):
            rac.fail(key, f"C17 {key}: dependants not updated: {bad[:3]}", script(hist, body), "Manager.set_value")
        if any(s0[k] != s1[k] for k in ("defs", "tasks", "idx", "frozen")):
            rac.fail(key, f"C17 {key}: definitions/indices changed by a plain assignment", script(hist, body),
                     "Manager.set_value")
        rac.case((tuple(hist), op), nontrivial=nt, sample=dict(history=hs, call=what))
    # -- unfreeze: as if never frozen
    w, orc = build(hist)
    twin, _ = build(hist)
    w.m.freeze_tree()
    for attempt in (lambda: w.r.__setitem__("zz_new", w.r["a"] * 2), lambda: w.m.unregister(w.r["b"]),
                    lambda: w.m.refresh()):
        try:
            attempt()
        except Exception:       # noqa  (what each must raise is checked above; here only the after-effects matter)
            pass
    # plain-value assignments made WHILE frozen (same ones on the never-frozen twin) ...
    fo = G.Oracle()
    for op in hist:
        fo.apply(op)
    key = f"unfreeze [{hs}]"
    free = [l for l in G.LOCS if l not in orc.defs]
    during = [("val", loc, 2.75 + i) for i, loc in enumerate(free[:3])]
    applied = []
    for op in during:
        if not G.legal(fo, op):
            continue
        fo.apply(op)
        applied.append(op)
        try:
            w.apply(op)
            twin.apply(op)
        except Exception:       # noqa (checked above)
            pass
    w.m.unfreeze_tree()
    # ... then, unfrozen: definitions removed by plain values, the same inputs assigned again, new definitions
    #     and a SECOND frozen period (only on the manager under test) in which the same inputs are assigned once more
    follow = [("val", loc, 9.5) for loc in sorted(orc.defs)[:2]] + [("freeze",)] + [("val", loc, -1.25 - i) for i, loc in enumerate(free[:3])] + [("unfreeze",)]
    follow += [("val", loc, 0.75 + i) for i, loc in enumerate(free[:3])]
    follow += [("expr", ("c",), "sum", (("a",), ("b",))), ("val", ("a",), -3.5), ("unreg", ("c",)), ("val", ("b",), 8.0)]
    done = []

    def twin_script():
        def tail(ops):
            out = ""
            for o in ops:
                if o[0] == "freeze":
                    out += "if frozen_run: m.freeze_tree()\n"
                elif o[0] == "unfreeze":
                    out += "if frozen_run: m.unfreeze_tree()\n"
                else:
                    out += G.history_script([o]).split("r = m.ref(d, 'd')\n")[1]
            return out
        return (SNAP_SRC + f"SRC_HIST = {G.history_script(hist)!r}\nSRC_DURING = {tail([o for o in during if o in applied])!r}\n"
                f"SRC_FOLLOW = {tail(done)!r}\n"
                "def run(frozen):\n    env = {'frozen_run': frozen}\n    exec(SRC_HIST, env)\n    m, r = env['m'], env['r']\n    if frozen:\n        m.freeze_tree()\n"
                "        for att in (lambda: r.__setitem__('zz_new', r['a'] * 2), lambda: m.unregister(r['b']), lambda: m.refresh()):\n"
                "            try:\n                att()\n            except Exception:\n                pass\n"
                "    exec(SRC_DURING, env)\n    if frozen:\n        m.unfreeze_tree()\n    exec(SRC_FOLLOW, env)\n    if m._tree_frozen:\n        m.unfreeze_tree()\n    return snap(m, env['d'])\n"
                "a, b = run(True), run(False)\nassert a == b, [(k, a[k], b[k]) for k in a if a[k] != b[k]]\n")
    refrozen = False
    for op in follow:
        if op[0] in ("freeze", "unfreeze"):
            done.append(op)
            (w.m.freeze_tree if op[0] == "freeze" else w.m.unfreeze_tree)()
            refrozen = op[0] == "freeze"
            continue
        if not G.legal(fo, op):
            continue
        if refrozen and op[1] in fo.defs:
            continue            # (only plain-value locations are assigned while frozen)
        fo.apply(op)
        done.append(op)
        try:
            w.apply(op)
            twin.apply(op)
        except Exception as ex:       # noqa
            rac.fail(key, f"C17 {key}: follow-up {G.opstr(op)} raised {type(ex).__name__}: {ex}",
                     script(hist, "m.freeze_tree(); m.unfreeze_tree()\n" + G.history_script([op]).split("r = m.ref(d, 'd')\n")[1]),
                     "Manager.unfreeze_tree")
            break
        sa, sb = snap(w.m, w.data), snap(twin.m, twin.data)
        if refrozen:
            sa.pop("frozen"), sb.pop("frozen")
        if sa != sb:
            rac.fail(key, f"C17 {key}: after plain assignments while frozen ({'; '.join(G.opstr(o) for o in during)}) and unfreeze, "
                     f"{G.opstr(op)} behaves differently from a never-frozen twin", twin_script(), "Manager.unfreeze_tree")
            break
    rac.case((tuple(hist), "unfreeze"), nontrivial=nt, sample=dict(history=hs, call="freeze/unfreeze/follow-up"))
    return True


def main():
    rac = Rac("C17")
    quick = rac.tier == "quick"
    alpha = G.op_alphabet(small=True)
    L = 2 if quick else 3
    rac.section("frozen", f"every history of length <= {L} over {len(alpha)} operations; frozen afterwards; every "
                "graph-changing call (assign expression, replace/remove definition, register, unregister, load, "
                "copy_expr_from, refresh, in-place on a defined location) must raise ValueError with definitions, index "
                "supports, data and query answers unchanged; plain-value assignments must propagate (pull-model "
                "oracle) and leave the graph unchanged; after unfreeze a follow-up history equals a never-frozen twin",
                f"length<={L}, |alphabet|={len(alpha)}")
    for n in range(0, L + 1):
        for hist in itertools.product(alpha, repeat=n):
            if n > 1 and rac.out_of_time(0.7):
                rac.sections["frozen"]["exhaustive"] = False
                rac.exhaustive = False
                break
            run_one(rac, list(hist))
    calpha = list(G.CONTAINER_OPS) + [("expr", ("n", "x"), "dbl", (("a",),)), ("expr", ("l", 0), "rsub", (("b",),)), ("val", ("a",), 5.0)]
    LC = 2 if quick else 3
    rac.section("frozen-containers", f"the same checks on every history of length <= {LC} over {len(calpha)} operations around containers read as a whole "
                "(f.tot(d['n']), f.tot(d['l']) through a function reference; members defined by expressions; containers replaced by value): while frozen, "
                "plain values are assigned to members nobody reads one by one and to the whole containers (which have no expression of their own, also "
                "when one of their members has) -- accepted, dependants updated, definitions unchanged", f"length<={LC}, |alphabet|={len(calpha)}")
    for n in range(1, LC + 1):
        for hist in itertools.product(calpha, repeat=n):
            if n > 1 and rac.out_of_time(0.8):
                rac.sections["frozen-containers"]["exhaustive"] = False
                rac.exhaustive = False
                break
            run_one(rac, list(hist))
    rac.section("freeze-sequences", "every sequence of <= 4 freeze_tree / unfreeze_tree calls (balanced or not) on a manager with one definition: "
                "the manager is frozen exactly when the LAST call was freeze_tree -- graph-changing calls raise ValueError then and succeed "
                "otherwise; plain-value assignments propagate in both cases", "30 sequences")
    for n in range(1, 5):
        for seq in itertools.product(("freeze", "unfreeze"), repeat=n):
            src = ["import xdeps", "d = {'a': 1.0, 'b': 0.0, 'zz': 0.0}", "m = xdeps.Manager(); r = m.ref(d, 'd')", "r['b'] = r['a'] * 2"] + \
                  [f"m.{c}_tree()" for c in seq]
            want_frozen = seq[-1] == "freeze"
            tail = ["r['a'] = 5.0", "assert d['b'] == 10.0, d",
                    "try:\n    r['zz'] = r['a'] + 1\n    changed = True\nexcept ValueError:\n    changed = False",
                    f"assert changed == {not want_frozen}, ('graph change accepted', changed, 'frozen flag', m._tree_frozen)",
                    f"assert bool(m._tree_frozen) == {want_frozen}"]
            key = "freeze-sequence " + " ".join(seq)
            scr = "\n".join(src + tail) + "\n"
            rac.case(key, sample=dict(sequence=list(seq), expect_frozen=want_frozen))
            env = {}
            try:
                exec("\n".join(src + tail[:3]), env)
            except Exception as ex:      # noqa
                rac.fail(key, f"C17 {' '.join(seq)}: raised {type(ex).__name__}: {ex}", scr, "Manager.freeze_tree")
                continue
            if env["changed"] != (not want_frozen) or bool(env["m"]._tree_frozen) != want_frozen:
                rac.fail(key, f"C17 after {' , '.join(seq)}: a new definition is {'accepted' if env['changed'] else 'refused'} "
                         f"(frozen flag {env['m']._tree_frozen!r}); the last call was {seq[-1]}_tree", scr, "Manager.unfreeze_tree")
    from rac import eqvals
    eqvals.run(rac, "C17", frozen=True)
    rac.section("random", "random histories of length 4..10, same checks", "40 quick / 600 thorough", exhaustive=False)
    for _ in range(40 if quick else 600):
        if rac.out_of_time(0.95):
            break
        run_one(rac, G.random_history(rac.rng, rac.rng.randint(4, 10), containers=bool(_ % 2)))
    return rac.finish()


if __name__ == "__main__":
    sys.exit(main())
