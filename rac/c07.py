"""C07 bounded stand-in: row designators resolve against the CURRENT index column (linear-scan oracle).

Oracle (from the statement): occurrences of `name` in the current index column, the count-th of them (None -> 0,
negative from the last), shifted by the offset; KeyError when there is no such occurrence.
Checked entry points: table[col, row] (read and write), table.rows.get_index(row), table // row, and
cols.get_index_unique() labels resolving to their own row -- on fresh tables and after every sequence of API updates
(whole index column, single cells of it by position / name / tuple / list / slice, attribute style, new column,
deleted column, _append_row, _concatenate_table), with the lookup cache warmed before each update.
"""
import itertools
import os
import sys
sys.path.insert(0, os.path.dirname(os.path.dirname(os.path.abspath(__file__))))
from rac.common import Rac, PRELUDE

ORACLE_SRC = '''
import numpy as np
import xdeps
def mk(col, base=0):
    n = len(col)
    alt = [("abc"[("abc".index(x) + 1) % 3] if x in "abc" else x + "'") for x in col]      # a second name column (a permutation of the names)
    return xdeps.Table({"name": np.array(list(col), dtype=object), "v": np.arange(n, dtype=float) + base, "w": np.arange(n) * 10,
                        "alt": np.array(alt, dtype=object)})
def resolve(col, name, count, offset):
    occ = [i for i, x in enumerate(col) if x == name]
    c = 0 if count is None else count
    if c < 0:
        c += len(occ)
    if not 0 <= c < len(occ):
        raise KeyError(name)
    return occ[c] + (offset or 0)
def designators(name, count, offset):
    """all spellings of (name, count, offset)"""
    out = []
    off = "" if not offset else ("<<%d" % -offset if offset < 0 else ">>%d" % offset)
    if count is None:
        out.append(name + off)
    else:
        out.append("%s::%d%s" % (name, count, off))
        if not offset:
            out.append((name, count))
        out.append((name, count, offset or 0))
    return out
def check_all(t, names, counts, offsets, hows=("get_index", "floordiv", "getitem", "setitem")):
    """compare every entry point with the oracle on the table's current index column; -> list of mismatches"""
    col = list(t[t._index])          # the CURRENT index column
    n = len(col)
    bad = []
    # the labels FIRST (before any lookup of this check rebuilds whatever the table keeps): they must be the labels of the current column
    try:
        first_labels = list(t.cols.get_index_unique())
        for i, lb in enumerate(first_labels):
            nm = str(lb).split("::")[0]
            if nm != str(col[i]) or (col.count(col[i]) > 1) != ("::" in str(lb)):
                bad.append(("get_index_unique (first call after the update)", lb, "label of row %d" % i, str(col[i])))
                break
        if len(first_labels) != n:
            bad.append(("get_index_unique (first call after the update)", "number of labels", len(first_labels), n))
    except Exception as ex:
        bad.append(("get_index_unique (first call after the update)", "raised", type(ex).__name__, None))
    for name in names:
        for count in counts:
            for offset in offsets:
                try:
                    want = resolve(col, name, count, offset)
                except KeyError:
                    want = KeyError
                for des in designators(name, count, offset):
                    for how in hows:
                        if how in ("getitem", "setitem") and want is not KeyError and not 0 <= want < n:
                            continue
                        try:
                            if how == "get_index":
                                got = t.rows.get_index(des)
                            elif how == "floordiv":
                                got = t // des
                            elif how == "setitem":
                                c = xdeps.Table({k: np.array(t[k]) for k in t._col_names}, index=t._index)
                                c._get_cache()
                                c["v", des] = -99.5
                                changed = [i for i in range(n) if c["v"][i] != t["v"][i]]
                                got = want if changed == [want] else ("cells written", changed)
                            else:
                                got = t["v", des]
                                got = want if got == t["v"][want] else ("cell value", got)
                        except KeyError:
                            got = KeyError
                        except Exception as ex:
                            got = type(ex).__name__ + ": " + str(ex)
                        if got is not want and got != want:
                            bad.append((how, des, got, "KeyError" if want is KeyError else want))
    labels = list(t.cols.get_index_unique())
    for i, lb in enumerate(labels):
        try:
            got = t.rows.get_index(lb)
        except Exception as ex:
            got = type(ex).__name__
        if got != i:
            bad.append(("get_index_unique", lb, got, i))
    if len(set(labels)) != len(labels):
        bad.append(("get_index_unique", "labels not unique", labels, None))
    return bad
'''
exec(ORACLE_SRC)

NAMES = ("a", "b", "c")


# mutations: (label, source using t; may raise -> mutation skipped)
def mutations(n):
    M = [("replace index column", "t['name'] = np.array((list('cab') * 9)[:len(t)], dtype=object)"),
         ("replace index column (attribute style)", "t.name = np.array((list('bbc') * 9)[:len(t)], dtype=object)"),
         ("add column", "t['z'] = np.arange(len(t)) * 2.0"), ("delete column", "del t['w']"),
         ("re-point the index to another column", "t._index = 'alt'"), ("re-point the index (item style)", "t['_index'] = 'alt' if t._index == 'name' else 'name'"),
         ("value cell by name", "t['v', t['name'][0]] = -7.0"),
         ("append row", "t._append_row({'name': 'b', 'v': 1000.0 + len(t), 'w': 10 * len(t), 'z': 0.0, 'alt': 'c'})"),
         ("concatenate", "t._concatenate_table(mk('ca', 100) if 'w' in t and 'z' not in t else 1 / 0)")]
    for i in range(n):
        for new in ("a", "c", "zz"):
            M.append((f"index cell {i} by position", f"t['name', {i}] = {new!r}"))
    for i in range(-1, 0):
        M.append((f"index cell {i} by position", f"t['name', {i}] = 'b'"))
    for name in NAMES:
        M.append((f"index cell by name {name}", f"t['name', {name!r}] = 'c'"))
        M.append((f"index cell by name {name}::1", f"t['name', '{name}::1'] = 'a'"))
        M.append((f"index cell by tuple ({name},-1)", f"t['name', ({name!r}, -1)] = 'zz'"))
        M.append((f"index cell by tuple ({name},0,1)", f"t['name', ({name!r}, 0, 1)] = 'b'"))
        M.append((f"value cell by tuple ({name},0,1)", f"t['v', ({name!r}, 0, 1)] = -5.0"))
    if n >= 2:
        M.append(("index cells by list", "t['name', [0, 1]] = [t['name'][0], 'zz']"))
        M.append(("index cells by list (both new)", "t['name', [0, 1]] = ['c', 'c']"))
        M.append(("index cells by slice", "t['name', 0:2] = ['b', t['name'][1]]"))
    return M


def main():
    rac = Rac("C07")
    quick = rac.tier == "quick"
    counts = (None, -3, -2, -1, 0, 1, 2, 3)
    offsets = (None, -1, 1, 2)
    maxlen = 4 if quick else 5
    rac.section("fresh", f"every index column over {NAMES} of length 0..{maxlen} x names (incl. an absent one) x counts "
                f"{counts} x offsets {offsets} x all spellings (string, 2-tuple, 3-tuple) x get_index / // / table[col,row]; "
                "unique labels resolve to their own row; non-trivial = a repeated name", f"length<={maxlen}")
    for n in range(0, maxlen + 1):
        for col in itertools.product(NAMES, repeat=n):
            t = mk(col)
            bad = check_all(t, NAMES + ("zz",), counts, offsets)
            rac.case(col, nontrivial=len(set(col)) < len(col), sample="".join(col))
            if bad:
                how, des, got, want = bad[0]
                rac.fail(f"fresh {''.join(col)} {how} {des!r}", f"C07 index column {list(col)}: {how}({des!r}) gives {got!r}, a scan of the column gives {want!r}"
                         f" ({len(bad)} mismatches)", PRELUDE + ORACLE_SRC + f"t = mk({''.join(col)!r})\nbad = check_all(t, {NAMES + ('zz',)!r}, {counts!r}, {offsets!r})\nassert not bad, bad[:5]\n",
                         "Table._get_row_cache")
    mlen = 3 if quick else 4
    depth = 2
    rac.section("updates", f"every index column of length 1..{mlen} x every sequence of <= {depth} API updates (the lookup cache "
                "is warmed by a lookup before each update); afterwards every designator is compared with a scan of the "
                "current column; non-trivial = the index column changed", f"length<={mlen}, updates<={depth}")
    for n in range(1, mlen + 1):
        muts = mutations(n)
        for col in itertools.product(NAMES, repeat=n):
            for k in range(1, depth + 1):
                for seq in itertools.product(muts, repeat=k):
                    if k > 1 and rac.out_of_time(0.85):
                        rac.sections["updates"]["exhaustive"] = False
                        rac.exhaustive = False
                        break
                    t = mk(col)
                    done = []
                    env = dict(t=t, np=__import__("numpy"), mk=mk)
                    for label, src in seq:
                        try:
                            t.rows.get_index(t[t._index][0])      # warm the cache
                            t._get_cache()
                        except Exception:       # noqa
                            pass
                        try:
                            t.cols.get_index_unique()             # ... and whatever the labels are computed from / kept in
                            t.show(output=str)
                        except Exception:       # noqa
                            pass
                        snap = (list(t["name"]), list(t._col_names), t._index)
                        try:
                            exec(src, env)
                            done.append(src)
                        except Exception:       # noqa  (update not applicable to this table: e.g. name absent)
                            if (list(t["name"]), list(t._col_names), t._index) != snap:
                                done = None        # failed half-way: not a sequence of (successful) API updates
                                break
                    if not done:
                        continue
                    newcol = list(t[t._index])
                    bad = check_all(t, tuple(sorted(set(newcol) | set(NAMES))) + ("zz",), (None, -2, -1, 0, 1, 2), (None, -1, 1),
                                    hows=("get_index", "getitem"))
                    rac.case((col, tuple(done)), nontrivial=newcol != list(col), sample=dict(column="".join(col), updates=done))
                    if bad:
                        how, des, got, want = bad[0]
                        body = f"t = mk({''.join(col)!r})\n" + "".join(
                            f"try:\n    t.rows.get_index(t[t._index][0]); t._get_cache()\nexcept Exception: pass\n{s}\n" for s in done)
                        rac.fail(f"updates {''.join(col)} {done}", f"C07 column {list(col)} after {done}: {how}({des!r}) gives {got!r}, a scan of the "
                                 f"current column {newcol} gives {want!r}", PRELUDE + ORACLE_SRC + body +
                                 "names = tuple(sorted(set(t[t._index]) | {'a', 'b', 'c'})) + ('zz',)\nbad = check_all(t, names, (None, -2, -1, 0, 1, 2), (None, -1, 1))\nassert not bad, bad[:5]\n",
                                 "Table.__setitem__")
    rac.section("fixed-width-index", "tables built with cast_strings=False: the index column keeps numpy's fixed-width string type (as wide as the longest "
                "name), names of different lengths with repeats; every designator and every unique label ('q::2' is longer than 'q') resolves as on "
                "an object-typed column, on the fresh table and after a cell of the index column was renamed through the table API",
                "every column of length 1..4 over 3 names of different length, 2 renames")
    FW = ("q", "d1", "bpm")
    import numpy as np
    for n in range(1, 5):
        for col in itertools.product(FW, repeat=n):
            for upd in (None, "t['name', 0] = 'q'", "t['name', len(t) - 1] = 'd1'"):
                if rac.out_of_time(0.9):
                    break
                t = xdeps.Table({"name": np.array(list(col)), "v": np.arange(n, dtype=float), "w": np.arange(n) * 10}, cast_strings=False)
                if upd:
                    t.rows.get_index(col[0])          # (warm the cache)
                    exec(upd, dict(t=t))
                bad = check_all(t, FW + ("zz",), (None, -2, -1, 0, 1, 2), (None, -1, 1))
                rac.case(("fixed-width", col, upd), nontrivial=len(set(col)) < len(col), sample=dict(column=list(col), update=upd))
                if bad:
                    how, des, got, want = bad[0]
                    rac.fail(f"fixed-width {col} {upd} {how} {des!r}", f"C07 fixed-width index column {list(col)}" + (f" after {upd}" if upd else "") +
                             f": {how}({des!r}) gives {got!r}, a scan of the column gives {want!r} ({len(bad)} mismatches)",
                             PRELUDE + ORACLE_SRC + f"t = xdeps.Table({{'name': np.array({list(col)!r}), 'v': np.arange({n}, dtype=float), 'w': np.arange({n}) * 10}}, cast_strings=False)\n"
                             + (f"t.rows.get_index({col[0]!r}); {upd}\n" if upd else "") +
                             f"bad = check_all(t, {FW + ('zz',)!r}, (None, -2, -1, 0, 1, 2), (None, -1, 1))\nassert not bad, bad[:5]\n", "Table._make_cache")
    rac.section("names", "longer / mixed-case / digit-bearing / separator-free unicode names, random columns of length 6..40, random "
                "update sequences of length 3..6", "60 quick / 1500 thorough", exhaustive=False)
    pool = ["ip1", "ip2", "mq.1", "MQ.1", "d_r", "e-x", "αβ", "n10", "n1", "x y"]
    import numpy as np
    for _ in range(60 if quick else 1500):
        if rac.out_of_time(0.97):
            break
        n = rac.rng.randint(6, 40)
        col = [rac.rng.choice(pool) for _ in range(n)]
        t = xdeps.Table({"name": np.array(col, dtype=object), "v": np.arange(n, dtype=float), "w": np.arange(n) * 10})
        done = []
        for _k in range(rac.rng.randint(0, 6)):
            i = rac.rng.randrange(len(t))
            nm = rac.rng.choice(pool)
            src = rac.rng.choice([f"t['name', {i}] = {nm!r}", f"t['name', {nm!r}] = {rac.rng.choice(pool)!r}",
                                  f"t['name', ({nm!r}, -1)] = {rac.rng.choice(pool)!r}",
                                  f"t._append_row({{'name': {nm!r}, 'v': 1000.0 + len(t), 'w': 0}})",
                                  f"t['name', [{i}, {rac.rng.randrange(len(t))}]] = [{nm!r}, {rac.rng.choice(pool)!r}]"])
            try:
                t._get_cache()
                exec(src, dict(t=t))
                done.append(src)
            except Exception:      # noqa
                pass
        cur = list(t["name"])
        bad = check_all(t, tuple(pool) + ("zz",), (None, -2, -1, 0, 1, 3), (None, -2, 1))
        rac.case((tuple(col), tuple(done)), sample=dict(n=n, updates=done))
        if bad:
            how, des, got, want = bad[0]
            rac.fail(f"names {col} {done}", f"C07 column {col} after {done}: {how}({des!r}) gives {got!r}, scan gives {want!r}",
                     PRELUDE + ORACLE_SRC + f"t = xdeps.Table({{'name': np.array({col!r}, dtype=object), 'v': np.arange({n}, dtype=float), 'w': np.arange({n}) * 10}})\n" +
                     "".join(f"t._get_cache()\n{s}\n" for s in done) + f"bad = check_all(t, {tuple(pool) + ('zz',)!r}, (None, -2, -1, 0, 1, 3), (None, -2, 1))\nassert not bad, bad[:5]\n",
                     "Table.__setitem__")
    return rac.finish()


if __name__ == "__main__":
    sys.exit(main())
