"""Generated matching problems for the optimizer properties (C09, C10, C15, C16) + independent evaluators.

A problem is a plain dict (JSON-able, so a replay script can rebuild it):
  fam     : 'linear' | 'quad' | 'trig' | 'atan'
  A, c    : matrix / offsets of the family:  y = F(A @ k + c)   (F = id, square, sin, atan element-wise)
  k0      : start knobs; val: target values; tol: tolerances; tw: target weights (None = default)
  lim     : per-knob [lo, hi] or None; w: knob weights (None = default); ms: per-knob max_step or None; step: fd steps
  kact / tact : initial active flags
Nothing here looks at the optimizer's internals: `residual(prob, knobs)` re-evaluates the user function from the
raw container values.
"""
import math

SRC = '''
import math
import numpy as np
import xdeps
from xdeps.optimize.optimize import Optimize, Vary, Target, Action

class CallDeadline(Exception):
    pass

class deadline:
    """a library call that normally takes milliseconds is interrupted after `seconds` of wall time (SIGALRM) instead of hanging the harness"""
    def __init__(self, seconds=120):
        self.seconds = seconds
    def __enter__(self):
        import signal
        def onalarm(signum, frame):
            raise CallDeadline("the call did not return within %s s" % self.seconds)
        self._old = signal.signal(signal.SIGALRM, onalarm)
        signal.setitimer(signal.ITIMER_REAL, self.seconds)
        return self
    def __exit__(self, *exc):
        import signal
        signal.setitimer(signal.ITIMER_REAL, 0)
        signal.signal(signal.SIGALRM, self._old)
        return False

def _sqrt(z):
    with np.errstate(invalid="ignore"):
        return np.sqrt(z)          # NaN for a negative argument

FAM = {"linear": lambda z: z, "quad": lambda z: z * z + z, "trig": np.sin, "atan": np.arctan, "exp": np.exp, "sqrt": _sqrt}

class LogDict(dict):
    """container recording every store (knob write trace)"""
    def __init__(self, *a):
        super().__init__(*a); self.writes = []
    def __setitem__(self, k, v):
        self.writes.append((k, float(v))); super().__setitem__(k, v)

class ProbAction(Action):
    def __init__(self, prob, d):
        self.prob, self.d, self.calls, self.fail_at = prob, d, 0, None
    def run(self):
        self.calls += 1
        if self.fail_at is not None and self.calls >= self.fail_at:
            raise RuntimeError("user action failed")
        return {"y": user(self.prob, [self.d["k%d" % i] for i in range(len(self.prob["k0"]))])}

def user(prob, knobs):
    z = np.array(prob["A"], dtype=float) @ np.array(knobs, dtype=float) + np.array(prob["c"], dtype=float)
    return FAM[prob["fam"]](z)

def build(prob, **optkw):
    d = LogDict({"k%d" % i: float(v) for i, v in enumerate(prob["k0"])})
    act = ProbAction(prob, d)
    nk, nt = len(prob["k0"]), len(prob["val"])
    vary = [Vary("k%d" % i, d, limits=prob["lim"][i], weight=prob["w"][i], max_step=prob["ms"][i], step=prob["step"],
                 active=prob["kact"][i]) for i in range(nk)]
    olog = prob.get("olog") or [False] * nt          # optimize_log targets (positive observed and target values: family 'exp')
    targets = [act.target((lambda i: (lambda res: res["y"][i]))(i), prob["val"][i], tol=prob["tol"][i], weight=prob["tw"][i],
                          **({"optimize_log": True} if olog[i] else {}))
               for i in range(nt)]
    opt = Optimize(vary=vary, targets=targets, show_call_counter=False, **optkw)
    for i in range(nt):
        opt.targets[i].active = prob["tact"][i]
    d.writes.clear()
    return opt, d, act

def knobs_of(d, prob):
    return [float(d["k%d" % i]) for i in range(len(prob["k0"]))]

def residual(prob, knobs):
    return np.array(user(prob, knobs)) - np.array(prob["val"], dtype=float)

def penalty(prob, knobs, tact):
    r = residual(prob, knobs)
    tw = np.array([1.0 if w is None else w for w in prob["tw"]])
    r = np.where(np.array(tact, dtype=bool), r * tw, 0.0)
    return float(np.sqrt(np.sum(r * r)))

def within_tol(prob, knobs, tact):
    r = np.abs(residual(prob, knobs))
    return [bool((not a) or x < t) for x, t, a in zip(r, prob["tol"], tact)]
'''
exec(SRC)


def rnd_problem(rng, nk=None, nt=None, fam=None, limits=None, weights=None, max_step=None, inactive=False):
    nk = nk or rng.randint(1, 3)
    nt = nt or rng.randint(1, 4)
    fam = fam or rng.choice(["linear", "linear", "quad", "trig", "atan"])
    A = [[round(rng.uniform(-2, 2), 2) for _ in range(nk)] for _ in range(nt)]
    if rng.random() < 0.15 and nt > 1:
        A[1] = [2 * x for x in A[0]]                  # rank deficient
    c = [round(rng.uniform(-1, 1), 2) for _ in range(nt)]
    k0 = [round(rng.uniform(-1, 1), 2) for _ in range(nk)]
    sol = [round(rng.uniform(-1, 1), 2) for _ in range(nk)]
    prob = dict(fam=fam, A=A, c=c, k0=k0)
    consistent = rng.random() < 0.7
    val = [float(v) for v in user(dict(prob), sol)]
    if not consistent:
        val = [v + rng.uniform(0.5, 2) for v in val]
    limits = rng.random() < 0.5 if limits is None else limits
    lim = []
    for i in range(nk):
        if limits and rng.random() < 0.8:
            lo = min(k0[i], sol[i] if rng.random() < 0.6 else k0[i]) - rng.choice([0.0, 0.05, 0.5, 2.0])
            hi = max(k0[i], sol[i] if rng.random() < 0.6 else k0[i]) + rng.choice([0.0, 0.05, 0.5, 2.0])
            lim.append([round(lo, 3), round(hi, 3)] if hi > lo else [k0[i] - 1.0, k0[i] + 1.0])
        else:
            lim.append(None)
    weights = rng.random() < 0.4 if weights is None else weights
    w = [rng.choice([2.0, 0.5, 10.0, 0.1]) if weights and rng.random() < 0.7 else None for _ in range(nk)]
    max_step = rng.random() < 0.4 if max_step is None else max_step
    ms = [rng.choice([0.05, 0.2, 1.0]) if max_step and rng.random() < 0.8 else None for _ in range(nk)]
    kact = [not (inactive and nk > 1 and i == nk - 1 and rng.random() < 0.7) for i in range(nk)]
    tact = [not (inactive and nt > 1 and i == nt - 1 and rng.random() < 0.5) for i in range(nt)]
    prob.update(val=val, tol=[rng.choice([1e-6, 1e-9, 1e-3]) for _ in range(nt)], tw=[rng.choice([None, None, 2.0, 0.3]) for _ in range(nt)],
                lim=lim, w=w, ms=ms, step=1e-7, kact=kact, tact=tact)
    return prob
