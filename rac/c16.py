"""C16 bounded stand-in: Newton step = truncated least squares; scalings and Jacobians consistent.

  lstsq    : SVD(M).lstsq(b, rcond, sing_val_cutoff) equals the minimum-norm least-squares solution restricted to the kept
             singular values (reference: numpy pinv with the same relative cut-off / explicit truncation), all shapes 1..5 x 1..5,
             rank-deficient, badly scaled matrices, rcond and cutoff grids;
  one step : consistent well-conditioned linear problems inside wide limits are solved by the first Jacobian step (with and
             without Broyden, unit and non-unit weights) and solve() succeeds;
  scalings : _x_to_knobs / _knobs_to_x and _scaled_to_native / _scaled_from_native are inverse to each other in both directions;
  jacobians: view.get_jacobian(x) agrees with central finite differences of view(x) for native, rescaled and scalar views.
"""
import itertools
import json
import os
import sys
sys.path.insert(0, os.path.dirname(os.path.dirname(os.path.abspath(__file__))))
from rac.common import Rac, PRELUDE, deadline, DEADLINE_SRC
from rac import optgen as G

SRC = '''
from xdeps.optimize.matrixutils import SVD
def ref_lstsq(M, b, rcond, cutoff):
    U, s, Vh = np.linalg.svd(M, full_matrices=False)
    k = len(s) if cutoff is None else min(cutoff, len(s))
    keep = np.array([(i < k) and s[i] > 0 and not (rcond is not None and s[i] < rcond * s[0]) for i in range(len(s))])
    sinv = np.where(keep, 1.0 / np.where(s > 0, s, 1.0), 0.0)
    return Vh.T @ (sinv * (U.T @ b))
def fd_jac(f, x, h):
    x = np.array(x, dtype=float)
    f0 = np.atleast_1d(f(x))
    J = np.zeros((len(f0), len(x)))
    for i in range(len(x)):
        xp, xm = x.copy(), x.copy()
        xp[i] += h; xm[i] -= h
        J[:, i] = (np.atleast_1d(f(xp)) - np.atleast_1d(f(xm))) / (2 * h)
    return J
'''
exec(G.SRC + SRC)


def main():
    rac = Rac("C16")
    quick = rac.tier == "quick"
    import numpy as np
    rng = np.random.default_rng(rac.args.seed)
    rac.section("lstsq", "matrices of every shape 1..5 x 1..5: random, rank-deficient, rows/columns scaled by 1e-6..1e6, with "
                "prescribed singular values; rcond in {None(default 1e-14), 1e-12, 1e-5, 1e-2, 0.5}, sing_val_cutoff in {None, 1, 2}; "
                "SVD.lstsq vs the reference truncated pseudo-inverse; also residual orthogonality and minimum norm for full-rank "
                "kept spectra", "25 shapes x 8 constructions (incl. the whole matrix in tiny / huge units) x 15 settings")
    for (m, n) in itertools.product(range(1, 6), repeat=2):
        for kind in ("rand", "rankdef", "scaled", "spectrum-big", "spectrum-small", "zero-col", "tiny-units", "huge-units"):
            M = rng.normal(size=(m, n))
            if kind == "rankdef" and min(m, n) > 1:
                M[-1] = 2 * M[0] if m > 1 else M[-1]
                if n > 1:
                    M[:, -1] = M[:, 0]
            elif kind == "scaled":
                M = M * (10.0 ** rng.integers(-6, 7, size=(1, n)))
            elif kind.startswith("spectrum"):
                U, _, Vh = np.linalg.svd(M, full_matrices=False)
                sv = np.array([1e3, 2.0, 1e-4, 1e-7, 1e-9][:min(m, n)]) * (1.0 if kind == "spectrum-big" else 1e-6)
                M = U @ np.diag(sv) @ Vh
            elif kind == "zero-col":
                M[:, 0] = 0.0
            elif kind == "tiny-units":
                M = M * 1e-17          # a well-conditioned system expressed in tiny units: truncation is RELATIVE to the largest singular value
            elif kind == "huge-units":
                M = M * 1e17
            b = rng.normal(size=m)
            for rcond, cutoff in itertools.product((None, 1e-12, 1e-5, 1e-2, 0.5), (None, 1, 2)):
                try:
                    got = SVD(M).lstsq(b, rcond=rcond, sing_val_cutoff=cutoff)
                except Exception as ex:     # noqa
                    got = None
                want = ref_lstsq(M, b, 1e-14 if rcond is None else rcond, cutoff)
                rac.case((m, n, kind, rcond, cutoff), sample=dict(shape=(m, n), kind=kind, rcond=rcond, cutoff=cutoff))
                scale = max(1.0, float(np.max(np.abs(want))))
                if got is None or got.shape != want.shape or not np.allclose(got, want, rtol=1e-7, atol=1e-9 * scale):
                    rac.fail(f"lstsq {m}x{n} {kind} {rcond} {cutoff}", f"C16 SVD.lstsq on a {m}x{n} {kind} matrix, rcond={rcond}, cutoff={cutoff}: {got} vs truncated "
                             f"pseudo-inverse solution {want}", PRELUDE + G.SRC + SRC + f"M = np.array({M.tolist()!r}); b = np.array({b.tolist()!r})\n"
                             f"got = SVD(M).lstsq(b, rcond={rcond!r}, sing_val_cutoff={cutoff!r}); want = ref_lstsq(M, b, {1e-14 if rcond is None else rcond!r}, {cutoff!r})\n"
                             "print(got, want)\nassert np.allclose(got, want, rtol=1e-7, atol=1e-9 * max(1.0, np.max(np.abs(want))))\n", "SVD.lstsq")
    rac.section("lstsq-matrix-rhs", "a MATRIX of right-hand sides (k columns, k = 1 .. 4, including k equal to the number of kept singular values): "
                "SVD.lstsq(B) solves every column as SVD.lstsq(B[:, j]) does (the solution of the system column by column), and equals the reference",
                "every shape 1..4 x 1..4 x k in 1..4 x 2 settings")
    for m in range(1, 5):
        for n in range(1, 5):
            for k in range(1, 5):
                for rcond, cutoff in ((None, None), (1e-3, 2)):
                    M = rng.normal(size=(m, n))
                    B = rng.normal(size=(m, k))
                    key = f"lstsq-matrix-rhs {m}x{n} k={k} {rcond} {cutoff}"
                    rac.case(key, sample=dict(shape=(m, n), columns=k, rcond=rcond, cutoff=cutoff))
                    scr = (PRELUDE + "import numpy as np\n" + SRC + f"M = np.array({M.tolist()!r}); B = np.array({B.tolist()!r})\n"
                           f"got = SVD(M).lstsq(B, rcond={rcond!r}, sing_val_cutoff={cutoff!r})\n"
                           f"cols = np.stack([SVD(M).lstsq(B[:, j], rcond={rcond!r}, sing_val_cutoff={cutoff!r}) for j in range({k})], axis=1)\n"
                           "print(got); print(cols)\nassert got.shape == cols.shape and np.allclose(got, cols, rtol=1e-9, atol=1e-12)\n")
                    try:
                        got = SVD(M).lstsq(B, rcond=rcond, sing_val_cutoff=cutoff)
                        cols = np.stack([SVD(M).lstsq(B[:, j], rcond=rcond, sing_val_cutoff=cutoff) for j in range(k)], axis=1)
                        if got.shape != cols.shape or not np.allclose(got, cols, rtol=1e-9, atol=1e-12):
                            rac.fail(key, f"C16 SVD.lstsq on a {m}x{n} matrix with {k} right-hand sides at once (rcond={rcond}, cutoff={cutoff}): {got.tolist()} "
                                     f"differs from solving the columns one at a time {cols.tolist()}", scr, "SVD.lstsq")
                    except Exception as ex:      # noqa
                        rac.fail(key, f"C16 {key}: {type(ex).__name__}: {ex}", scr, "SVD.lstsq")
    rac.section("lstsq-reuse", "ONE SVD object asked several times with different (rcond, sing_val_cutoff) settings, in every order of three "
                "settings: each answer equals the reference for ITS settings (nothing remembered from an earlier call)", "12 matrices x 6 orders")
    settings = [(None, None), (None, 1), (1e-2, 2), (0.5, None), (1e-12, 1)]
    for t_ in range(12):
        m, n = int(rng.integers(2, 6)), int(rng.integers(2, 6))
        M = rng.normal(size=(m, n)) * (10.0 ** rng.integers(-2, 3, size=(1, n)))
        b = rng.normal(size=m)
        for order in itertools.permutations(range(len(settings)), 3):
            if rac.out_of_time(0.55):
                break
            svd = SVD(M)
            bad = None
            for si in order:
                rcond, cutoff = settings[si]
                got = svd.lstsq(b, rcond=rcond, sing_val_cutoff=cutoff)
                want = ref_lstsq(M, b, 1e-14 if rcond is None else rcond, cutoff)
                if got.shape != want.shape or not np.allclose(got, want, rtol=1e-7, atol=1e-9 * max(1.0, float(np.max(np.abs(want))))):
                    bad = (si, got, want)
                    break
            rac.case((t_, order), sample=dict(shape=(m, n), order=[settings[i] for i in order]))
            if bad:
                rac.fail(f"lstsq-reuse {t_} {order}", f"C16 one SVD object, calls with settings {[settings[i] for i in order]}: call with {settings[bad[0]]} gives {bad[1]}, "
                         f"the truncated pseudo-inverse solution for these settings is {bad[2]}",
                         PRELUDE + G.SRC + SRC + f"M = np.array({M.tolist()!r}); b = np.array({b.tolist()!r})\nsvd = SVD(M)\n"
                         f"for rcond, cutoff in {[settings[i] for i in order]!r}:\n    got = svd.lstsq(b, rcond=rcond, sing_val_cutoff=cutoff)\n"
                         "    want = ref_lstsq(M, b, 1e-14 if rcond is None else rcond, cutoff)\n    print(got, want)\n"
                         "    assert np.allclose(got, want, rtol=1e-7, atol=1e-9 * max(1.0, np.max(np.abs(want)))), (rcond, cutoff)\n", "SVD.lstsq")
                break
    rac.section("one-step", "consistent linear problems with condition number <= 100, wide limits, unit and non-unit knob weights, "
                "target weights, every third problem with a knob starting exactly ON one of its limits: after ONE Jacobian step the knobs are at the solution (1e-5 relative: forward differences) and solve() "
                "succeeds, with and without Broyden", "120 quick / 1500 thorough", exhaustive=False)
    for n_ in range(120 if quick else 1500):
        if rac.out_of_time(0.6):
            break
        nk = rac.rng.randint(1, 3)
        for _try in range(20):
            A = rng.normal(size=(nk, nk))
            if np.linalg.cond(A) <= 100:
                break
        else:
            continue
        sol = rng.uniform(-1, 1, size=nk)
        k0 = rng.uniform(-1, 1, size=nk)
        c = rng.uniform(-1, 1, size=nk)
        prob = dict(fam="linear", A=A.tolist(), c=c.tolist(), k0=k0.tolist(), val=(A @ sol + c).tolist(), tol=[1e-6] * nk,
                    tw=[rac.rng.choice([None, 2.0, 0.5]) for _ in range(nk)], lim=[rac.rng.choice([None, [-50.0, 50.0], [-50, 50], [-7, 9]]) for _ in range(nk)],     # (limits given as floats or as plain integers)
                    w=[rac.rng.choice([None, 2.0, 0.5, 10.0, 4.0]) for _ in range(nk)], ms=[None] * nk, step=1e-7, kact=[True] * nk, tact=[True] * nk)
        if n_ % 3 == 2:
            # one knob STARTS exactly on its upper (or lower) limit, the solution well inside: the finite-difference point beyond the limit is
            # the solver's own business, the step must still be the Newton step
            ib = rac.rng.randrange(nk)
            if rac.rng.random() < 0.7:
                up = float(sol[ib] + rac.rng.uniform(0.2, 1.5))
                prob["k0"][ib] = up
                prob["lim"][ib] = [-50.0, up]
            else:
                lo = float(sol[ib] - rac.rng.uniform(0.2, 1.5))
                prob["k0"][ib] = lo
                prob["lim"][ib] = [lo, 50.0]
            # (a knob exactly ON a limit is not "inside wide limits": with a non-unit weight w whose scaling does not round-trip, (k / w) * w != k, the
            #  merit function's own limit test sees the starting point one ulp outside and refuses it before any step is taken -- "up to rounding"
            #  in the statement; found by the thorough tier on the unchanged tree, a demand of the harness beyond the statement, not a finding.
            #  The case is kept with a weight that round-trips.)
            w_ = prob["w"][ib]
            if w_ is not None and (prob["k0"][ib] / w_) * w_ != prob["k0"][ib]:
                prob["w"][ib] = None
        for broyden in (False, True):
            scr = PRELUDE + DEADLINE_SRC + G.SRC + SRC + f"prob = {prob!r}\nopt, d, act = build(prob)\nopt.step(1, broyden={broyden})\nkn = np.array(knobs_of(d, prob)); sol = np.array({sol.tolist()!r})\n" \
                "print(kn, sol)\nassert np.allclose(kn, sol, rtol=1e-5, atol=1e-5), (kn, sol)\nopt.solve()\n"
            try:
                with deadline(60):
                    opt, d, act = build(prob)
                    opt.step(1, broyden=broyden)
                    kn = np.array(knobs_of(d, prob))
                    ok1 = np.allclose(kn, sol, rtol=1e-5, atol=1e-5)
                    opt2, d2, _ = build(prob)
                    opt2.solve(broyden=broyden)
                    ok2 = all(within_tol(prob, knobs_of(d2, prob), [True] * nk))
            except Exception as ex:     # noqa
                ok1, ok2, kn = False, False, repr(ex)
            rac.case((json.dumps(prob), broyden), sample=dict(knobs=nk, weights=prob["w"], broyden=broyden))
            if not (ok1 and ok2):
                rac.fail(f"one-step {n_} {broyden}", f"C16 linear {nk}-knob problem (cond {np.linalg.cond(A):.1f}, weights {prob['w']}), broyden={broyden}: after one "
                         f"step knobs {kn}, solution {sol.tolist()}; solve ok: {ok2}", scr, "JacobianSolver.step")
                break
    rac.section("step-truncation", "linear problems whose second response is 1e-16..1e-15 of the first (a direction below the default relative cut "
                "1e-14 of SVD.lstsq): ONE Optimize.step() with rcond / sing_val_cutoff left at their defaults moves the knobs by the truncated "
                "minimum-norm least-squares step of the masked Jacobian -- the reference pseudo-inverse with the 1e-14 cut --, and an explicit "
                "rcond is honoured the same way", "40 quick / 400 thorough", exhaustive=False)
    for n_ in range(40 if quick else 400):
        if rac.out_of_time(0.7):
            break
        eps = 10 ** rac.rng.uniform(-16, -15)
        row0 = rng.uniform(0.5, 2.0, size=2) * rng.choice([-1, 1], size=2)
        row1 = eps * rng.uniform(0.5, 2.0, size=2) * np.array([1.0, -1.0])
        A = np.array([row0, row1])
        k0 = np.zeros(2) if n_ % 2 == 0 else rng.uniform(-1, 1, size=2)
        val = np.array([float(rng.uniform(1, 3)), 0.0])
        prob = dict(fam="linear", A=A.tolist(), c=[0.0, 0.0], k0=k0.tolist(), val=val.tolist(), tol=[1e-9, 1e-6], tw=[None, None], lim=[None, None],
                    w=[None, None], ms=[None, None], step=1e-6, kact=[True, True], tact=[True, True])
        kw = rac.rng.choice([{}, {}, {"rcond": 1e-12}])
        want = k0 - ref_lstsq(A, A @ k0 - val, kw.get("rcond", 1e-14), None)
        scr = PRELUDE + G.SRC + SRC + f"prob = {prob!r}\nopt, d, act = build(prob)\nopt.step(1, **{kw!r})\nkn = np.array(knobs_of(d, prob)); want = np.array({want.tolist()!r})\n" \
            "print(kn, want)\nassert np.allclose(kn, want, rtol=1e-4, atol=1e-4), (kn, want)\n"
        try:
            opt, d, act = build(prob)
            opt.step(1, **kw)
            kn = np.array(knobs_of(d, prob))
            ok = np.allclose(kn, want, rtol=1e-4, atol=1e-4)
        except Exception as ex:     # noqa
            ok, kn = False, repr(ex)
        rac.case(("step-truncation", json.dumps(prob), json.dumps(kw)), sample=dict(eps=eps, start=k0.tolist(), kwargs=kw))
        if not ok:
            rac.fail(f"step-truncation {n_}", f"C16 responses {A.tolist()} (second row {eps:.1e} of the first), start {k0.tolist()}, step(1, {kw}): knobs {kn}, "
                     f"truncated minimum-norm step gives {want.tolist()}", scr, "JacobianSolver.step")
    rac.section("scalings", "x_to_knobs / knobs_to_x and scaled_to_native / scaled_from_native are mutually inverse (1e-12 relative), "
                "random weights 1e-3..1e3, bounds (floats, every third problem plain integers) and rescale intervals; also on integer-valued knob settings, and the "
                "x-space limits mapped back are the knob limits", "200 quick / 3000 thorough", exhaustive=False)
    for n_ in range(200 if quick else 3000):
        if rac.out_of_time(0.8):
            break
        nk = rac.rng.randint(1, 4)
        prob = G.rnd_problem(rac.rng, nk=nk, nt=1, fam="linear", limits=False, weights=False, max_step=False)
        prob["w"] = [10 ** rac.rng.uniform(-3, 3) if rac.rng.random() < 0.8 else None for _ in range(nk)]
        prob["lim"] = [[-rac.rng.uniform(1, 100), rac.rng.uniform(1, 100)] for _ in range(nk)]
        if n_ % 3 == 0:
            prob["lim"] = [[-rac.rng.randint(1, 100), rac.rng.randint(1, 100)] for _ in range(nk)]      # plain integers
        prob["kact"] = [True] * nk
        try:
            opt, d, act = build(prob)
        except Exception:    # noqa
            continue
        mf = opt._err
        k = rng.uniform(-1, 1, size=nk)
        x = rng.uniform(-1, 1, size=nk)
        lo, hi = sorted([rac.rng.uniform(-5, 5), rac.rng.uniform(-5, 5)])
        view = mf.get_merit_function(rescale_x=(lo, hi + 0.1), check_limits=False)
        # the conversions return NEW arrays: a float64 array handed in is the caller's (the solver's iterate) and must come back unchanged
        k_in, x_in = k.copy(), x.copy()
        held = []
        for nm_, fn_, arg_, ref_ in (("_x_to_knobs", mf._x_to_knobs, x, x_in), ("_knobs_to_x", mf._knobs_to_x, k, k_in),
                                     ("view._scaled_to_native", view._scaled_to_native, x, x_in), ("view._scaled_from_native", view._scaled_from_native, x, x_in)):
            out_ = fn_(arg_)
            if not np.array_equal(arg_, ref_) or out_ is arg_ or np.shares_memory(np.asarray(out_), arg_):
                held.append(nm_)
        if held:
            rac.fail(f"scaling argument altered {n_}", f"C16 {held} changed (or returned a view of) the float64 array it was given (weights {prob['w']})",
                     PRELUDE + G.SRC + f"prob = {prob!r}\nopt, d, act = build(prob)\nmf = opt._err\nx = np.array({x.tolist()!r}); x0 = x.copy()\nout = mf._x_to_knobs(x)\n"
                     "assert np.array_equal(x, x0) and not np.shares_memory(out, x), ('_x_to_knobs altered its argument', x, x0)\nk = x0.copy(); out = mf._knobs_to_x(k)\n"
                     "assert np.array_equal(k, x0) and not np.shares_memory(out, k), ('_knobs_to_x altered its argument', k, x0)\n", "MeritFunctionForMatch._x_to_knobs")
        r1 = mf._x_to_knobs(mf._knobs_to_x(k))
        r2 = mf._knobs_to_x(mf._x_to_knobs(x))
        r3 = view._scaled_to_native(view._scaled_from_native(x))
        r4 = view._scaled_from_native(view._scaled_to_native(x))
        kint = [rac.rng.randint(-9, 9) for _ in range(nk)]          # integer-valued knob settings, as a list of ints
        r5 = mf._x_to_knobs(np.array(mf._knobs_to_x(kint), dtype=float))
        xl = mf._get_x_limits()
        r6 = np.concatenate([mf._x_to_knobs(np.array(xl[:, 0], dtype=float)), mf._x_to_knobs(np.array(xl[:, 1], dtype=float))])
        lims = np.array([l[0] for l in prob["lim"]] + [l[1] for l in prob["lim"]], dtype=float)
        rac.case((json.dumps(prob["w"]), lo, hi), sample=dict(weights=prob["w"], rescale=(lo, hi + 0.1)))
        for nm, a, b_ in (("x_to_knobs o knobs_to_x", r1, k), ("knobs_to_x o x_to_knobs", r2, x), ("to_native o from_native", r3, x), ("from_native o to_native", r4, x),
                           ("x_to_knobs o knobs_to_x on integer knob values", r5, np.array(kint, dtype=float)), ("x_to_knobs of the x-space limits (vs the knob limits)", r6, lims)):
            # rounding is relative to the magnitudes involved: the native bounds are limits / weight
            span = max(max(abs(l[0]), abs(l[1])) / (1.0 if w_ is None else w_) for l, w_ in zip(prob["lim"], prob["w"]))
            if not np.allclose(a, b_, rtol=1e-10, atol=1e-13 * max(1.0, span)):
                rac.fail(f"scaling {nm} {n_}", f"C16 {nm} is not the identity: {a} vs {b_} (weights {prob['w']}, rescale {(lo, hi + 0.1)})",
                         PRELUDE + G.SRC + f"prob = {prob!r}\nopt, d, act = build(prob)\nmf = opt._err\nk = np.array({k.tolist()!r})\nassert np.allclose(mf._x_to_knobs(mf._knobs_to_x(k)), k, rtol=1e-10)\n"
                         f"kint = {kint!r}\nassert np.allclose(mf._x_to_knobs(np.array(mf._knobs_to_x(kint), dtype=float)), kint, rtol=1e-10), 'integer knob values'\n"
                         f"xl = mf._get_x_limits()\nassert np.allclose(mf._x_to_knobs(np.array(xl[:, 0], dtype=float)), {[l[0] for l in prob['lim']]!r}, rtol=1e-10), 'lower limits'\n"
                         f"v = mf.get_merit_function(rescale_x=({lo!r}, {hi + 0.1!r}), check_limits=False)\nassert np.allclose(v._scaled_to_native(v._scaled_from_native(k)), k, rtol=1e-10)\nassert np.allclose(v._scaled_from_native(v._scaled_to_native(k)), k, rtol=1e-10)\n",
                         "MeritFunctionForMatch._x_to_knobs")
                break
    rac.section("jacobians", "view.get_jacobian(x) vs central differences of view(x): native / rescaled x return_scalar False / True, smooth "
                "problems, unit and non-unit knob weights, some knobs inactive", "60 quick / 800 thorough", exhaustive=False)
    for n_ in range(60 if quick else 800):
        if rac.out_of_time(0.97):
            break
        nk = rac.rng.randint(1, 3)
        prob = G.rnd_problem(rac.rng, nk=nk, fam=rac.rng.choice(["linear", "quad", "trig"]), limits=False, max_step=False, weights=rac.rng.random() < 0.6)
        prob["lim"] = [[-rac.rng.uniform(2, 20), rac.rng.uniform(2, 20)] for _ in range(nk)]
        prob["step"] = 1e-6
        prob["kact"] = [True] * nk
        for rescale, scalar in itertools.product((None, (-1.0, 2.0)), (False, True)):
            try:
                opt, d, act = build(prob)
                view = opt.get_merit_function(check_limits=False, return_scalar=scalar, rescale_x=rescale)
                x0 = np.array(view.get_x(), dtype=float)
                J = np.atleast_2d(view.get_jacobian(x0))
                h = 1e-5 * (1.0 if rescale is None else 0.05)
                Jfd = fd_jac(lambda xx: view(xx), x0, h)
                ok = np.allclose(J, Jfd, rtol=2e-3, atol=1e-4 * max(1.0, float(np.max(np.abs(Jfd)))))
            except Exception as ex:     # noqa
                ok, J, Jfd = False, repr(ex), None
            if ok and rescale is not None:
                # the same view after the limits of a knob (hence the affine map scaled <-> native) were changed: still the derivative of view(x)
                try:
                    lo, hi = prob["lim"][0]
                    opt.vary[0].limits = (lo * 3.0 - 1.0, hi * 1.5 + 2.0)
                    J = np.atleast_2d(view.get_jacobian(x0))
                    Jfd = fd_jac(lambda xx: view(xx), x0, h)
                    ok = np.allclose(J, Jfd, rtol=2e-3, atol=1e-4 * max(1.0, float(np.max(np.abs(Jfd)))))
                    if not ok:
                        J = f"after changing the limits of knob 0 to {opt.vary[0].limits}: {J}"
                except Exception as ex:     # noqa
                    ok, J, Jfd = False, "after changing the limits of knob 0: " + repr(ex), None
            rac.case((json.dumps(prob), rescale, scalar), sample=dict(fam=prob["fam"], weights=prob["w"], rescale=rescale, scalar=scalar))
            if not ok:
                rac.fail(f"jacobian {n_} {rescale} {scalar}", f"C16 view Jacobian (rescale_x={rescale}, return_scalar={scalar}, weights {prob['w']}): {J} vs finite differences {Jfd}",
                         PRELUDE + G.SRC + SRC + f"prob = {prob!r}\nopt, d, act = build(prob)\nview = opt.get_merit_function(check_limits=False, return_scalar={scalar}, rescale_x={rescale!r})\n"
                         f"x0 = np.array(view.get_x(), dtype=float)\nJ = np.atleast_2d(view.get_jacobian(x0)); Jfd = fd_jac(lambda xx: view(xx), x0, {h!r})\nprint(J, Jfd)\n"
                         "assert np.allclose(J, Jfd, rtol=2e-3, atol=1e-4 * max(1.0, float(np.max(np.abs(Jfd)))))\n"
                         + ("" if rescale is None else f"lo, hi = prob['lim'][0]; opt.vary[0].limits = (lo * 3.0 - 1.0, hi * 1.5 + 2.0)\n"
                            f"J = np.atleast_2d(view.get_jacobian(x0)); Jfd = fd_jac(lambda xx: view(xx), x0, {h!r})\nprint(J, Jfd)\n"
                            "assert np.allclose(J, Jfd, rtol=2e-3, atol=1e-4 * max(1.0, float(np.max(np.abs(Jfd)))))\n"), "MeritFuctionView.get_jacobian")
                break
    return rac.finish()


if __name__ == "__main__":
    sys.exit(main())
