"""Run-time contract section for C03 (also run under C01): a definition REPLACED by a different expression that prints like the old one
(wave 9, C03-18: a "same expression assigned again" shortcut keyed on ==, which for references is equality of the printed form).

Statement (C03): after an expression is replaced by another expression the manager answers every query (here: the current expression of the
location, the dependants of the locations involved, its self-check) and reacts to every later assignment exactly like a fresh manager in
which only the surviving definitions were registered.  Each case is a standalone script (the replay file as it stands): it builds the
history on one manager and the surviving definitions on a fresh one and compares."""
from rac.common import PRELUDE

SETUP = '''import xdeps
import numpy as np
from xdeps.refs import CallRef
def world():
    d = {'a': 3.0, 'b': 0.1, 'c': 0.0, 'e': 0.0}
    m = xdeps.Manager(); r = m.ref(d, 'd')
    return d, m, r
od = {'a': 100.0}; om = xdeps.Manager(); orf = om.ref(od, 'd')      # ANOTHER manager's container under the same label
def mk(k):
    def calib(x):
        return x * k + 1
    return calib
f1, f2 = mk(2.0), mk(10.0)
'''
# (old definition, new definition) of d['c'] as source text over r / orf; both print alike
PAIRS = {
    "literal of another numpy dtype": ("r['a'] * np.float32(0.1)", "r['a'] * 0.1"),
    "literal of another numpy dtype, reversed": ("r['a'] * 0.1", "r['a'] * np.float32(0.1)"),
    "integer literal against float literal of a numpy type": ("r['a'] + np.int64(2)", "r['a'] + np.uint8(2)"),
    "equally labelled container of another manager": ("orf['a'] * 2", "r['a'] * 2"),
    "revised function of the same name": ("CallRef(f1, (r['a'],), {})", "CallRef(f2, (r['a'],), {})"),
}


def run(rac, prop):
    rac.section("replaced-by-same-printing-expression", "a definition replaced by a DIFFERENT expression that prints like the old one (a literal of another numpy dtype, "
                "a reference into an equally labelled container of another manager, a revised function of the same name), with a dependant: the current "
                "expression of the location is the NEW object, the data, the dependants and the self-check are those of a fresh manager holding the "
                "surviving definitions, right after the replacement and after a later assignment to an input",
                f"{len(PAIRS)} pairs x 2 later assignments")
    for name, (old, new) in PAIRS.items():
        for later in ("r['a'] = 7.0", "r['b'] = 4.0; r['a'] = 0.5"):
            fresh_new = new.replace("r[", "fr[")
            src = (SETUP + f"d, m, r = world()\nr['c'] = {old}\nr['e'] = r['c'] + 0.5\nnew = {new}\nr['c'] = new\n"
                   f"fd, fm, fr = world()\nfr['c'] = {fresh_new}\nfr['e'] = fr['c'] + 0.5\n"
                   "def same(x, y): return type(x) is type(y) and repr(x) == repr(y)\n"
                   "assert r['c']._expr is new, ('the current expression of c is not the expression assigned last', r['c']._expr, new)\n"
                   "assert same(d['c'], fd['c']) and same(d['e'], fd['e']), ('right after the replacement', d, fd)\n"
                   "m.verify()\n"
                   "assert sorted(map(str, m.find_deps([r['a']]))) == sorted(map(str, fm.find_deps([fr['a']]))), ('dependants of a', m.find_deps([r['a']]), fm.find_deps([fr['a']]))\n"
                   + later + "\n" + later.replace("r[", "fr[") + "\n"
                   "assert same(d['c'], fd['c']) and same(d['e'], fd['e']), ('after the later assignment', d, fd)\n")
            key = f"same-printing replacement: {name} / {later}"
            rac.case(key, sample=dict(old=old, new=new, later=later))
            try:
                exec(src, {})
            except AssertionError as ex:
                rac.fail(key, f"{prop} c = {old}; e = c + 0.5; c = {new}; {later}: differs from a fresh manager with c = {new}: {ex}", PRELUDE + src, "Manager.set_value")
            except Exception as ex:      # noqa
                rac.fail(key, f"{prop} {key}: raised {type(ex).__name__}: {ex}", PRELUDE + src, "Manager.set_value")
