"""C13 bounded stand-in: generated setter functions are equivalent to assigning through the manager.

Translation-validation style: twin managers over equal containers (rac/mgrgen.py histories, expression-only); for every
non-empty subset of <= 3 locations WITHOUT a definition as arguments:  A: f = gen_fun(...); f(*values)   B: set_value
per argument.  The containers must agree afterwards (zero divisions excluded: the value grid keeps divisors away
from 0).  The source (mk_fun) must list every triggered expression task exactly once, after the tasks producing its
inputs, and nothing else.
"""
import itertools
import os
import sys
sys.path.insert(0, os.path.dirname(os.path.dirname(os.path.abspath(__file__))))
from rac.common import Rac, PRELUDE
from rac import mgrgen as G

TAIL = '''
import copy
args = ARGS
vals = VALS
names = ["x%d" % i for i in range(len(args))]
refs = [eval(a) for a in args]
src = m.mk_fun("setter", **dict(zip(names, refs)))
print(src)
fun = m.gen_fun("setter", **dict(zip(names, refs)))
# twin: same history, assignments through the manager
TWIN
fun(*vals)
for a, v in zip(args, vals):
    exec(a.replace("r", "r2", 1) + " = " + repr(v))
def plain(x):
    return {k: (dict(vars(v)) if hasattr(v, "__dict__") else copy.deepcopy(v)) for k, v in x.items()}
assert plain(d) == plain(d2), ("generated setter", plain(d), "through the manager", plain(d2))
'''


def rs(loc, root="r"):
    s = root
    for step in loc:
        s += step if isinstance(step, str) and step.startswith(".") else f"[{step!r}]"
    return s


def check_text(w, src, refs):
    """every triggered expression task once, producers first"""
    lines = [ln.strip() for ln in src.splitlines()[1:]]
    body = lines[len(refs):]
    start = set()
    for rf in refs:
        rf._get_dependencies(start)
    tasks = dict(w.m.tasks)
    trig = {tid for tid, t in tasks.items() if set(t.dependencies) & start}
    edges = {a: [b for b, tb in tasks.items() if set(ta.targets) & set(tb.dependencies)] for a, ta in tasks.items()}
    seen, todo = set(), list(trig)
    while todo:
        v = todo.pop()
        if v not in seen:
            seen.add(v)
            todo += edges[v]
    want = {str(tasks[t]) for t in seen}
    if sorted(body) != sorted(want):
        return f"task lines {sorted(body)} != triggered tasks {sorted(want)}"
    pos = {ln: i for i, ln in enumerate(body)}
    for a in seen:
        for b in edges[a]:
            if b in seen and a != b and pos[str(tasks[a])] > pos[str(tasks[b])]:
                # allowed only if the declared edge closes a cycle
                back, todo2, vis = False, [b], set()
                while todo2:
                    q = todo2.pop()
                    if q == a:
                        back = True
                        break
                    if q not in vis:
                        vis.add(q)
                        todo2 += edges[q]
                if not back:
                    return f"{tasks[b]} is listed before its producer {tasks[a]}"
    return None


def main():
    rac = Rac("C13")
    quick = rac.tier == "quick"
    alpha = [o for o in G.op_alphabet(small=False) if o[0] == "expr"]
    L = 3 if quick else 4
    vals_pool = [5.0, -2.5, 0.75]
    rac.section("setters", f"managers built by every sequence of <= {L} expression definitions (of {len(alpha)}) on dict-in-dict, "
                "list-in-dict and attribute containers; every non-empty subset of <= 3 undefined locations as arguments; generated "
                "setter vs set_value per argument on a twin; source lists each triggered task once, producers first; then another manager with "
                "the same history and container label generates and uses its own setter and the first setter is used again (still == assigning "
                "through its own manager; the other manager's data untouched); "
                "non-trivial = at least one task is triggered", f"definitions<={L}, arguments<=3")
    for n in range(1, L + 1):
        for ops in itertools.permutations(alpha, n):
            if rac.out_of_time(0.9):
                rac.sections["setters"]["exhaustive"] = False
                rac.exhaustive = False
                break
            orc = G.Oracle()
            if not all(G.legal(orc, o) and (orc.apply(o) or True) for o in ops):
                continue
            if orc.sibling_feed():
                continue          # known finding K1 (C01): the ordering among such siblings is arbitrary in both executions
            free = [l for l in G.LOCS if l not in orc.defs]
            subsets = [s for k in (1, 2, 3) for s in itertools.combinations(free, k)]
            if n >= 3:
                subsets = subsets[::5]
            for sub in subsets:
                wa, wb = G.World(), G.World()
                try:
                    for o in ops:
                        wa.apply(o)
                        wb.apply(o)
                except Exception:     # noqa
                    break
                if wa.k1_seen or G.declared_cycle(wa.m):
                    break          # known finding K1 (C01): the order inside a declared cycle is arbitrary in both executions
                vals = [vals_pool[i % 3] for i in range(len(sub))]
                hist = "; ".join(G.opstr(o) for o in ops)
                key = f"setter [{hist}] args {[G.locstr(l) for l in sub]}"
                twin = G.history_script(list(ops)).split("\n", 2)[2].replace("d = {", "d2 = {", 1).replace("m = xdeps.Manager(); r = m.ref(d, 'd')", "m2 = xdeps.Manager(); r2 = m2.ref(d2, 'd')")
                twin = "\n".join(ln.replace("r[", "r2[").replace("r.", "r2.") if not ln.startswith(("d2 =", "m2 =", "class", "    def")) else ln for ln in twin.splitlines())
                scr = G.history_script(list(ops), TAIL.replace("ARGS", repr([rs(l) for l in sub])).replace("VALS", repr(vals)).replace("TWIN", twin))
                refs = [wa.ref(l) for l in sub]
                names = [f"x{i}" for i in range(len(sub))]
                try:
                    src = wa.m.mk_fun("setter", **dict(zip(names, refs)))
                    fun = wa.m.gen_fun("setter", **dict(zip(names, refs)))
                    fun(*vals)
                    for l, v in zip(sub, vals):
                        wb.apply(("val", l, v))
                except ZeroDivisionError:
                    continue
                except Exception as ex:     # noqa
                    rac.fail(key, f"C13 {key}: {type(ex).__name__}: {ex}", scr, "Manager.mk_fun")
                    continue
                a, b = wa.actual(), wb.actual()
                bad = [(G.locstr(l), a[l], b[l]) for l in G.LOCS if not G.close(a[l], b[l])]
                ntasks = len(src.splitlines()) - 1 - len(sub)
                rac.case((ops, sub), nontrivial=ntasks > 0, sample=dict(history=hist, args=[G.locstr(l) for l in sub], tasks=ntasks))
                if bad:
                    rac.fail(key, f"C13 {key}: generated setter leaves {bad[:3]} (setter value, through the manager)", scr, "Manager.mk_fun")
                    continue
                msg = check_text(wa, src, refs)
                if msg:
                    rac.fail(key, f"C13 {key}: source of the setter: {msg}\n{src}", scr, "Manager.mk_fun")
                    continue
                # a THIRD manager with the same history (hence the same container label) generates and uses its own setter; the first setter,
                # used again, still acts on the first manager's containers (== assigning through that manager) and leaves the third one's alone
                vals_c, vals2 = [v + 1.0 for v in vals], [v * 0.5 + 0.125 for v in vals]
                scr3 = (f"SRC = {G.history_script(list(ops))!r}\nimport copy\ndef build():\n    env = {{}}\n    exec(SRC, env)\n    return env\n"
                        f"A, B, C = build(), build(), build()\nargs = {[rs(l) for l in sub]!r}\nnames = ['x%d' % i for i in range(len(args))]\n"
                        "mk = lambda e: e['m'].gen_fun('setter', **{n: eval(a, e) for n, a in zip(names, args)})\n"
                        f"fa = mk(A); fa(*{vals!r})\nfc = mk(C); fc(*{vals_c!r})\nc0 = copy.deepcopy(C['d'])\nfa(*{vals2!r})\n"
                        f"for a, v in zip(args, {vals2!r}):\n    exec(a + ' = ' + repr(v), B)\n"
                        "assert A['d'] == B['d'], ('first setter used again', A['d'], 'through the manager', B['d'])\nassert C['d'] == c0, ('the other manager\\'s data changed', C['d'], c0)\n")
                try:
                    wc = G.World()
                    for o in ops:
                        wc.apply(o)
                    func = wc.m.gen_fun("setter", **dict(zip(names, [wc.ref(l) for l in sub])))
                    func(*vals_c)
                    c0 = wc.actual()
                    fun(*vals2)
                    for l, v in zip(sub, vals2):
                        wb.apply(("val", l, v))
                except ZeroDivisionError:
                    continue
                except Exception as ex:     # noqa
                    rac.fail(key + " twice", f"C13 {key}, setter used again after another manager generated its own: {type(ex).__name__}: {ex}", scr3, "Manager.gen_fun")
                    continue
                a, b, c1 = wa.actual(), wb.actual(), wc.actual()
                bad = [(G.locstr(l), a[l], b[l]) for l in G.LOCS if not G.close(a[l], b[l])]
                badc = [(G.locstr(l), c0[l], c1[l]) for l in G.LOCS if not G.close(c0[l], c1[l])]
                rac.case((ops, sub, "again"), nontrivial=ntasks > 0, sample=dict(history=hist, args=[G.locstr(l) for l in sub], again=True))
                if bad or badc:
                    rac.fail(key + " twice", f"C13 {key}: another manager with the same container label generated its own setter; the first setter, used again, "
                             f"leaves {bad[:3]} (setter value, through the manager)" + (f" and changed the other manager's data {badc[:3]}" if badc else ""), scr3, "Manager.gen_fun")
    rac.section("containers", "arguments inside nested containers whose enclosing container is read as a whole by another task "
                "(function of a list / dict), repeated generation after a definition was removed", "9 crafted argument sets x fresh / regenerated")
    CR = '''
import xdeps
class F:
    @staticmethod
    def total(l): return sum(l)
    @staticmethod
    def pick(dct): return dct["x"] * 2
    @staticmethod
    def total2(ll): return sum(sum(x) for x in ll)
    @staticmethod
    def deep(g): return g["h"]["k"] * 3 + g["h"]["j"]
def mk():
    d = {"l": [1.0, 2.0, 3.0], "n": {"x": 1.5, "y": 0.5}, "s": 0.0, "c": 0.0, "p": 0.0, "q": 0.0,
         # locations two and three containers deep, read through an OUTER container only (whole container / reference-valued index)
         "m": [[1.0, 2.0], [3.0, 4.0]], "i": 1, "sel": 0.0, "tot": 0.0, "g": {"h": {"k": 1.0, "j": 2.0}}, "w": 0.0, "u": 0.0}
    m = xdeps.Manager(); r = m.ref(d, "d"); f = m.ref(F, "f")
    r["s"] = f.total(r["l"]); r["c"] = r["l"][0] + r["l"][1]; r["p"] = f.pick(r["n"]); r["q"] = r["s"] + r["p"]
    r["sel"] = r["m"][r["i"]][1] * 10; r["tot"] = f.total2(r["m"]); r["w"] = f.deep(r["g"]); r["u"] = r["w"] + r["sel"]
    return d, m, r
'''
    env = {}
    exec(CR, env)
    cases = [("list element", ["r['l'][1]"], [10.0]), ("dict member", ["r['n']['x']"], [4.0]),
             ("both", ["r['l'][0]", "r['n']['x']"], [7.0, -1.0]), ("two list elements", ["r['l'][0]", "r['l'][2]"], [0.5, 0.25]),
             ("depth 3, selected row", ["r['m'][1][1]"], [40.0]), ("depth 3, other row", ["r['m'][0][1]"], [-6.0]),
             ("depth 3 dict", ["r['g']['h']['k']"], [2.5]), ("depth 3 both", ["r['g']['h']['j']", "r['m'][1][0]"], [8.0, 9.0]),
             ("index and row", ["r['i']", "r['m'][0][1]"], [0, 77.0])]
    for name, args, vals in cases:
        for regen in (False, True):
            d1, m1, r1 = env["mk"]()
            d2, m2, r2 = env["mk"]()
            body = f"d1, m1, r = mk(); d2, m2, r2 = mk()\n"
            if regen:
                body += f"m1.gen_fun('setter', **{{'x%d' % i: eval(a) for i, a in enumerate({args!r})}}); r['q'] = 99.0; r2['q'] = 99.0\n"
            body += f"refs = [eval(a) for a in {args!r}]\nfun = m1.gen_fun('setter', **{{'x%d' % i: rf for i, rf in enumerate(refs)}})\nfun(*{vals!r})\n" + \
                "".join(f"{a.replace('r', 'r2', 1)} = {v!r}\n" for a, v in zip(args, vals)) + "print(d1, d2)\nassert d1 == d2\n"
            rac.case((name, regen), sample=dict(case=name, regenerated=regen))
            try:
                if regen:
                    m1.gen_fun("setter", **{f"x{i}": eval(a, dict(r=r1)) for i, a in enumerate(args)})
                    r1["q"] = 99.0
                    r2["q"] = 99.0
                refs = [eval(a, dict(r=r1)) for a in args]
                fun = m1.gen_fun("setter", **{f"x{i}": rf for i, rf in enumerate(refs)})
                fun(*vals)
                for a, v in zip(args, vals):
                    exec(f"{a} = {v!r}", dict(r=r2))
                if d1 != d2:
                    rac.fail(f"containers {name} {regen}", f"C13 {name} (regenerated: {regen}): setter leaves {d1}, assignment through the manager {d2}",
                             PRELUDE + CR + body, "Manager.mk_fun")
            except Exception as ex:     # noqa
                rac.fail(f"containers {name} {regen}", f"C13 {name}: {type(ex).__name__}: {ex}", PRELUDE + CR + body, "Manager.gen_fun")
    # ---- containers registered through Manager.refattr (attribute access on the reference = item access on the container), wave 9 (C13-18)
    rac.section("refattr-containers", "containers registered with Manager.refattr -- the default AttrDict, a plain dict, an OrderedDict, a dict subclass, "
                "a module-like globals() dictionary -- with definitions written attribute-style and item-style, a nested list member, two setters "
                "(one argument, two arguments): setter vs assignment through the manager, items compared (and no instance attribute appears on the container)",
                "5 container kinds x 2 definition styles x 2 setters x 2 value sets")
    RA = '''
import collections, xdeps
from xdeps.utils import AttrDict
class MyDict(dict):
    pass
KINDS = {"AttrDict": AttrDict, "dict": dict, "OrderedDict": collections.OrderedDict, "dict subclass": MyDict, "globals-like": lambda: dict(__name__="fake")}
def build(kind, style):
    m = xdeps.Manager()
    data = KINDS[kind]()
    data["a"] = 1.0; data["b"] = 2.0; data["lst"] = [1.0, 2.0]; data["c"] = 0.0; data["d"] = 0.0; data["e"] = 0.0
    g = m.refattr(data, "g")
    if style == "attribute":
        g.c = 0.1 * g.a + 0.2 * g.b
        g.d = g.c * 10 - g.lst[1]
        g.lst[0] = g.a * 2
        g.e = g.lst[0] + g.b
    else:
        g["c"] = 0.1 * g["a"] + 0.2 * g["b"]
        g["d"] = g["c"] * 10 - g["lst"][1]
        g["lst"][0] = g["a"] * 2
        g["e"] = g["lst"][0] + g["b"]
    return m, data, g
def items(data):
    return {k: v for k, v in dict(data).items() if not k.startswith("__")}
def both(kind, style, which, vals):
    m1, d1, g1 = build(kind, style)
    if which == "one":
        m1.gen_fun("set_a", a=g1.a)(vals[0])
    else:
        m1.gen_fun("set_ab", a=g1.a, b=g1["b"])(*vals)
    m2, d2, g2 = build(kind, style)
    g2.a = vals[0]
    if which == "two":
        g2.b = vals[1]
    extra = sorted(getattr(d1, "__dict__", {}) if kind not in ("AttrDict",) else [])
    return items(d1), items(d2), extra
'''
    renv = {}
    exec(RA, renv)
    for kind in ("AttrDict", "dict", "OrderedDict", "dict subclass", "globals-like"):
        for style in ("attribute", "item"):
            for which in ("one", "two"):
                for vals in ((3.0, 4.0), (-0.5, 0.25)):
                    key = f"refattr {kind} {style} {which} {vals}"
                    body = f"d1, d2, extra = both({kind!r}, {style!r}, {which!r}, {vals!r})\nprint(d1); print(d2)\nassert d1 == d2 and not extra, (d1, d2, extra)\n"
                    rac.case(key, sample=dict(container=kind, style=style, setter=which, values=vals))
                    try:
                        d1, d2, extra = renv["both"](kind, style, which, vals)
                        if d1 != d2 or extra:
                            rac.fail(key, f"C13 refattr container ({kind}), {style}-style definitions, setter with {which} argument(s) called with {vals}: the setter leaves "
                                     f"{d1}{' and instance attributes ' + str(extra) if extra else ''}, assignment through the manager {d2}", PRELUDE + RA + body, "Manager.gen_fun")
                    except Exception as ex:     # noqa
                        rac.fail(key, f"C13 {key}: {type(ex).__name__}: {ex}", PRELUDE + RA + body, "Manager.gen_fun")
    rac.section("grouping", "definitions whose value depends on how the expression is GROUPED (right-nested sums / products / differences of floats, "
                "mixed with a power and a unary minus): the generated setter executes the printed text, the manager evaluates the tree -- the "
                "containers must be equal bit for bit", "10 expression shapes x 3 value sets")
    GR = '''
import xdeps
def mk(vals):
    d = dict(x=vals[0], y=vals[1], z=vals[2], t=1.0, s=0.0)
    m = xdeps.Manager(); r = m.ref(d, "d")
    return d, m, r
SHAPES = ["r['x'] + (r['y'] + r['z'])", "(r['x'] + r['y']) + r['z']", "r['x'] * (r['y'] * r['z'])", "r['x'] - (r['y'] - r['z'])",
          "r['x'] / (r['y'] / r['z'])", "r['x'] + (r['y'] + (r['z'] + r['t']))", "r['x'] * (r['y'] + r['z'])", "r['x'] - (r['y'] + r['z'])",
          "-(r['x'] + r['y']) + (r['z'] + r['t'])", "r['x'] ** (r['y'] ** r['z'])"]
'''
    genv = {}
    exec(GR, genv)
    for si, shape in enumerate(genv["SHAPES"]):
        for vals in ((0.1, 0.2, 0.3), (1e16, -1e16, 1.0), (1.1, 2.3, 0.7)):
            body = (f"d1, m1, r = mk({vals!r}); d2, m2, r2 = mk({vals!r})\nr['s'] = {shape}\nr = r2; r2['s'] = {shape}\n"
                    f"fun = m1.gen_fun('setter', t=m1.containers['d']['t'])\nfun(2.5)\nr2['t'] = 2.5\nprint(d1, d2)\nassert d1 == d2\n")
            rac.case((si, vals), sample=dict(definition=shape, values=vals))
            try:
                d1, m1, r1 = genv["mk"](vals)
                d2, m2, r2 = genv["mk"](vals)
                r1["s"] = eval(shape, dict(r=r1))
                r2["s"] = eval(shape, dict(r=r2))
                fun = m1.gen_fun("setter", t=r1["t"])
                fun(2.5)
                r2["t"] = 2.5
                if repr(d1) != repr(d2):
                    rac.fail(f"grouping {si}", f"C13 s = {shape} with {vals}: generated setter leaves {d1}, assignment through the manager {d2}",
                             PRELUDE + GR + body, "Manager.mk_fun")
            except (ZeroDivisionError, OverflowError):
                continue
            except Exception as ex:     # noqa
                rac.fail(f"grouping {si}", f"C13 s = {shape}: {type(ex).__name__}: {ex}", PRELUDE + GR + body, "Manager.gen_fun")
    return rac.finish()


if __name__ == "__main__":
    sys.exit(main())
