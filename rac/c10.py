"""C10 bounded stand-in: accepted iterates respect limits, max_step and disabled knobs.

On generated problems started inside the limits (rac/optgen.py), after sequences of step()/solve() calls:
  limits    : every log row and the values left in the container lie within the closed limits of each knob
              (relative slack 1e-12 for non-unit weights: the limit is converted to x = knob/weight and back);
  max_step  : for every log row produced by a Jacobian step (alpha >= 0) no knob differs from the previous row by
              more than its max_step (relative slack 1e-9);
  disabled  : a knob is never written while it is disabled (container write trace), also when it is disabled only
              for the duration of a step() call, also when the user changed it by hand while disabled; a disabled
              target has no influence: the knob trajectory is identical when that target's value is changed.
"""
import copy
import json
import os
import sys
sys.path.insert(0, os.path.dirname(os.path.dirname(os.path.abspath(__file__))))
from rac.common import Rac, PRELUDE
from rac import optgen as G

CHECK_SRC = '''
def poke_views(opt):
    """what a user of scipy-style optimizers does between matching calls: take views of the merit function (native and rescaled to
    normalised intervals) and read their limits / current point.  Reading must not change what the solver does afterwards."""
    for kw in (dict(rescale_x=(0.0, 1.0)), dict(rescale_x=(-1.0, 1.0)), dict()):
        try:
            v = opt.get_merit_function(**kw)
            v.get_x_limits()
            v.get_x()
        except Exception:
            pass

def drive(prob, calls):
    """run a list of calls (source text over opt, d); exceptions of solve/step end the sequence"""
    opt, d, act = build(prob, restore_if_fail=False, n_steps_max=6)
    opt.start_knobs = knobs_of(d, prob)        # (construction evaluates the merit function: active knobs are re-written as x*weight)
    err = None
    for c in calls:
        try:
            with deadline(120):
                exec(c, dict(opt=opt, d=d, poke_views=poke_views))
        except TypeError:
            raise
        except Exception as ex:
            err = type(ex).__name__
            break
    return opt, d, err

def check_rows(prob, opt, d, err=None):
    """limits and max_step over the log and the container.
    The container is a row of its own EXCEPT when the last call raised on a problem with non-unit weights: there the solver's limit test
    (in x = knob / weight) and the merit function's own test (on knob = x * weight) can disagree by rounding on a knob sitting exactly on a
    limit; the merit function then raises in the middle of a step and the containers keep the last finite-difference probe (off by the
    finite-difference step).  The statement bounds non-unit weights 'up to rounding' and speaks of ACCEPTED iterates; with unit weights
    there is no rounding and the container is checked after exceptions too."""
    bad = []
    unit = all(w in (None, 1, 1.0) for w in prob["w"])
    rows = [list(map(float, r)) for r in opt._log["knobs"]] + ([knobs_of(d, prob)] if (err is None or unit) else [])
    alphas = list(opt._log["alpha"]) + [-1]
    vact = list(opt._log["vary_active"]) + ["".join("y" if v.active else "n" for v in opt.vary)]
    alphas, vact = alphas[:len(rows)], vact[:len(rows)]
    for r, row in enumerate(rows):
        for i, kv in enumerate(row):
            lim = prob["lim"][i]
            if lim is not None and vact[r][i] == "y":
                slack = 0.0 if prob["w"][i] in (None, 1, 1.0) else 1e-12 * max(1.0, abs(lim[0]), abs(lim[1]))
                if kv < lim[0] - slack or kv > lim[1] + slack:
                    bad.append(("limits", r, i, kv, lim))
        if r > 0 and alphas[r] is not None and alphas[r] >= 0:
            for i, kv in enumerate(row):
                ms = prob["ms"][i]
                if ms is not None and abs(kv - rows[r - 1][i]) > ms * (1 + 1e-9):
                    bad.append(("max_step", r, i, abs(kv - rows[r - 1][i]), ms))
    return bad
'''
exec(G.SRC + CHECK_SRC)


def main():
    rac = Rac("C10")
    quick = rac.tier == "quick"
    N = 1200 if quick else 8000
    rac.section("limits+max_step", "generated problems with limits around the start (solution inside, outside, on the boundary), "
                "per-knob max_step, unit and non-unit weights x call sequences (step(1), step(3), solve(), step(broyden=True), "
                "step(take_best=False), also with views of the merit function taken and read in between); every log row and the container within the closed limits; every Jacobian-step row "
                "within max_step of its predecessor; non-trivial = a limit or max_step is present", f"{N} problems (seeded)", exhaustive=False)
    seqs = [["opt.step(1)"], ["opt.step(3)"], ["opt.solve()"], ["opt.step(2, broyden=True)"], ["opt.step(2, take_best=False)", "opt.step(2)"],
            ["opt.step(1)", "opt.solve()"], ["opt.step(4, take_best=False)"],
            ["poke_views(opt)", "opt.step(3)"], ["opt.step(1)", "poke_views(opt)", "opt.step(2, take_best=False)"], ["poke_views(opt)", "opt.solve()"]]
    # (the first 40 problems all have non-unit weights and a max_step and take plain steps only -- cheap calls that are evaluated whatever the budget: a change
    #  that makes solve() crawl on weighted problems (wave 10, C10-20: the conversions scaling the solver's own vector in place) otherwise starves the section
    #  of evaluations before one of them shows the violation, and a starved harness is "checker broken", not a detection)
    for n in range(N):
        first = n < 40
        if not first and rac.out_of_time(0.55):
            break
        if first:
            prob = G.rnd_problem(rac.rng, limits=n % 2 == 0, max_step=True, weights=True)
            calls = [["opt.step(1)"], ["opt.step(3)"], ["opt.step(2, take_best=False)", "opt.step(2)"]][n % 3]
        else:
            prob = G.rnd_problem(rac.rng, limits=rac.rng.random() < 0.75, max_step=rac.rng.random() < 0.7, weights=rac.rng.random() < 0.5)
            calls = rac.rng.choice(seqs)
        try:
            build(prob)
        except Exception:      # noqa  (cannot be built: e.g. a weighted knob starting exactly on its limit)
            continue
        try:
            opt, d, err = drive(prob, calls)
        except Exception as ex:     # noqa
            rac.fail(f"drive {n}", f"C10 {calls} raised {type(ex).__name__}: {ex}", PRELUDE + G.SRC + CHECK_SRC + f"prob = {prob!r}\nopt, d, err = drive(prob, {calls!r})\n", "Optimize.step")
            continue
        bad = check_rows(prob, opt, d, err)
        rac.case(json.dumps(prob) + str(calls), nontrivial=any(prob["lim"]) or any(prob["ms"]),
                 sample=dict(fam=prob["fam"], lim=prob["lim"], ms=prob["ms"], w=prob["w"], calls=calls, rows=len(opt._log["knobs"])))
        if bad:
            kind, r, i, got, bound = bad[0]
            rac.fail(f"{kind} {n} " + json.dumps(prob)[:60], f"C10 {kind}: log row {r}, knob {i}: {got} vs {bound} after {calls} on a {prob['fam']} problem "
                     f"(weights {prob['w']}, max_step {prob['ms']}, limits {prob['lim']})",
                     PRELUDE + G.SRC + CHECK_SRC + f"prob = {prob!r}\nopt, d, err = drive(prob, {calls!r})\nbad = check_rows(prob, opt, d, err)\nassert not bad, bad[:3]\n",
                     "MeritFunctionForMatch._clip_to_max_steps" if kind == "max_step" else "JacobianSolver.step")
    rac.section("disabled-knobs", "a knob disabled persistently, or only for one step() call (disable_vary / disable_vary_name / "
                "enable_* of the others), or disabled and then changed by hand between two steps, is never written; ids spelled as a list or as a bare "
                "integer (0 and 1 included)", "problems with >= 2 knobs",
                exhaustive=False)
    variants = [
        ("persistent", ["opt.disable(vary={J})", "opt.step(2)", "opt.solve()"]),
        ("per-call disable_vary", ["opt.step(2, disable_vary={J})"]),
        ("per-call disable_vary_name", ["opt.step(2, disable_vary_name=['k{j}'])"]),
        ("step, disable, hand-change, step", ["opt.step(1)", "opt.disable(vary={J})", "d.writes.clear(); dict.__setitem__(d, 'k{j}', 0.123456)", "opt.step(2)"]),
        ("disable, hand-change, solve", ["opt.disable(vary={J})", "dict.__setitem__(d, 'k{j}', -0.0625)", "opt.solve()"]),
        ("per-call disable_target", ["opt.step(2, disable_target={T0}, disable_vary={J})"]),
        ("enable the others, per call", ["opt.disable(vary=True)", "opt.step(2, enable_vary={OTHERS})"]),
        # the older entry points take the same ids (a bare 0 is an id like any other)
        ("older entry point disable_vary(id=)", ["opt.disable_vary(id={J})", "opt.step(2)", "opt.solve()"]),
        ("older entry point disable_vary(id=), enable_targets", ["opt.disable_targets(id={T0})", "opt.disable_vary(id={J})", "opt.enable_targets(id={T0})", "opt.step(2)"]),
        # a knob switched ON for one call only is off again afterwards -- also when that call ended by going back to its best point
        ("per-call enable, later steps", ["opt.disable(vary={J})", "opt.step(4, enable_vary={J})", "d.writes.clear(); dict.__setitem__(d, 'k{j}', 0.123456)", "opt.step(2)"]),
        ("per-call enable with take_best, later steps", ["opt.disable(vary={J})", "opt.step(5, enable_vary={J}, take_best=True)", "d.writes.clear(); dict.__setitem__(d, 'k{j}', 0.123456)", "opt.step(3)", "opt.solve()"]),
    ]
    for n in range(N // 2):
        if rac.out_of_time(0.8):
            break
        prob = G.rnd_problem(rac.rng, nk=rac.rng.randint(2, 3), limits=rac.rng.random() < 0.3)
        prob["kact"] = [True] * len(prob["k0"])
        j = rac.rng.randrange(len(prob["k0"]))
        vname, tmpl = rac.rng.choice(variants)
        # an id is given as a list of ids or as a bare integer (0 and 1 are ids like any other, not booleans)
        bare = rac.rng.random() < 0.5
        others = [i for i in range(len(prob["k0"])) if i != j]
        calls = [c.format(j=j, J=(j if bare else [j]), T0=(0 if bare else [0]), OTHERS=(others[0] if bare and len(others) == 1 else others)) for c in tmpl]
        try:
            build(prob)
        except Exception:      # noqa
            continue
        try:
            opt, d, err = drive(prob, calls)
        except Exception as ex:     # noqa
            rac.fail(f"disabled {vname} raises", f"C10 {calls} raised {type(ex).__name__}: {ex}",
                     PRELUDE + G.SRC + CHECK_SRC + f"prob = {prob!r}\nopt, d, err = drive(prob, {calls!r})\n", "Optimize.step")
            continue
        hand = 0.123456 if "0.123456" in " ".join(calls) else (-0.0625 if "-0.0625" in " ".join(calls) else None)
        wr = [(k, v) for k, v in d.writes if k == f"k{j}"]
        if "per-call" in vname:
            # writes while the call is running: the trace was cleared by build(); everything recorded happened in the call
            pass
        final = float(d[f"k{j}"])
        want = hand if hand is not None else opt.start_knobs[j]
        rac.case(json.dumps(prob) + vname, sample=dict(variant=vname, knob=j, calls=calls))
        moved = [v for k, v in wr if v != want]
        if moved or final != want:
            rac.fail(f"disabled {vname} {n}", f"C10 disabled knob k{j} ({vname}): written {wr[:4]} / left at {final}, expected to stay {want}",
                     PRELUDE + G.SRC + CHECK_SRC + f"prob = {prob!r}\nopt, d, err = drive(prob, {calls!r})\nwant = {hand!r} if {hand!r} is not None else opt.start_knobs[{j}]\nwr = [(k, v) for k, v in d.writes if k == 'k{j}' and v != want]\n"
                     f"assert not wr and float(d['k{j}']) == want, (wr, d['k{j}'], want)\n", "Optimize.set_knobs_from_x")
    rac.section("disabled-target", "two runs that differ only in the target value of a DISABLED target take identical knob trajectories",
                "problems with >= 2 targets", exhaustive=False)
    for n in range(N // 3):
        if rac.out_of_time(0.97):
            break
        logt = rac.rng.random() < 0.3
        prob = G.rnd_problem(rac.rng, nt=rac.rng.randint(2, 4), fam="exp" if logt else None)
        j = rac.rng.randrange(len(prob["val"]))
        prob["tact"] = [i != j for i in range(len(prob["val"]))]
        if logt:
            # the disabled target is an optimize_log target (its error is the log of a ratio): positive target values
            prob["val"] = [abs(v) + 0.1 for v in prob["val"]]
            prob["olog"] = [i == j or rac.rng.random() < 0.3 for i in range(len(prob["val"]))]
        prob2 = copy.deepcopy(prob)
        prob2["val"][j] = prob2["val"][j] + rac.rng.choice([1.0, -3.5, 100.0]) if not logt else prob2["val"][j] * rac.rng.choice([3.0, 0.2, 50.0])
        calls = rac.rng.choice([["opt.step(3)"], ["opt.solve()"], ["opt.step(2, take_best=False)"]])
        try:
            o1, d1, e1 = drive(prob, calls)
            o2, d2, e2 = drive(prob2, calls)
        except Exception as ex:     # noqa
            continue
        t1 = [list(map(float, r)) for r in o1._log["knobs"]]
        t2 = [list(map(float, r)) for r in o2._log["knobs"]]
        rac.case(json.dumps(prob) + str(calls), sample=dict(disabled_target=j, calls=calls, rows=len(t1)))
        if t1 != t2 or e1 != e2:
            rac.fail(f"disabled-target {n}", f"C10 disabled target {j}: changing its value changes the trajectory: {t1[:4]} vs {t2[:4]} ({e1}/{e2})",
                     PRELUDE + G.SRC + CHECK_SRC + f"p1 = {prob!r}\np2 = {prob2!r}\no1, d1, e1 = drive(p1, {calls!r}); o2, d2, e2 = drive(p2, {calls!r})\n"
                     "assert [list(map(float, r)) for r in o1._log['knobs']] == [list(map(float, r)) for r in o2._log['knobs']]\n", "MeritFunctionForMatch.__call__")
    rac.section("limits-changed-between-calls", "after a first step() the limits of a knob are TIGHTENED around its current value (the user narrows the "
                "allowed range), then more steps: every row logged after the change, and the container, lie within the NEW limits "
                "(unit weights: exactly)", "problems with limits", exhaustive=False)
    for n in range(N // 4):
        if rac.out_of_time(0.9):
            break
        prob = G.rnd_problem(rac.rng, limits=True, weights=False, max_step=rac.rng.random() < 0.4)
        if not any(prob["lim"]):
            continue
        try:
            opt, d, err = drive(prob, ["opt.step(1)"])
        except Exception:     # noqa
            continue
        if err is not None:
            continue
        cur = knobs_of(d, prob)
        i = rac.rng.choice([k for k, l in enumerate(prob["lim"]) if l is not None])
        lo, hi = prob["lim"][i]
        new = (max(lo, cur[i] - rac.rng.choice([0.0, 0.01, 0.1])), min(hi, cur[i] + rac.rng.choice([0.0, 0.01, 0.1])))
        if new[0] >= new[1]:
            continue
        n0 = len(opt._log["knobs"])
        calls2 = rac.rng.choice([["opt.step(3, take_best=False)"], ["opt.step(2)"], ["opt.step(2, broyden=True)"]])
        scr = PRELUDE + G.SRC + CHECK_SRC + f"prob = {prob!r}\nopt, d, err = drive(prob, ['opt.step(1)'])\nopt.vary[{i}].limits = {new!r}\nn0 = len(opt._log['knobs'])\n" \
            f"for c in {calls2!r}:\n    try:\n        exec(c, dict(opt=opt, d=d))\n    except Exception as ex:\n        print('raised', ex); break\n" \
            f"rows = [list(map(float, r)) for r in opt._log['knobs'][n0:]] + [knobs_of(d, prob)]\nprint(rows)\nassert all({new[0]!r} <= r[{i}] <= {new[1]!r} for r in rows), rows\n"
        try:
            opt.vary[i].limits = new
            raised = None
            for c in calls2:
                try:
                    exec(c, dict(opt=opt, d=d))
                except Exception as ex:     # noqa
                    raised = ex
                    break
        except Exception:     # noqa
            continue
        rows = [list(map(float, r)) for r in opt._log["knobs"][n0:]] + [knobs_of(d, prob)]
        rac.case(json.dumps(prob) + str(new) + str(calls2), sample=dict(knob=i, old=prob["lim"][i], new=new, calls=calls2))
        badr = next((r for r in rows if not (new[0] <= r[i] <= new[1])), None)
        if badr is not None:
            rac.fail(f"limits-changed {n}", f"C10 limits of knob {i} tightened from {prob['lim'][i]} to {new} after one step (value {cur[i]}), then {calls2}: "
                     f"a later row has the knob at {badr[i]}" + (f" (the call raised {type(raised).__name__}: {raised})" if raised else ""), scr, "JacobianSolver.step")
    rac.section("target-disabled-between-calls", "two runs that differ only in the FUNCTION (row, offset, value) of one target; that target is "
                "active for a first step() call, then the knobs are put on a common point by hand and the target is disabled (disable() or "
                "disable_target=): the following call takes the same steps in both runs (plain finite-difference Jacobians: every family, "
                "bit-exact; Broyden updates: linear family without limits, where the updated rows of the other targets stay exact, 1e-6)",
                "problems with >= 2 targets", exhaustive=False)
    for n in range(N // 3):
        if rac.out_of_time(0.99):
            break
        broy = rac.rng.random() < 0.6
        prob = G.rnd_problem(rac.rng, nk=rac.rng.randint(2, 3), nt=rac.rng.randint(2, 4), fam="linear" if broy else None, limits=False)
        prob["tact"] = [True] * len(prob["val"])
        j = rac.rng.randrange(len(prob["val"]))
        prob2 = copy.deepcopy(prob)
        prob2["A"][j] = [round(rac.rng.uniform(-2, 2), 2) for _ in prob["k0"]]
        prob2["c"][j] = round(rac.rng.uniform(-1, 1), 2)
        prob2["val"][j] += rac.rng.choice([0.0, 1.0, -2.5])
        kw = ", broyden=True" if broy else ""
        n2 = rac.rng.randint(1, 2)
        percall = rac.rng.random() < 0.4
        jj = j if rac.rng.random() < 0.5 else [j]        # the id as a bare integer or as a list
        hand = [f"d['k{i}'] = {prob['k0'][i] + 0.013 * (i + 1)!r}" for i in range(len(prob["k0"])) if prob["kact"][i]]
        calls = [f"opt.step(1{kw})"] + hand + ([f"opt.step({n2}{kw}, disable_target={jj})"] if percall
                                               else [f"opt.disable(target={jj})", f"opt.step({n2}{kw})"])
        try:
            o1, d1, e1 = drive(prob, calls)
            o2, d2, e2 = drive(prob2, calls)
        except Exception as ex:     # noqa
            continue
        if e1 is not None or e2 is not None:
            continue
        a, b = knobs_of(d1, prob), knobs_of(d2, prob2)
        tolr = 1e-6 if broy else 0.0
        rac.case(json.dumps(prob) + str(calls), sample=dict(disabled_target=j, broyden=broy, per_call=percall))
        if any(abs(x - y) > tolr * max(1.0, abs(y)) for x, y in zip(a, b)):
            rac.fail(f"target-disabled-between-calls {n}", f"C10 {calls} on a {prob['fam']} problem: ends at {a}; with another function for target {j} "
                     f"(disabled during the last call) it ends at {b}: the disabled target still shapes the step",
                     PRELUDE + G.SRC + CHECK_SRC + f"p1 = {prob!r}\np2 = {prob2!r}\ncalls = {calls!r}\no1, d1, e1 = drive(p1, calls); o2, d2, e2 = drive(p2, calls)\n"
                     f"a, b = knobs_of(d1, p1), knobs_of(d2, p2)\nassert all(abs(x - y) <= {tolr} * max(1.0, abs(y)) for x, y in zip(a, b)), (a, b)\n",
                     "JacobianSolver.step")
    return rac.finish()


if __name__ == "__main__":
    sys.exit(main())
