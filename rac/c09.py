"""C09 bounded stand-in: solve() returns only on a matched point and otherwise restores the knobs.

Contract of Optimize.solve (statement of C09), evaluated on generated problems:
  normal return  =>  every ACTIVE target, re-evaluated independently from the knob values left in the container,
                     is within its tolerance;
  exception (no point within tolerance, limit violation, user action raising) with restore_if_fail
                 =>  knobs == log row 0 (bit-exact for unit weights, 1e-12 relative otherwise) and the active flags of
                     knobs and targets == row 0's.
"""
import json
import os
import sys
sys.path.insert(0, os.path.dirname(os.path.dirname(os.path.abspath(__file__))))
from rac.common import Rac, PRELUDE
from rac import optgen as G

CHECK_SRC = '''
def run_solve(prob, n_steps, fail_at=None, pre=(), broyden=False):
    """-> (outcome, details).  `pre`: calls made before solve (e.g. enabling a knob that was inactive at row 0)"""
    opt, d, act = build(prob, n_steps_max=n_steps)
    row0 = dict(knobs=list(opt._log["knobs"][0]), va=opt._log["vary_active"][0], ta=opt._log["target_active"][0])
    for p in pre:
        exec(p, dict(opt=opt, d=d))
    act.fail_at = None if fail_at is None else act.calls + fail_at
    try:
        with deadline(120):
            opt.solve(broyden=broyden)
    except Exception as ex:
        kn = knobs_of(d, prob)
        va = "".join("y" if v.active else "n" for v in opt.vary)
        ta = "".join("y" if t.active else "n" for t in opt.targets)
        unit = all(w is None or w == 1 for w in prob["w"])
        same = all((a == b) if unit else abs(a - b) <= 1e-12 * max(1.0, abs(b)) for a, b in zip(kn, row0["knobs"]))
        if not same or va != row0["va"] or ta != row0["ta"]:
            return "not-restored", dict(exc=type(ex).__name__, knobs=kn, row0=row0, vary_active=va, target_active=ta)
        return "restored", dict(exc=type(ex).__name__)
    kn = knobs_of(d, prob)
    tact = [t.active for t in opt.targets]
    ok = within_tol(prob, kn, tact)
    if not all(ok):
        return "returned-unmatched", dict(knobs=kn, residual=[float(x) for x in residual(prob, kn)], tol=prob["tol"], active=tact)
    return "matched", dict(knobs=kn)
'''
exec(G.SRC + CHECK_SRC)


def main():
    rac = Rac("C09")
    quick = rac.tier == "quick"
    N = 1200 if quick else 8000
    rac.section("solve", "generated problems (linear / quadratic / sin / atan; 1-3 knobs, 1-4 targets; consistent, inconsistent, "
                "rank-deficient; limits, weights, max_step, inactive knobs/targets) x n_steps_max in {0,1,3,20} x {plain, Broyden, "
                "user action raising at its 1st..6th call, a knob enabled after row 0, a knob moved by a step and then disabled before a failing solve, flags switched between two solves through the older entry points (enable_all_* / disable_all_* / *_vary(id) / *_targets(id) / assignment to .active)}; normal return => independently re-evaluated "
                "active targets within tolerance; exception => knobs and flags of log row 0; non-trivial = at least one "
                "solver step was attempted", f"{N} problems (seeded)", exhaustive=False)
    counts = {}
    for n in range(N):
        if rac.out_of_time(0.8):
            break
        prob = G.rnd_problem(rac.rng, inactive=rac.rng.random() < 0.4)
        n_steps = rac.rng.choice([0, 1, 3, 20, 20])
        mode = rac.rng.choice(["plain", "plain", "broyden", "fail", "enable", "moved-then-disabled", "flags-by-other-routes"])
        fail_at = rac.rng.randint(1, 6) if mode in ("fail", "moved-then-disabled") else None
        pre = ()
        if mode == "enable":
            pre = ("opt.enable(vary=True); opt.enable(target=True)",)
        if mode == "moved-then-disabled":
            # a knob is moved by one step, then disabled; the solve() that follows fails: every knob -- also the one that is now disabled -- and
            # every flag goes back to log row 0
            pre = ("opt.step(1)", f"opt.disable(vary=[{rac.rng.randrange(len(prob['k0']))}])")
        if mode == "flags-by-other-routes":
            # a target / knob is switched off, the problem is solved (or fails) once, then flags are switched through the OTHER public routes
            # (the older enable_all_* / disable_all_* / *_vary / *_targets entry points, assignment to .active): the solve() that follows
            # must judge the targets that are active NOW
            it, ik = rac.rng.randrange(len(prob["val"])), rac.rng.randrange(len(prob["k0"]))
            first = rac.rng.choice([f"opt.disable(target=[{it}])", f"opt.disable(vary=[{ik}])", f"opt.disable_targets(id={it})", f"opt.disable_vary(id={ik})",
                                    "opt.disable_all_targets()"])
            back = rac.rng.choice(["opt.enable_all_targets(); opt.enable_all_vary()", f"opt.enable_targets(id={it}); opt.enable_vary(id={ik})",
                                   "for t in opt.targets: t.active = True\nfor v in opt.vary: v.active = True",
                                   f"opt.enable_all_targets(); opt.enable_all_vary(); opt.disable_targets(id={it})",
                                   "opt.enable(target=True); opt.enable(vary=True)"])
            pre = (first, "try:\n    opt.solve()\nexcept Exception:\n    pass", back)
        try:
            out, det = run_solve(prob, n_steps, fail_at=fail_at, pre=pre, broyden=mode == "broyden")
        except Exception as ex:      # noqa  (problem cannot even be built: e.g. start outside limits)
            continue
        counts[out] = counts.get(out, 0) + 1
        rac.case(json.dumps(prob) + str((n_steps, mode, fail_at)), nontrivial=n_steps > 0,
                 sample=dict(fam=prob["fam"], knobs=len(prob["k0"]), targets=len(prob["val"]), n_steps=n_steps, mode=mode, outcome=out))
        if out in ("not-restored", "returned-unmatched"):
            scr = PRELUDE + G.SRC + CHECK_SRC + f"prob = {prob!r}\nout, det = run_solve(prob, {n_steps}, fail_at={fail_at!r}, pre={pre!r}, broyden={mode == 'broyden'})\n" \
                "print(out, det)\nassert out in ('matched', 'restored'), (out, det)\n"
            rac.fail(f"solve {n} {out} " + json.dumps(prob)[:80], f"C09 solve() on a {prob['fam']} problem ({mode}, n_steps_max={n_steps}): {out}: {det}", scr,
                     "Optimize.solve")
    rac.section("crafted", "hand-made corner cases: knob blocked by its limit while the last finite-difference point is within "
                "tolerance; knob inactive at row 0 then enabled and moved by a failing solve; failing first evaluation", "9 cases")
    crafted = [
        ("limit-blocked fd point within tol", dict(fam="linear", A=[[1.0]], c=[0.0], k0=[1.0], val=[1.0000015], tol=[1e-6], tw=[None],
                                                   lim=[[0.0, 1.0]], w=[None], ms=[None], step=1e-6, kact=[True], tact=[True]), 20, None, ()),
        ("inactive knob enabled then failing solve", dict(fam="linear", A=[[1.0, 1.0]], c=[0.0], k0=[0.3, 0.3], val=[50.0], tol=[1e-9], tw=[None],
                                                          lim=[[0.0, 1.0], [0.0, 1.0]], w=[None, None], ms=[None, None], step=1e-7, kact=[True, False], tact=[True]),
         5, None, ("opt.enable(vary=True)",)),
        ("inactive weighted knob enabled, action fails", dict(fam="quad", A=[[1.0, 0.5]], c=[0.0], k0=[0.3, 0.2], val=[0.9], tol=[1e-9], tw=[None],
                                                              lim=[None, None], w=[2.0, 0.5], ms=[0.1, 0.1], step=1e-7, kact=[False, True], tact=[True]),
         20, 9, ("opt.enable(vary=True)",)),
        ("inconsistent two targets", dict(fam="linear", A=[[1.0], [1.0]], c=[0.0, 0.0], k0=[0.0], val=[1.0, 2.0], tol=[1e-6, 1e-6], tw=[None, None],
                                          lim=[None], w=[None], ms=[None], step=1e-7, kact=[True], tact=[True, True]), 20, None, ()),
        ("disabled target unmatched is fine", dict(fam="linear", A=[[1.0], [1.0]], c=[0.0, 0.0], k0=[0.0], val=[1.0, 2.0], tol=[1e-6, 1e-6], tw=[None, None],
                                                   lim=[None], w=[None], ms=[None], step=1e-7, kact=[True], tact=[True, False]), 20, None, ()),
        ("zero steps", dict(fam="linear", A=[[1.0]], c=[0.0], k0=[0.0], val=[1.0], tol=[1e-6], tw=[None], lim=[None], w=[None], ms=[None],
                            step=1e-7, kact=[True], tact=[True]), 0, None, ()),
        # an active target that is NaN at the starting point while every other active target is already within tolerance there: not matched
        ("NaN target at the start, the others matched", dict(fam="sqrt", A=[[1.0], [1.0]], c=[1.0, -5.0], k0=[0.0], val=[1.0, 2.0], tol=[1e-6, 1e-6],
                                                           tw=[None, None], lim=[None], w=[None], ms=[None], step=1e-7, kact=[True], tact=[True, True]), 20, None, ()),
        ("NaN target at the start, alone", dict(fam="sqrt", A=[[1.0]], c=[-5.0], k0=[0.0], val=[2.0], tol=[1e-6], tw=[None], lim=[None], w=[None], ms=[None],
                                                step=1e-7, kact=[True], tact=[True]), 5, None, ()),
        ("NaN target with limits", dict(fam="sqrt", A=[[1.0, 0.0], [0.0, 1.0]], c=[4.0, -1.0], k0=[0.0, 0.5], val=[2.0, 1.0], tol=[1e-6, 1e-6], tw=[None, None],
                                        lim=[[-1.0, 1.0], [-1.0, 1.0]], w=[None, None], ms=[None, None], step=1e-7, kact=[True, True], tact=[True, True]), 20, None, ()),
    ]
    for name, prob, n_steps, fail_at, pre in crafted:
        try:
            out, det = run_solve(prob, n_steps, fail_at=fail_at, pre=pre)
        except Exception as ex:     # noqa
            out, det = "harness-error", repr(ex)
        rac.case(name, sample=dict(case=name, outcome=out))
        if out in ("not-restored", "returned-unmatched"):
            scr = PRELUDE + G.SRC + CHECK_SRC + f"prob = {prob!r}\nout, det = run_solve(prob, {n_steps}, fail_at={fail_at!r}, pre={pre!r})\nprint(out, det)\nassert out in ('matched', 'restored'), (out, det)\n"
            rac.fail("crafted " + name, f"C09 {name}: {out}: {det}", scr, "Optimize.solve")
    rac.sections["solve"]["outcomes"] = counts
    return rac.finish()


if __name__ == "__main__":
    sys.exit(main())
